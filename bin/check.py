import argparse
import importlib
import os
import sys

VERIF = os.path.dirname(os.path.dirname(os.path.abspath(__file__)))
sys.path.insert(0, VERIF)
sys.setrecursionlimit(20000)
import warnings  # noqa: E402

warnings.filterwarnings('ignore', category=RuntimeWarning, message='invalid value encountered')


def main():
    ap = argparse.ArgumentParser()
    ap.add_argument('pid')
    ap.add_argument('--tier', default=os.environ.get('VERIF_TIER', 'quick'))
    ap.add_argument('--replay')
    a = ap.parse_args()
    pid = a.pid.upper()
    modname = [f[:-3] for f in os.listdir(os.path.join(VERIF, 'harness')) if f.lower().startswith(pid.lower() + '_') and f.endswith('.py')]
    if not modname:
        print(f'no harness for {pid}', file=sys.stderr)
        return 3
    if a.replay:
        # real-scipp process
        sys.path.insert(0, os.environ.get('VERIF_REPO_SRC', '/repo/src'))
        m = importlib.import_module('harness.' + modname[0])
        import json
        with open(a.replay) as f:
            case = json.load(f)
        r = m.replay_real(case)
        print(('REPRODUCED ' if r['reproduced'] else 'NOT-REPRODUCED ') + r.get('detail', ''))
        return 10 if r['reproduced'] else 0
    from harness.common import Check, env_seed
    m = importlib.import_module('harness.' + modname[0])
    os.environ['VERIF_TIER'] = a.tier
    chk = Check(pid, a.tier, env_seed())
    try:
        m.run(chk)
    except Exception as e:  # noqa: BLE001
        import traceback
        traceback.print_exc()
        chk.harness_error(f'{type(e).__name__}: {e}')
    return chk.finish()


if __name__ == '__main__':
    sys.exit(main())
