"""C01 - elastic TOF kinematics = de Broglie / Bragg definitions (DESIGN 5/C01)."""
from __future__ import annotations

import itertools
from fractions import Fraction

from . import kin
from .common import ob_dict, run_jobs

DT_DATA = ['float64', 'float32', 'int64']
DT_OTHER = ['float64', 'float32', 'int64']


def _ops():
    from symex import core as C
    from .symutil import H, MN, PI

    return kin.Ops(C.rsqrt, lambda x: C.rfn('sin', x), PI(), H(), MN())


def _mk_args(kname, dtypes, angle_unit, shapes):
    """Symbolic operands.  Returns (kwargs, si: name->callable(idx)->R)."""
    from symex import core as C
    from symex import terms as T
    from .symutil import sym_array, sym_array2, sym_scalar, sym_unit

    kinds = kin.KERNELS[kname][0]
    kwargs = {}
    for (arg, kind), dt, shp in zip(kinds.items(), dtypes, shapes, strict=True):
        if kind == 'angle':
            unit = angle_unit
        else:
            unit = sym_unit(arg, kin.KINDS[kind][0])
        if shp == 0:
            v = sym_scalar(arg, unit, dt)
        elif isinstance(shp, tuple):
            v = sym_array2(arg, shp[0], shp[1], unit, dt)
        else:
            v = sym_array(arg, shp, 2, unit, dt)
        kwargs[arg] = v
        if kind == 'angle':
            # theta in (0, pi/2]  =>  sin(theta) > 0 : declared on the atoms the kernel will use
            from symsc.units import parse_unit
            import numpy as np
            f = C.R(parse_unit(unit).factor_to(parse_unit('rad')))
            for idx in np.ndindex(v.shape):
                s = C.rfn('sin', v.values[idx] * f / 2)
                a = T.fn_atom_of(s.t)
                if a is not None:
                    a.sign = '+'
    return kwargs


def _si(v, idx_map):
    from .symutil import si_value

    idx = tuple(idx_map[d] for d in v.dims)
    return si_value(v, idx)


def job_kernel(job, seed):
    kname, dtypes, angle_unit, shapes = job
    import numpy as np
    from symex import core as C
    from symex import loader
    from symsc.units import parse_unit
    from .symutil import fresh_run

    loader.install_shim()
    tof = loader.load('conversion.tof')
    fresh_run()
    kinds, oracle, outunit, data_arg = kin.KERNELS[kname]
    kwargs = _mk_args(kname, dtypes, angle_unit, shapes)
    f = getattr(tof, kname)
    paths = C.explore(lambda: f(**kwargs))
    obs = []
    cands = []
    tag = f'{kname}[{",".join(dtypes)};{angle_unit};{shapes}]'
    case = {'kind': 'kernel', 'kernel': kname, 'dtypes': list(dtypes), 'angle_unit': angle_unit, 'shapes': [str(s) for s in shapes]}
    if len(paths) > 1 and all(p.exc is None for p in paths) and any(not p.inconclusive for p in paths):
        # the implementation dispatches on its input: on every path the result must still be the documented value
        # (a path that answers NaN / inf for a valid input, or another formula, is a violation under its path condition)
        o = _ops()
        for k_, p in enumerate(paths):
            if p.inconclusive:
                # e.g. the concolic branch "x != the value float() handed out": not followed, and reported as such
                obs.append({'name': f'{tag}:path{k_}:runs', 'status': 'inconclusive', 'detail': p.inconclusive, 't': 0})
                continue
            outp = p.value
            for idx in np.ndindex(outp.shape):
                im = dict(zip(outp.dims, idx, strict=True))
                v = outp.values[idx]
                if getattr(v, 'special', None):
                    goal = C.FALSE
                else:
                    with C.oracle():
                        args_si = {a: _si(v_, {d: im[d] for d in v_.dims}) for a, v_ in kwargs.items()}
                        goal = v * C.R(outp.unit.scale_rat()) == oracle(o, **args_si)
                ob = C.prove(f'{tag}:path{k_}:value{list(idx)} = documented formula (finite)', goal, pc=p.pc)
                obs.append(ob_dict(ob))
                if ob.status == 'violated':
                    cands.append((f'C01:{kname}:value', {**case, 'dispatch': True}, f'a code path returns {"a non-finite value" if getattr(v, "special", None) else "another value"} for a valid input'))
        return {'obligations': obs, 'candidates': cands, 'paths': len(paths)}
    if len(paths) != 1 or paths[0].exc is not None or paths[0].inconclusive:
        p = paths[0]
        if p.inconclusive:
            obs.append({'name': f'{tag}:runs', 'status': 'inconclusive', 'detail': p.inconclusive, 't': 0})
        else:
            obs.append({'name': f'{tag}:runs', 'status': 'violated', 'detail': f'{len(paths)} paths / {p.exc!r}', 't': 0})
            cands.append((f'C01:{kname}:raises', case, f'{p.exc!r}'))
        return {'obligations': obs, 'candidates': cands, 'paths': len(paths)}
    out = paths[0].value
    # (i) documented unit
    if isinstance(outunit, tuple):
        exp_unit = parse_unit('dimensionless') / kwargs[outunit[1]].unit
    else:
        exp_unit = parse_unit(outunit)
    ob = C.prove(f'{tag}:unit', C.B.const(out.unit == exp_unit))
    ob.sample = f'{tag}: unit {out.unit} == {exp_unit}'
    obs.append(ob_dict(ob))
    if ob.status != 'discharged':
        cands.append((f'C01:{kname}:unit', case, f'unit {out.unit} != {exp_unit}'))
    # dtype contract
    exp_dt = 'float32' if dtypes[list(kinds).index(data_arg)] == 'float32' else 'float64'
    ob = C.prove(f'{tag}:dtype', C.B.const(out.dtype.name == exp_dt))
    obs.append(ob_dict(ob))
    if ob.status != 'discharged':
        cands.append((f'C01:{kname}:dtype', case, f'dtype {out.dtype.name} != {exp_dt}'))
    # (ii) value identity per element
    o = _ops()
    sizes = out.sizes
    if out.unit.dim == exp_unit.dim:
        for idx in np.ndindex(out.shape):
            im = dict(zip(out.dims, idx, strict=True))
            with C.oracle():
                args_si = {a: _si(v, {d: im[d] for d in v.dims}) for a, v in kwargs.items()}
                expect = oracle(o, **args_si)
                got = out.values[idx] * C.R(out.unit.scale_rat())
            ob = C.prove_zero(f'{tag}:value{list(idx)}', got - expect)
            obs.append(ob_dict(ob))
            if ob.status == 'violated':
                c = dict(case)
                c['model'] = {k: str(v) for k, v in (ob.model or {}).items()}
                cands.append((f'C01:{kname}:value', c, 'value differs from documented formula'))
    # (iii) rounding budget from the recorded operation sequence
    n64, n32 = out._rnd
    u64, u32 = Fraction(1, 2**53), Fraction(1, 2**24)
    budget = C.R.lift(n64 * 2 * u64 + n32 * 2 * u32)
    # weaker reading of the accuracy clause: double-precision accuracy is required only when no operand is single precision
    bound = Fraction(1, 10**5) if 'float32' in dtypes else Fraction(1, 10**11)
    eps = C.sym_var('relerr')
    ob = C.prove(f'{tag}:rounding(n64={n64},n32={n32})', eps < bound, assumptions=[eps >= 0, eps <= budget * (1 + budget)])
    obs.append(ob_dict(ob))
    if ob.status != 'discharged':
        cands.append((f'C01:{kname}:rounding', case, f'rounding budget n64={n64} n32={n32} exceeds bound'))
    return {'obligations': obs, 'candidates': cands, 'paths': 1}


def _resolve(graph, name, inputs, cache):
    """transform_coords model: present => input; else rule on recursively resolved args."""
    import inspect

    if name in inputs:
        return inputs[name]
    if name in cache:
        return cache[name]
    for key, fn in graph.items():
        keys = key if isinstance(key, tuple) else (key,)
        if name in keys:
            params = inspect.signature(fn).parameters
            args = {p: _resolve(graph, p, inputs, cache) for p in params}
            r = fn(**args)
            if isinstance(key, tuple):
                for k in keys:
                    cache[k] = r[k]
            else:
                cache[key] = r
            return cache[name]
    raise KeyError(name)


def job_routes(job, seed):
    """(iv) route agreement, enumerated from the real graph tables; round trips."""
    dts = job
    from symex import core as C
    from symex import loader
    from .symutil import fresh_run, si_value, sym_scalar, sym_unit, PI

    loader.install_shim()
    tofmod = loader.load('conversion.tof')
    gt = loader.load('conversion.graph.tof')
    fresh_run()
    obs, cands = [], []
    G = gt._GRAPH_DYNAMICS_BY_ORIGIN
    scalar_targets = ['wavelength', 'energy', 'dspacing', 'Q']
    kinds = {'tof': 'time', 'energy': 'energy', 'wavelength': 'wavelength', 'Q': 'invlength'}
    dt_data, dt_other = dts
    kw = _mk_args('dspacing_from_tof', [dt_data, dt_other, dt_other], 'rad', [0, 0, 0])
    base_inputs = {'Ltotal': kw['Ltotal'], 'two_theta': kw['two_theta']}
    npaths = 0
    for o1 in G:
        x0 = kw['tof'] if o1 == 'tof' else sym_scalar(o1 + '0', sym_unit(o1 + '0', kin.KINDS[kinds[o1]][0]), dt_data)
        inputs1 = {**base_inputs, o1: x0}
        for o2 in G:
            if o2 == o1 or o2 not in G[o1] or o2 not in scalar_targets:
                continue
            for T_ in scalar_targets:
                if T_ in (o1, o2) or T_ not in G[o1] or T_ not in G[o2]:
                    continue
                name = f'route[{dt_data},{dt_other}]:{o1}->{T_} == {o1}->{o2}->{T_}'

                def run(o1=o1, o2=o2, T_=T_, inputs1=inputs1):
                    direct = _resolve(G[o1], T_, inputs1, {})
                    mid = _resolve(G[o1], o2, inputs1, {})
                    via = _resolve(G[o2], T_, {**base_inputs, o2: mid}, {})
                    return direct, via

                paths = C.explore(run)
                npaths += len(paths)
                p = paths[0]
                if len(paths) != 1 or p.exc is not None or p.inconclusive:
                    obs.append({'name': name, 'status': 'inconclusive', 'detail': str(p.inconclusive or p.exc), 't': 0})
                    continue
                direct, via = p.value
                okunit = direct.unit.dim == via.unit.dim
                ob = C.prove_zero(name, si_value(direct) - si_value(via)) if okunit else C.prove(name, C.FALSE)
                obs.append(ob_dict(ob))
                if ob.status == 'violated':
                    cands.append((f'C01:route:{o1}:{o2}:{T_}', {'kind': 'route', 'o1': o1, 'o2': o2, 'target': T_, 'dtypes': list(dts)}, 'routes disagree'))
    # round trips
    lam = sym_scalar('lam', sym_unit('lam', 'm'), dt_data)
    tt = kw['two_theta']

    def rt():
        E = tofmod.energy_from_wavelength(wavelength=lam)
        lam2 = tofmod.wavelength_from_energy(energy=E)
        Q = tofmod.Q_from_wavelength(wavelength=lam, two_theta=tt)
        lam3 = tofmod.wavelength_from_Q(Q=Q, two_theta=tt)
        d = tofmod.dspacing_from_wavelength(wavelength=lam, two_theta=tt)
        return lam2, lam3, Q, d

    paths = C.explore(rt)
    npaths += len(paths)
    p = paths[0]
    if p.exc is None and not p.inconclusive and len(paths) == 1:
        lam2, lam3, Q, d = p.value
        for nm, r in (('lambda->E->lambda', si_value(lam2) - si_value(lam)), ('lambda->Q->lambda', si_value(lam3) - si_value(lam)),
                      ('Q*d=2pi', si_value(Q) * si_value(d) - 2 * PI())):
            ob = C.prove_zero(f'roundtrip[{dt_data},{dt_other}]:{nm}', r)
            obs.append(ob_dict(ob))
            if ob.status == 'violated':
                cands.append((f'C01:roundtrip:{nm}', {'kind': 'roundtrip', 'which': nm, 'dtypes': list(dts)}, 'round trip fails'))
    else:
        obs.append({'name': 'roundtrip', 'status': 'inconclusive', 'detail': str(p.inconclusive or p.exc), 't': 0})
    return {'obligations': obs, 'candidates': cands, 'paths': npaths}


def job_history(job, seed):
    """Call history: a kernel called with one dtype/unit must not influence a later call with another
    (module-level caches, memoised constants): second result = documented formula, dtype, rounding budget."""
    kname, first, second = job
    import numpy as np
    from symex import core as C
    from symex import loader
    from symsc.units import parse_unit
    from .symutil import fresh_run, si_value

    loader.install_shim()
    tof = loader.load('conversion.tof')
    fresh_run()
    kinds, oracle, outunit, data_arg = kin.KERNELS[kname]
    n = len(kinds)
    f = getattr(tof, kname)
    kw1 = _mk_args(kname, [first] * n, 'rad', [0] * n)
    kw2 = _mk_args(kname, [second] * n, 'rad', [0] * n)  # same atoms (same names/units), other dtype
    paths = C.explore(lambda: (f(**kw1), f(**kw2)))
    obs, cands = [], []
    tag = f'history[{kname}: {first} then {second}]'
    case = {'kind': 'history', 'kernel': kname, 'first': first, 'second': second}
    p = paths[0]
    if len(paths) != 1 or p.exc is not None or p.inconclusive:
        obs.append({'name': f'{tag}:runs', 'status': 'inconclusive' if p.inconclusive else 'violated', 'detail': str(p.inconclusive or repr(p.exc))[:200], 't': 0})
        if p.exc is not None:
            cands.append((f'C01:history:{kname}', case, repr(p.exc)[:100]))
        return {'obligations': obs, 'candidates': cands, 'paths': len(paths)}
    r1, r2 = p.value
    o = _ops()
    with C.oracle():
        expect = oracle(o, **{a: si_value(v) for a, v in kw2.items()})
    ob = C.prove_zero(f'{tag}:second call = documented formula', si_value(r2) - expect)
    obs.append(ob_dict(ob))
    bad = ob.status == 'violated'
    exp_dt = 'float32' if second == 'float32' else 'float64'
    ob = C.prove(f'{tag}:second call dtype {exp_dt}', C.B.const(r2.dtype.name == exp_dt))
    obs.append(ob_dict(ob))
    bad = bad or ob.status != 'discharged'
    n64, n32 = r2._rnd
    budget = C.R.lift(n64 * 2 * Fraction(1, 2**53) + n32 * 2 * Fraction(1, 2**24))
    bound = Fraction(1, 10**5) if second == 'float32' else Fraction(1, 10**11)
    eps = C.sym_var('relerr')
    ob = C.prove(f'{tag}:second call keeps its accuracy (rounding operations n64={n64}, n32={n32})', eps < bound, assumptions=[eps >= 0, eps <= budget * (1 + budget)])
    obs.append(ob_dict(ob))
    bad = bad or ob.status != 'discharged'
    if bad:
        cands.append((f'C01:history:{kname}', case, 'a later call depends on an earlier call with another dtype'))
    return {'obligations': obs, 'candidates': cands, 'paths': 1}


def job_canary(job, seed):
    """Vacuity guard: a perturbed implementation term must be refuted (sat)."""
    kname = job
    import numpy as np
    from symex import core as C
    from symex import loader
    from .symutil import fresh_run, si_value

    loader.install_shim()
    tof = loader.load('conversion.tof')
    fresh_run()
    kinds, oracle, outunit, data_arg = kin.KERNELS[kname]
    kwargs = _mk_args(kname, ['float64'] * len(kinds), 'rad', [0] * len(kinds))
    out = C.explore(lambda: getattr(tof, kname)(**kwargs))[0].value
    with C.oracle():
        expect = oracle(_ops(), **{a: si_value(v) for a, v in kwargs.items()})
    ob = C.prove_zero(f'canary:{kname}', si_value(out) * 2 - expect)
    st = 'discharged' if ob.status == 'violated' else 'inconclusive'
    return {'obligations': [{'name': f'canary:{kname} (perturbed term must be refuted)', 'status': st, 't': ob.t,
                             'detail': '' if st == 'discharged' else 'canary not refuted: vacuous encoding?'}], 'candidates': [], 'paths': 1}


def run(chk):
    from symex import loader

    loader.install_shim()
    tof = loader.load('conversion.tof')
    utils = loader.load('_utils')
    gt = loader.load('conversion.graph.tof')
    chk.functions = loader.describe([getattr(tof, k) for k in kin.KERNELS]) + loader.describe_exprs(
        ['tof._wavelength_Q_conversions', 'utils.as_float_type', 'utils.elem_unit', 'utils.elem_dtype', 'utils.float_dtype', 'gt.elastic'], {**globals(), **locals()})
    jobs = []
    for kname, (kinds, *_rest) in kin.KERNELS.items():
        n = len(kinds)
        has_angle = 'angle' in kinds.values()
        dts = [[DT_DATA if i == 0 else DT_OTHER for i in range(n)]]
        combos = list(itertools.product(*dts[0]))
        for combo in combos:
            for au in (['rad', 'deg'] if has_angle else ['rad']):
                jobs.append((kname, combo, au, [0] * n))
        # broadcasting: 1-d data x per-pixel (other dim) operands; 2-d data
        layouts = [['tof'] + ['spectrum'] * (n - 1), [(('spectrum', 'tof'), (2, 2))] + ['spectrum'] * (n - 1), ['tof'] + [0] * (n - 1), [0] + ['spectrum'] * (n - 1)]
        if chk.tier == 'thorough':
            # every operand layout x every dtype combination x both angle units
            for combo in combos:
                for au in (['rad', 'deg'] if has_angle else ['rad']):
                    for lay in layouts:
                        jobs.append((kname, combo, au, lay))
        elif kname in ('wavelength_from_tof', 'dspacing_from_tof', 'Q_from_wavelength'):
            jobs.append((kname, tuple(['float64'] * n), 'rad', layouts[0]))
            jobs.append((kname, tuple(['float32'] + ['float64'] * (n - 1)), 'rad', layouts[1]))
            jobs.append((kname, tuple(['float64'] * n), 'rad', layouts[2]))
    run_jobs(chk, job_kernel, jobs)
    from . import shimval
    shimval.validate(chk, 'kinematics', 40 if chk.tier == 'quick' else 1000)
    rjobs = [('float64', 'float64'), ('float32', 'float64')]
    if chk.tier == 'thorough':
        rjobs += [('float32', 'float32'), ('int64', 'float64'), ('float64', 'float32')]
    run_jobs(chk, job_routes, rjobs)
    run_jobs(chk, job_canary, list(kin.KERNELS))
    # single-precision magnitude of every intermediate over the unit grid (the job lives with the unit checks of C07; here with C01's
    # wider value ranges and with every float32 product / quotient / power, not only the casts)
    from . import c07_units
    fj = [(si, ('float32',) * len(spec[2]), 'wide', 'C01') for si, spec in enumerate(c07_units.SPECS) if spec[1] in kin.KERNELS]
    run_jobs(chk, c07_units.job_f32range, fj)
    hist = [(k, a, b) for k in kin.KERNELS for a, b in (('float32', 'float64'), ('float64', 'float32'), ('int64', 'float64'))]
    run_jobs(chk, job_history, hist)
    chk.bounds = {'array_len': 2, 'shapes': 'scalar, 1-d x 1-d (outer), 2-d x 1-d, 1-d x scalar, scalar x 1-d' + (' for every dtype combination and angle unit' if chk.tier == 'thorough' else ' (selected kernels)'), 'dtypes': 'data {f64,f32,i64} x other {f64,f32}',
                  'values': 'positive reals (any), unit scale factors symbolic positive reals, theta in (0, pi/2] via sin(theta)>0'}
    chk.stubs = ['scipp -> symsc (Variable arithmetic, units, dtype promotion, to_unit, astype, sin, sqrt)']
    chk.axioms = ['sin uninterpreted with sin(theta) > 0 on the quantified range', 'h, m_n arbitrary positive reals',
                  'floating point: exact reals + first-order (1+delta) budget per recorded rounding operation']
    chk.assumptions = ['values do not overflow/underflow in the stated ranges', 'scipp kernels are element-wise (array bound 2 generalises)',
                       'ulp-exact accuracy of compiled kernels is outside the claim']


# ----------------------------------------------------------------------------- replay (real scipp)
def replay_real(case):
    import mpmath as mp
    import numpy as np
    import scipp as sc
    from scippneutron.conversion import tof as rt

    mp.mp.dps = 50
    h = mp.mpf(float(sc.constants.h.value))
    mn = mp.mpf(float(sc.constants.m_n.value))
    o = kin.Ops(mp.sqrt, mp.sin, mp.pi, h, mn)
    rng = np.random.default_rng(case.get('seed', 0))

    def si_scale(unit):
        return mp.mpf(float(sc.scalar(1.0, unit=unit).to(unit=_si_of(unit)).value))

    def _si_of(unit):
        u = sc.Unit(unit)
        for k, (si, _d, alts) in kin.KINDS.items():
            try:
                sc.scalar(1.0, unit=u).to(unit=si)
                return si
            except Exception:  # noqa: BLE001
                continue
        return unit

    wide = case.get('kind') == 'f32range'

    def mk(kind, dtype, unit, n=None):
        lo, hi = {'time': (1e-6, 1e-1), 'length': (1.0, 150.0), 'energy': (1.6e-23, 1.6e-20), 'wavelength': (1e-11, 2e-9),
                  'invlength': (1e8, 1e11), 'angle': (0.01, 3.1)}[kind]
        if wide and kind != 'angle':
            # the sub-ranges of the quantifier used by the float32-range obligations, with their corners
            lo, hi = {'time': (1e-9, 1e-1), 'length': (1e-2, 1e3), 'energy': (1.7e-26, 1.6e-15), 'wavelength': (1e-12, 1e-8), 'invlength': (1e7, 1e12)}[kind]
        x_si = np.exp(rng.uniform(np.log(lo), np.log(hi), size=n or 1))
        if wide and kind != 'angle' and (n or 1) >= 8:
            small_first = kind in ('time', 'wavelength')
            x_si[:4] = [lo, hi, lo * 3, hi / 3] if small_first else [hi, lo, hi / 3, lo * 3]
        if kind == 'angle' and (n or 1) >= 8 and not dtype.startswith('int'):
            # the ends of the domain (0, pi]: tiny scattering angles and back-scattering
            x_si[:6] = [1e-9, 2e-8, 1e-6, 1e-4, 3.14159, 3.141592653]
        scale = float(si_scale(unit))
        vals = x_si / scale
        if dtype.startswith('int'):
            vals = np.maximum(1, np.round(vals)).astype(dtype)
        else:
            vals = vals.astype(dtype)
        return vals

    def relerr(kname, kwargs, out, exp_unit):
        worst = 0
        kinds, oracle, _ou, _d = kin.KERNELS[kname]
        outv = np.atleast_1d(out.values)
        for i in range(len(outv)):
            args = {}
            for a, v in kwargs.items():
                vv = np.atleast_1d(v.values)
                x = mp.mpf(repr(float(vv[i if len(vv) > 1 else 0]))) if vv.dtype.kind == 'f' else mp.mpf(int(vv[i if len(vv) > 1 else 0]))
                if vv.dtype == np.float32:
                    x = mp.mpf(float(vv[i if len(vv) > 1 else 0]))
                args[a] = x * si_scale(str(v.unit))
            expect = oracle(o, **args)
            if not np.isfinite(float(outv[i])):
                return mp.inf  # NaN / inf for a valid input
            got = mp.mpf(float(outv[i])) * si_scale(str(out.unit))
            worst = max(worst, abs(got - expect) / abs(expect))
        return worst

    def one_kernel(kname, dtypes, shapes=None):
        bad = _one_kernel(kname, dtypes, None)
        if shapes is not None and any(str(s_) == '0' for s_ in shapes):
            # the operand layout of the symbolic case: 0-d operands where the case had them (each of 16 draws on its own)
            bad += _one_kernel(kname, dtypes, [str(s_) == '0' for s_ in shapes])
        return bad

    def _one_kernel(kname, dtypes, scalar_mask):
        kinds, oracle, outunit, data_arg = kin.KERNELS[kname]
        f = getattr(rt, kname)
        import itertools as it

        unit_choices = [kin.KINDS[k][2] for k in kinds.values()]
        bad = []
        for units in it.product(*unit_choices):
            kwargs = {}
            for (a, k), dt, u in zip(kinds.items(), dtypes, units, strict=True):
                kwargs[a] = sc.array(dims=['x'], values=mk(k, dt, u, 16), unit=u)
            try:
                if scalar_mask is None:
                    out = f(**kwargs)
                else:
                    full = kwargs
                    outs = []
                    for i in range(16):
                        kw_i = {a: (v['x', i].copy() if m else v['x', i:i + 1].copy()) for (a, v), m in zip(full.items(), scalar_mask, strict=True)}
                        o_i = f(**kw_i)
                        outs.append(o_i if o_i.ndim else sc.concat([o_i], 'x'))
                    out = sc.concat(outs, 'x')
            except Exception as e:  # noqa: BLE001
                bad.append(f'{units}: raises {type(e).__name__}')
                continue
            exp_unit = (sc.Unit('dimensionless') / kwargs[outunit[1]].unit) if isinstance(outunit, tuple) else sc.Unit(outunit)
            if out.unit != exp_unit:
                bad.append(f'{units}: unit {out.unit} != {exp_unit}')
                continue
            exp_dt = 'float32' if dtypes[list(kinds).index(data_arg)] == 'float32' else 'float64'
            if str(out.dtype) != exp_dt:
                bad.append(f'{units}: dtype {out.dtype} != {exp_dt}')
                continue
            bound = 1e-5 if 'float32' in dtypes else 1e-11
            # inputs in float32 / ints are exact as given; error measured against the stored inputs
            e = relerr(kname, kwargs, out, exp_unit)
            if e > bound:
                bad.append(f'{units}: relative error {mp.nstr(e, 5)} > {bound}')
        return bad

    kind = case['kind']
    if kind == 'history':
        kname = case['kernel']
        n = len(kin.KERNELS[kname][0])
        # fresh process: the first call really is the first
        b1 = one_kernel(kname, [case['first']] * n)
        b2 = one_kernel(kname, [case['second']] * n)
        return {'reproduced': bool(b2), 'detail': '; '.join(f'after a {case["first"]} call: {b}' for b in b2[:3])}
    if kind == 'f32range':
        bad = one_kernel(case['fname'], case['dtypes'])
        return {'reproduced': bool(bad), 'detail': '; '.join(bad[:3])}
    if kind == 'kernel':
        bad = one_kernel(case['kernel'], case['dtypes'], case.get('shapes'))
        return {'reproduced': bool(bad), 'detail': '; '.join(bad[:3])}
    if kind in ('route', 'roundtrip'):
        bad = []
        for kname in kin.KERNELS:
            n = len(kin.KERNELS[kname][0])
            for dts in ([case['dtypes'][0]] + [case['dtypes'][1]] * (n - 1), ['float64'] * n):
                bad += [f'{kname}: {b}' for b in one_kernel(kname, dts)]
        return {'reproduced': bool(bad), 'detail': '; '.join(bad[:3])}
    return {'reproduced': False, 'detail': 'unknown case kind'}
