"""C02 - convert() succeeds iff the target is derivable, with the documented derivation."""
from __future__ import annotations

import inspect
import itertools

from .common import ob_dict, run_jobs

COORDS = ['position', 'source_position', 'sample_position', 'incident_beam', 'scattered_beam', 'L1', 'L2', 'Ltotal', 'two_theta',
          'incident_energy', 'final_energy']
ORIGINS = ['tof', 'wavelength', 'energy', 'Q']
# further inputs some targets need (hkl, time_at_sample): symbolic presence as well, beyond the 11 of the quantifier
EXTRA_COORDS = ['ub_matrix', 'u_matrix', 'b_matrix', 'sample_rotation', 'pulse_time']

# ---------------------------------------------------------------------------------------------
# Oracle: dependency tables transcribed from the user guide ("Coordinate transformations"), per mode.
# name -> (kernel, args).  Written independently of the graph modules.
BEAMLINE_SCATTER = {
    'incident_beam': ('beamline.straight_incident_beam', ['source_position', 'sample_position']),
    'scattered_beam': ('beamline.straight_scattered_beam', ['position', 'sample_position']),
    'L1': ('beamline.L1', ['incident_beam']),
    'L2': ('beamline.L2', ['scattered_beam']),
    'two_theta': ('beamline.two_theta', ['incident_beam', 'scattered_beam']),
    'Ltotal': ('beamline.total_beam_length', ['L1', 'L2']),
}
BEAMLINE_NO_SCATTER = {
    'Ltotal': ('beamline.total_straight_beam_length_no_scatter', ['source_position', 'position']),
}
_QVEC = {
    'Qx': ('tof.Q_elements_from_wavelength', ['wavelength', 'incident_beam', 'scattered_beam']),
    'Qy': ('tof.Q_elements_from_wavelength', ['wavelength', 'incident_beam', 'scattered_beam']),
    'Qz': ('tof.Q_elements_from_wavelength', ['wavelength', 'incident_beam', 'scattered_beam']),
    'Q_vec': ('tof.Q_vec_from_Q_elements', ['Qx', 'Qy', 'Qz']),
    'ub_matrix': ('tof.ub_matrix_from_u_and_b', ['u_matrix', 'b_matrix']),
    'hkl_vec': ('tof.hkl_vec_from_Q_vec', ['Q_vec', 'ub_matrix', 'sample_rotation']),
    'h': ('tof.hkl_elements_from_hkl_vec', ['hkl_vec']),
    'k': ('tof.hkl_elements_from_hkl_vec', ['hkl_vec']),
    'l': ('tof.hkl_elements_from_hkl_vec', ['hkl_vec']),
}
ELASTIC = {
    'tof': {
        'wavelength': ('tof.wavelength_from_tof', ['tof', 'Ltotal']),
        'energy': ('tof.energy_from_tof', ['tof', 'Ltotal']),
        'dspacing': ('tof.dspacing_from_tof', ['tof', 'Ltotal', 'two_theta']),
        'Q': ('tof.Q_from_wavelength', ['wavelength', 'two_theta']),
        'time_at_sample': ('tof.time_at_sample_from_tof', ['pulse_time', 'tof', 'L2', 'wavelength']),
        **_QVEC,
    },
    'wavelength': {
        'energy': ('tof.energy_from_wavelength', ['wavelength']),
        'dspacing': ('tof.dspacing_from_wavelength', ['wavelength', 'two_theta']),
        'Q': ('tof.Q_from_wavelength', ['wavelength', 'two_theta']),
        **_QVEC,
    },
    'energy': {
        'wavelength': ('tof.wavelength_from_energy', ['energy']),
        'dspacing': ('tof.dspacing_from_energy', ['energy', 'two_theta']),
    },
    'Q': {
        'wavelength': ('tof.wavelength_from_Q', ['Q', 'two_theta']),
    },
}
NO_SCATTER_DYNAMICS = {
    'wavelength': ('tof.wavelength_from_tof', ['tof', 'Ltotal']),
    'energy': ('tof.energy_from_tof', ['tof', 'Ltotal']),
}
INELASTIC = {
    'direct': {'energy_transfer': ('tof.energy_transfer_direct_from_tof', ['tof', 'L1', 'L2', 'incident_energy'])},
    'indirect': {'energy_transfer': ('tof.energy_transfer_indirect_from_tof', ['tof', 'L1', 'L2', 'final_energy'])},
}
GEOMETRY_TARGETS = set(BEAMLINE_SCATTER)
ALL_TARGETS = sorted(set(BEAMLINE_SCATTER) | set(ELASTIC['tof']) | {'energy_transfer', 'tof', 'wavelength', 'energy', 'Q', 'dspacing'})


def oracle_mode(origin, target, has_ei, has_ef):
    """-> ('elastic'|'direct'|'indirect', None) or (None, 'ambiguous'|'no-energy')   (has_* are Python bools)"""
    if target == 'energy_transfer':
        if has_ei and has_ef:
            return None, 'ambiguous'
        if not has_ei and not has_ef:
            return None, 'no-energy'
        return ('direct' if has_ei else 'indirect'), None
    if 'energy' in (origin, target) and (has_ei or has_ef):
        return None, 'ambiguous'
    return 'elastic', None


def oracle_rules(origin, target, scatter, mode):
    if not scatter:
        return {**BEAMLINE_NO_SCATTER, **NO_SCATTER_DYNAMICS}
    if mode == 'elastic':
        if target in GEOMETRY_TARGETS:
            return dict(BEAMLINE_SCATTER)
        return {**BEAMLINE_SCATTER, **ELASTIC[origin]}
    return {**BEAMLINE_SCATTER, **INELASTIC[mode]}


def oracle_tree(rules, name, present, depth=0):
    """Concrete derivation: present => input (takes precedence), else rule, else None."""
    if present(name):
        return (name, 'input')
    if name not in rules or depth > 12:
        return None
    fn, args = rules[name]
    subs = []
    for a in args:
        t = oracle_tree(rules, a, present, depth + 1)
        if t is None:
            return None
        subs.append(t)
    return (name, fn, tuple(subs))


# ---------------------------------------------------------------------------------------------
class SymCoords:
    """`name in coords` is a symbolic Boolean (forks); item access gives an opaque token."""

    def __init__(self, present):
        self.present = present

    def __contains__(self, name):
        from symex import core as C

        b = self.present.get(name)
        if b is None:
            return False
        return bool(b)

    def __getitem__(self, name):
        if name in self:
            return ('coord', name)
        raise KeyError(name)

    def keys(self):
        raise NotImplementedError('enumeration of symbolic coords')


class SymData:
    """DataArray/Dataset stand-in with the documented transform_coords contract:
    a present name is an input and is not recomputed; otherwise its rule is applied to recursively resolved
    arguments; an unresolvable name raises KeyError(name)."""

    def __init__(self, present):
        self.coords = SymCoords(present)
        self.calls = []

    def transform_coords(self, targets, graph=None, **kw):
        self.calls.append(graph)
        if not isinstance(targets, str):
            raise NotImplementedError
        memo = {}

        def resolve(name, depth=0):
            if name in memo:
                return memo[name]
            if name in self.coords:
                memo[name] = (name, 'input')
                return memo[name]
            for key, fn in graph.items():
                keys = key if isinstance(key, tuple) else (key,)
                if name in keys:
                    if isinstance(fn, str):
                        t = resolve(fn, depth + 1)
                        memo[name] = t
                        return t
                    params = list(inspect.signature(fn).parameters)
                    subs = tuple(resolve(p, depth + 1) for p in params)
                    mod = fn.__module__.rsplit('.', 1)[-1]
                    memo[name] = (name, f'{mod}.{fn.__name__}', subs)
                    return memo[name]
            raise KeyError(name)

        return ('converted', resolve(targets))


def _match(tree, rules, P):
    """Propositional formula: `tree` is the oracle's derivation (present takes precedence, right kernel)."""
    from symex import core as C

    name = tree[0]
    pres = P.get(name, C.FALSE)
    if tree[1] == 'input':
        return C.B.lift(pres)
    fn, subs = tree[1], tree[2]
    if name not in rules:
        return C.FALSE
    ofn, oargs = rules[name]
    if fn != ofn or [s[0] for s in subs] != list(oargs):
        return C.FALSE
    r = ~C.B.lift(pres)
    for s in subs:
        r = r & _match(s, rules, P)
    return r


def _derivable(rules, name, P, depth=0):
    from symex import core as C

    pres = C.B.lift(P.get(name, C.FALSE))
    if name not in rules or depth > 12:
        return pres
    fn, args = rules[name]
    r = C.TRUE
    for a in args:
        r = r & _derivable(rules, a, P, depth + 1)
    return pres | r


def job(j, seed):
    origin, target, scatter = j
    import z3
    from symex import core as C
    from symex import loader
    from .symutil import fresh_run

    loader.install_shim()
    conv = loader.load('core.conversions')
    fresh_run()
    obs, cands = [], []
    tag = f'{origin}->{target},scatter={scatter}'
    P = {c: C.B('z3', z3.Bool(f'has_{c}')) for c in [*COORDS, *EXTRA_COORDS, origin]}
    ei, ef = P['incident_energy'], P['final_energy']

    def run():
        data = SymData(P)
        try:
            out = conv.convert(data, origin=origin, target=target, scatter=scatter)
            res = ('value', out[1], data.calls[-1])
        except RuntimeError as e:
            res = ('RuntimeError', str(e), None)
        g2 = None
        try:
            g2 = conv.deduce_conversion_graph(data, origin=origin, target=target, scatter=scatter)
        except RuntimeError:
            g2 = 'RuntimeError'
        return res, g2

    paths = C.explore(run, max_paths=4096)

    def chk(name, goal, pc, sig, model_of=None):
        ob = C.prove(f'{tag}:{name}', goal, pc=pc)
        obs.append(ob_dict(ob))
        if ob.status == 'violated':
            m = C.solve([*pc, ~C.B.lift(goal)])
            subset = []
            if m.status == 'sat':
                zm = m.solver.model()
                subset = [c for c in P if z3.is_true(zm.eval(P[c].a, model_completion=True))]
            cands.append((sig, {'origin': origin, 'target': target, 'scatter': scatter, 'present': subset}, name))
        return ob

    # mode as formulas
    if target == 'energy_transfer':
        amb = (ei & ef) | (~ei & ~ef)
        modes = [('direct', ei & ~ef), ('indirect', ef & ~ei)]
    elif 'energy' in (origin, target):
        amb = ei | ef
        modes = [('elastic', ~ei & ~ef)]
    else:
        amb = C.FALSE
        modes = [('elastic', C.TRUE)]
    for k, p in enumerate(paths):
        if p.inconclusive:
            obs.append({'name': f'{tag}:path{k}', 'status': 'inconclusive', 'detail': p.inconclusive, 't': 0})
            continue
        if p.exc is not None:
            obs.append({'name': f'{tag}:path{k}:only RuntimeError may escape', 'status': 'violated', 'detail': repr(p.exc)[:200], 't': 0})
            m = C.solve(p.pc)
            subset = []
            if m.status == 'sat':
                zm = m.solver.model()
                subset = [c for c in P if z3.is_true(zm.eval(P[c].a, model_completion=True))]
            cands.append(('C02:escape', {'origin': origin, 'target': target, 'scatter': scatter, 'present': subset}, repr(p.exc)[:100]))
            continue
        (kind, payload, used_graph), g2 = p.value
        # oracle: derivable under some unambiguous mode
        ok_formula = C.FALSE
        for mode, cond in modes:
            rules = oracle_rules(origin, target, scatter, mode)
            ok_formula = ok_formula | (cond & _derivable(rules, target, P))
        if kind == 'value':
            chk(f'path{k}:value => derivable & unambiguous', ok_formula, p.pc, 'C02:outcome')
            # (ii) derivation tree = oracle's
            mt = C.FALSE
            for mode, cond in modes:
                rules = oracle_rules(origin, target, scatter, mode)
                mt = mt | (cond & _match(payload, rules, P))
            chk(f'path{k}:derivation = documented one (supplied coordinate takes precedence, right mode)', mt, p.pc, 'C02:derivation')
            # (iii) reported graph is the graph used
            same = isinstance(g2, dict) and isinstance(used_graph, dict) and g2.keys() == used_graph.keys() and all(g2[x] is used_graph[x] for x in g2)
            chk(f'path{k}:deduce_conversion_graph = graph used', C.B.const(bool(same)), p.pc, 'C02:graph')
            fresh = g2 is not used_graph
            chk(f'path{k}:graph objects are fresh dicts', C.B.const(bool(fresh)), p.pc, 'C02:graph')
        else:
            chk(f'path{k}:RuntimeError => not derivable or ambiguous', ~ok_formula, p.pc, 'C02:outcome')
    return {'obligations': obs, 'candidates': cands, 'paths': len(paths)}


def run(chk):
    from symex import loader

    loader.install_shim()
    conv = loader.load('core.conversions')
    gt = loader.load('conversion.graph.tof')
    gb = loader.load('conversion.graph.beamline')
    chk.functions = loader.describe_exprs(['conv.convert', 'conv.deduce_conversion_graph', 'conv.conversion_graph', 'conv._deduce_energy_mode', 'conv._scatter_graph', 'conv._elastic_scatter_graph', 'conv._inelastic_scatter_graph', 'conv._reachable_by', 'gt.elastic', 'gt.kinematic', 'gt.direct_inelastic', 'gt.indirect_inelastic', 'gb.beamline'], {**globals(), **locals()})
    jobs = [(o, t, s) for o in ORIGINS for t in ALL_TARGETS for s in (True, False) if t != o]
    run_jobs(chk, job, jobs)
    # model validation against the real convert (real-scipp subprocess): outcome class vs the same oracle
    import json, os, subprocess
    from .common import PY, VERIF

    n = 600 if chk.tier == 'thorough' else 150
    path = os.path.join(VERIF, 'replay', 'C02-validate.json')
    os.makedirs(os.path.dirname(path), exist_ok=True)
    with open(path, 'w') as f:
        json.dump({'kind': 'validate', 'n': n, 'seed': chk.seed}, f)
    r = subprocess.run([PY, os.path.join(VERIF, 'bin', 'check.py'), 'C02', '--replay', path], capture_output=True, text=True, timeout=900)
    if r.returncode == 0:
        chk.traces_validated += n
    else:
        chk.harness_error('transform_coords model / oracle disagree with the real convert on a sampled configuration: ' + (r.stdout + r.stderr)[-300:])
    chk.bounds = {'subsets': 'all 2^11 subsets (+ presence of the origin coordinate) symbolically: one propositional path condition per explored path',
                  'origins x targets x scatter': f'{len(jobs)} concrete cases'}
    chk.stubs = ['data.transform_coords -> documented contract model (present => input, else rule, else KeyError(name))',
                 'data.coords.__contains__ -> symbolic Boolean']
    chk.axioms = []
    chk.assumptions = ['kernel semantics are C01/C03/C05/C08', 'DataArray vs Dataset differ only inside scipp', 'beyond the 11 coordinates of the quantifier, presence of ub_matrix, u_matrix, b_matrix, sample_rotation, pulse_time is symbolic too']


# ---------------------------------------------------------------------------------------------
def _real_case(origin, target, scatter, present, rng=None):
    import numpy as np
    import scipp as sc
    import scippneutron as scn

    coords = {}
    vals = {
        'position': sc.vectors(dims=['spectrum'], values=[[1.0, 0.0, 1.0], [0.0, 1.0, 1.0]], unit='m'),
        'source_position': sc.vector([0.0, 0.0, -10.0], unit='m'),
        'sample_position': sc.vector([0.0, 0.0, 0.0], unit='m'),
        'incident_beam': sc.vector([0.0, 0.0, 10.0], unit='m'),
        'scattered_beam': sc.vectors(dims=['spectrum'], values=[[1.0, 0.0, 1.0], [0.0, 1.0, 1.0]], unit='m'),
        'L1': sc.scalar(10.0, unit='m'), 'L2': sc.array(dims=['spectrum'], values=[1.5, 1.6], unit='m'),
        'Ltotal': sc.array(dims=['spectrum'], values=[11.5, 11.6], unit='m'),
        'two_theta': sc.array(dims=['spectrum'], values=[0.7, 0.8], unit='rad'),
        'incident_energy': sc.scalar(5.0, unit='meV'), 'final_energy': sc.scalar(3.0, unit='meV'),
        'tof': sc.array(dims=['tof'], values=[4000.0, 5000.0, 6000.0], unit='us'),
        'wavelength': sc.array(dims=['wavelength'], values=[1.0, 2.0, 3.0], unit='angstrom'),
        'energy': sc.array(dims=['energy'], values=[1.0, 2.0, 3.0], unit='meV'),
        'Q': sc.array(dims=['Q'], values=[1.0, 2.0, 3.0], unit='1/angstrom'),
        'ub_matrix': sc.spatial.linear_transform(value=[[1.0, 0.2, 0.0], [0.0, 1.1, 0.3], [0.1, 0.0, 0.9]], unit='1/angstrom'),
        'u_matrix': sc.spatial.rotations_from_rotvecs(sc.vector([0.1, 0.2, 0.3], unit='rad')),
        'b_matrix': sc.spatial.linear_transform(value=[[1.0, 0.2, 0.0], [0.0, 1.1, 0.3], [0.1, 0.0, 0.9]], unit='1/angstrom'),
        'sample_rotation': sc.spatial.rotations_from_rotvecs(sc.vector([0.3, -0.2, 0.1], unit='rad')),
        'pulse_time': sc.scalar(0.0, unit='us'),
    }
    for c in present:
        coords[c] = vals[c]
    dim = origin
    n = 3
    data = sc.DataArray(sc.ones(dims=['spectrum', dim], shape=[2, n], unit='counts'), coords=coords)
    try:
        out = scn.convert(data, origin=origin, target=target, scatter=scatter)
        return 'value', out
    except RuntimeError as e:
        return 'RuntimeError', str(e)
    except Exception as e:  # noqa: BLE001
        return type(e).__name__, str(e)


def _oracle_outcome(origin, target, scatter, present):
    has = lambda n: n in present  # noqa: E731
    mode, err = oracle_mode(origin, target, has('incident_energy'), has('final_energy'))
    if err:
        return 'RuntimeError', None
    rules = oracle_rules(origin, target, scatter, mode)
    t = oracle_tree(rules, target, has)
    return ('value', t) if t is not None else ('RuntimeError', None)


def replay_real(case):
    import numpy as np

    if case.get('kind') == 'validate':
        rng = np.random.default_rng(case.get('seed', 0))
        bad = []
        for _ in range(case['n']):
            origin = ORIGINS[rng.integers(len(ORIGINS))]
            target = ALL_TARGETS[rng.integers(len(ALL_TARGETS))]
            if target == origin:
                continue
            scatter = bool(rng.integers(2))
            present = [c for c in COORDS if rng.random() < 0.55] + [c for c in EXTRA_COORDS if rng.random() < 0.5] + ([origin] if rng.random() < 0.9 else [])
            got = _real_case(origin, target, scatter, present)
            exp = _oracle_outcome(origin, target, scatter, present)
            if got[0] != exp[0]:
                bad.append(f'{origin}->{target} scatter={scatter} present={present}: real={got[0]} oracle={exp[0]}')
        return {'reproduced': bool(bad), 'detail': '; '.join(bad[:3])}
    origin, target, scatter, present = case['origin'], case['target'], case['scatter'], case['present']
    got = _real_case(origin, target, scatter, present)
    exp = _oracle_outcome(origin, target, scatter, present)
    if got[0] != exp[0]:
        return {'reproduced': True, 'detail': f'{origin}->{target} scatter={scatter} present={present}: real={got[0]} ({str(got[1])[:80]}) oracle={exp[0]}'}
    if got[0] == 'value':
        # value check against the documented formulas via the oracle tree, evaluated with the real kernels named in the oracle
        import scipp as sc
        from scippneutron.conversion import beamline as B, tof as T

        ns = {'beamline': B, 'tof': T}
        out = got[1]
        data_coords = {}

        def ev(tree):
            if tree[1] == 'input':
                return out.coords[tree[0]] if tree[0] in out.coords else None
            mod, fn = tree[1].split('.')
            args = {s[0]: ev(s) for s in tree[2]}
            r = getattr(ns[mod], fn)(**args)
            return r[tree[0]] if isinstance(r, dict) else r

        try:
            import scippneutron as scn
            # inputs as supplied
            _, o2 = _real_case(origin, target, scatter, present)
            supplied = o2
            def ev2(tree):
                if tree[1] == 'input':
                    return _supplied_value(origin, present, tree[0])
                mod, fn = tree[1].split('.')
                args = {s[0]: ev2(s) for s in tree[2]}
                r = getattr(ns[mod], fn)(**args)
                return r[tree[0]] if isinstance(r, dict) else r
            expect = ev2(exp[1])
            have = out.coords[target] if target in out.coords else out.bins.coords[target]
            if not sc.allclose(have, expect.to(unit=have.unit, copy=False) if have.unit != expect.unit else expect, rtol=sc.scalar(1e-9), equal_nan=True):
                return {'reproduced': True, 'detail': f'{origin}->{target} present={present}: value differs from the documented derivation'}
        except Exception as e:  # noqa: BLE001
            return {'reproduced': False, 'detail': f'value comparison skipped: {type(e).__name__}: {e}'}
    return {'reproduced': False, 'detail': ''}


def _supplied_value(origin, present, name):
    import scipp as sc

    vals = {
        'position': sc.vectors(dims=['spectrum'], values=[[1.0, 0.0, 1.0], [0.0, 1.0, 1.0]], unit='m'),
        'source_position': sc.vector([0.0, 0.0, -10.0], unit='m'),
        'sample_position': sc.vector([0.0, 0.0, 0.0], unit='m'),
        'incident_beam': sc.vector([0.0, 0.0, 10.0], unit='m'),
        'scattered_beam': sc.vectors(dims=['spectrum'], values=[[1.0, 0.0, 1.0], [0.0, 1.0, 1.0]], unit='m'),
        'L1': sc.scalar(10.0, unit='m'), 'L2': sc.array(dims=['spectrum'], values=[1.5, 1.6], unit='m'),
        'Ltotal': sc.array(dims=['spectrum'], values=[11.5, 11.6], unit='m'),
        'two_theta': sc.array(dims=['spectrum'], values=[0.7, 0.8], unit='rad'),
        'incident_energy': sc.scalar(5.0, unit='meV'), 'final_energy': sc.scalar(3.0, unit='meV'),
        'tof': sc.array(dims=['tof'], values=[4000.0, 5000.0, 6000.0], unit='us'),
        'wavelength': sc.array(dims=['wavelength'], values=[1.0, 2.0, 3.0], unit='angstrom'),
        'energy': sc.array(dims=['energy'], values=[1.0, 2.0, 3.0], unit='meV'),
        'Q': sc.array(dims=['Q'], values=[1.0, 2.0, 3.0], unit='1/angstrom'),
    }
    return vals[name]
