"""C03 - straight-beamline geometry equals its Euclidean definition; 2theta (Kahan) facts."""
from __future__ import annotations

from fractions import Fraction

from .common import ob_dict, run_jobs


def _positions(n=None):
    from .symutil import sym_unit, sym_vector, sym_vectors

    uL = sym_unit('L', 'm')
    src = sym_vector('src', uL)
    smp = sym_vector('smp', uL)
    det = sym_vector('det', uL) if n is None else sym_vectors('det', 'spectrum', n, uL)
    return uL, src, smp, det


def job_euclid(job, seed):
    """(i) beams, L1, L2, Ltotal through the real graph tables == Euclidean definitions."""
    scatter, n = job
    import numpy as np
    from symex import core as C
    from symex import loader
    from symsc import variable as V
    from .c01_kinematics import _resolve
    from .symutil import fresh_run, vec, vsub, vnorm2

    loader.install_shim()
    bl = loader.load('conversion.beamline')
    gb = loader.load('conversion.graph.beamline')
    fresh_run()
    uL, src, smp, det = _positions(n)
    obs, cands = [], []
    graph = gb.beamline(scatter=scatter)
    inputs = {'source_position': src, 'sample_position': smp, 'position': det}
    V.WRITE_LOG.clear()
    targets = ['incident_beam', 'scattered_beam', 'L1', 'L2', 'Ltotal', 'two_theta'] if scatter else ['Ltotal']
    tag = f'euclid[scatter={scatter},n={n}]'
    case = {'kind': 'euclid', 'scatter': scatter}

    def run():
        cache = {}
        return {t: _resolve(graph, t, inputs, cache) for t in targets}

    # quantifier: positions pairwise distinct (norms 1e-6..1e6)
    idxs = list(np.ndindex(det.shape))
    for idx in idxs:
        d = vec(det, idx)
        for a, b in ((vec(smp), vec(src)), (d, vec(smp)), (d, vec(src))):
            nn = C.rsqrt(vnorm2(vsub(a, b)), nonneg=True)
            C.CTX.assume(nn > 0)
            C.CTX.assume_nonzero(nn)
    paths = C.explore(run)
    if len(paths) != 1 or paths[0].exc is not None or paths[0].inconclusive:
        p = paths[0]
        st = 'inconclusive' if p.inconclusive else 'violated'
        obs.append({'name': f'{tag}:runs', 'status': st, 'detail': str(p.inconclusive or repr(p.exc)), 't': 0})
        if st == 'violated':
            cands.append(('C03:euclid:raises', case, repr(p.exc)))
        return {'obligations': obs, 'candidates': cands, 'paths': len(paths)}
    out = paths[0].value

    def chk(name, goal, sig):
        ob = C.prove(f'{tag}:{name}', goal)
        obs.append(ob_dict(ob))
        if ob.status == 'violated':
            cands.append((sig, case, name))

    def veq(a, b):
        return C.all_of([x == y for x, y in zip(a, b, strict=True)])

    for idx in idxs:
        d = vec(det, idx)
        if scatter:
            chk(f'incident_beam{list(idx)}', veq(vec(out['incident_beam']), vsub(vec(smp), vec(src))), 'C03:euclid:incident_beam')
            chk(f'scattered_beam{list(idx)}', veq(vec(out['scattered_beam'], idx), vsub(d, vec(smp))), 'C03:euclid:scattered_beam')
            l1 = out['L1'].value
            l2 = out['L2'].values[idx]
            lt = out['Ltotal'].values[idx]
            chk('L1', (l1 * l1 == vnorm2(vsub(vec(smp), vec(src)))) & (l1 >= 0), 'C03:euclid:L1')
            chk(f'L2{list(idx)}', (l2 * l2 == vnorm2(vsub(d, vec(smp)))) & (l2 >= 0), 'C03:euclid:L2')
            chk(f'Ltotal{list(idx)}', lt == C.rsqrt(vnorm2(vsub(vec(smp), vec(src))), nonneg=True) + C.rsqrt(vnorm2(vsub(d, vec(smp))), nonneg=True), 'C03:euclid:Ltotal')
        else:
            lt = out['Ltotal'].values[idx]
            chk(f'Ltotal_no_scatter{list(idx)}', (lt * lt == vnorm2(vsub(d, vec(src)))) & (lt >= 0), 'C03:euclid:Ltotal')
    for t in targets:
        if t != 'two_theta' and out[t].unit is not None:
            chk(f'unit[{t}]', C.B.const(out[t].unit == uL), 'C03:euclid:unit')
    # no write to the arguments
    argbufs = {src._buf.id, smp._buf.id, det._buf.id}
    written = {b.id for b in V.WRITE_LOG}
    chk('no-argument-written', C.B.const(not (argbufs & written)), 'C03:mutation')
    return {'obligations': obs, 'candidates': cands, 'paths': 1}


def _tt_args(res):
    """result = 2*atan2(y, x): returns (y, x) as R or None if the structure is different."""
    from symex import core as C
    from symex import terms as T

    half = (res / 2).t
    a = T.fn_atom_of(half)
    if a is None or a.fn != 'atan2':
        return None
    return C.R(a.arg[0]), C.R(a.arg[1])


def job_two_theta(job, seed):
    what = job
    from symex import core as C
    from symex import loader
    from symex import terms as T
    from symsc import variable as V
    from .symutil import fresh_run, sym_unit, sym_vector, vec, vdot, vnorm2, vscale, PI

    loader.install_shim()
    bl = loader.load('conversion.beamline')
    fresh_run()
    uL = sym_unit('L', 'm')
    u2 = sym_unit('L2', 'm') if what == 'units' else uL
    b1 = sym_vector('b1', uL)
    b2 = sym_vector('b2', u2)
    obs, cands = [], []
    case = {'kind': 'two_theta', 'what': what}
    n1 = C.rsqrt(vnorm2(vec(b1)), nonneg=True)
    n2 = C.rsqrt(vnorm2(vec(b2)), nonneg=True)
    for n in (n1, n2):
        C.CTX.assume(n > 0)
        C.CTX.assume_nonzero(n)

    def chk(name, goal, sig, assumptions=()):
        ob = C.prove(f'two_theta:{what}:{name}', goal, assumptions=assumptions)
        obs.append(ob_dict(ob))
        if ob.status == 'violated':
            cands.append((sig, case, name))
        return ob

    def cos_of(term):
        """cos of a result term of the form 2*atan2(y, x) or atan2(y, x); None for another structure."""
        yx_ = _tt_args(term)
        with C.oracle():
            if yx_ is not None:
                y_, x_ = yx_
                return (x_ * x_ - y_ * y_) / (x_ * x_ + y_ * y_), y_ >= 0
            a_ = T.fn_atom_of(term.t)
            if a_ is not None and a_.fn == 'atan2':
                y_, x_ = C.R(a_.arg[0]), C.R(a_.arg[1])
                return x_ / C.rsqrt(x_ * x_ + y_ * y_, nonneg=True), y_ >= 0
        return None

    def gated(x1, x2, paths):
        """The implementation dispatches on its input (several paths): every path must return the angle between the beams."""
        with C.oracle():
            c_ = vdot(vec(x1), vec(x2)) / (n1 * n2)
        for k_, p_ in enumerate(paths):
            if p_.inconclusive or p_.exc is not None:
                obs.append({'name': f'two_theta:{what}:path{k_}:runs', 'status': 'inconclusive' if p_.inconclusive else 'violated', 'detail': str(p_.inconclusive or repr(p_.exc))[:200], 't': 0})
                if p_.exc is not None:
                    cands.append(('C03:two_theta:raises', case, repr(p_.exc)))
                continue
            co = cos_of(p_.value.value)
            if co is None:
                obs.append({'name': f'two_theta:{what}:path{k_}:structure', 'status': 'violated', 't': 0, 'detail': f'result is not an atan2 form: {str(p_.value.value)[:120]}'})
                cands.append(('C03:two_theta:structure', case, 'result is not an atan2 form'))
                continue
            cosr, ynn = co
            ob = C.prove(f'two_theta:{what}:path{k_}:cos(result) = b1.b2/(|b1||b2|), result in [0, pi]', (cosr == c_) & ynn, pc=p_.pc, timeout_ms=30000)
            obs.append(ob_dict(ob))
            if ob.status == 'violated':
                # a counterexample whose deviation is visible in double precision (for the replay)
                dev = Fraction(1, 10**6)
                m = C.solve([*C.CTX.assumptions, *p_.pc, (cosr - c_ > dev) | (c_ - cosr > dev)], timeout_ms=30000)
                mod = m.model if m.status == 'sat' else ob.model
                cands.append(('C03:two_theta:value', {**case, 'model': {k2: float(v2) for k2, v2 in (mod or {}).items()}}, 'a code path returns an angle that is not the angle between the beams'))

    def call(x1, x2):
        V.WRITE_LOG.clear()
        paths = C.explore(lambda: bl.two_theta(incident_beam=x1, scattered_beam=x2))
        if len(paths) > 1:
            gated(x1, x2, paths)
            return None
        if len(paths) != 1 or paths[0].exc is not None or paths[0].inconclusive:
            p = paths[0]
            st = 'inconclusive' if p.inconclusive else 'violated'
            obs.append({'name': f'two_theta:{what}:runs', 'status': st, 'detail': str(p.inconclusive or repr(p.exc)), 't': 0})
            if st == 'violated':
                cands.append(('C03:two_theta:raises', case, repr(p.exc)))
            return None
        written = {b.id for b in V.WRITE_LOG}
        chk('no-argument-written', C.B.const(not ({x1._buf.id, x2._buf.id} & written)), 'C03:mutation')
        return paths[0].value

    r = call(b1, b2)
    if r is None:
        return {'obligations': obs, 'candidates': cands, 'paths': 1}
    chk('unit-rad', C.B.const(str(r.unit) == str(V.parse_unit('rad'))), 'C03:two_theta:unit')
    yx = _tt_args(r.value)
    if yx is None:
        obs.append({'name': f'two_theta:{what}:kahan-structure', 'status': 'violated', 't': 0,
                    'detail': f'result is not 2*atan2(y,x): {str(r.value)[:120]}'})
        cands.append(('C03:two_theta:structure', case, 'result is not 2*atan2(|u-v|,|u+v|)'))
        return {'obligations': obs, 'candidates': cands, 'paths': 1}
    y, x = yx
    with C.oracle():
        c = vdot(vec(b1), vec(b2)) / (n1 * n2)
    if what in ('definition', 'units'):
        chk('y^2=2-2c', y * y == 2 - 2 * c, 'C03:two_theta:value')
        chk('x^2=2+2c', x * x == 2 + 2 * c, 'C03:two_theta:value')
        chk('y>=0,x>=0', (y >= 0) & (x >= 0), 'C03:two_theta:value')
        # cos(2 atan2(y,x)) = (x^2-y^2)/(x^2+y^2)  [double-angle axiom]  == c
        with C.oracle():
            chk('cos(result)=c', (x * x - y * y) / (x * x + y * y) == c, 'C03:two_theta:value')
        chk('x^2+y^2=4', x * x + y * y == 4, 'C03:two_theta:value')
        # the remaining facts use only (y >= 0, x >= 0, x^2 + y^2 = 4): abstract y, x by fresh variables
        # (sound: abstraction only generalises; the three facts were just proved for the real terms)
        Y = C.sym_var('Yabs', sign='0+')
        X = C.sym_var('Xabs', sign='0+')
        ab = [X * X + Y * Y == 4]
        ang = 2 * C.rfn('atan2', Y, X)
        chk('range[0,pi] (atan2 axioms, abstracted args)', (ang >= 0) & (ang <= PI()), 'C03:two_theta:range', assumptions=ab)
        # conditioning of the final atan2 w.r.t. relative perturbations of its arguments:
        # 2*(|d/dy * y| + |d/dx * x|) = 4xy/(x^2+y^2) <= 2 everywhere (an acos(dot) has |c|/sqrt(1-c^2), unbounded)
        chk('conditioning(final atan2)<=2 (abstracted args)', X * Y <= 2, 'C03:two_theta:stability', assumptions=ab)
    if what == 'symmetry':
        r2 = call(b2, b1)
        if r2 is not None:
            chk('two_theta(b1,b2)=two_theta(b2,b1)', r.value == r2.value, 'C03:two_theta:symmetry')
    if what == 'rescale':
        k = C.sym_var('k', sign='+')
        b1k = V.Variable(_arr=V._map1(lambda e: e * k, b1._a), dims=(), unit=uL, dtype=V.DType.vector3)
        r2 = call(b1k, b2)
        b2k = V.Variable(_arr=V._map1(lambda e: e * k, b2._a), dims=(), unit=uL, dtype=V.DType.vector3)
        r3 = call(b1, b2k)
        for nm, rr in (('first', r2), ('second', r3)):
            if rr is None:
                continue
            yx2 = _tt_args(rr.value)
            if yx2 is None:
                continue
            chk(f'rescale-{nm}-beam:y', yx2[0] * yx2[0] == y * y, 'C03:two_theta:rescale')
            chk(f'rescale-{nm}-beam:x', yx2[1] * yx2[1] == x * x, 'C03:two_theta:rescale')
    if what == 'rotation':
        # abstraction lemma: (R u).(R v) = u^T (R^T R) v identically; with R^T R = I the dot products
        # (hence c, hence y^2, x^2 by the 'definition' obligations) are unchanged
        Rm = [[C.sym_var(f'R{i}{j}') for j in range(3)] for i in range(3)]
        u, v = vec(b1), vec(b2)
        Ru = [sum((Rm[i][j] * u[j] for j in range(3)), C.R.lift(0)) for i in range(3)]
        Rv = [sum((Rm[i][j] * v[j] for j in range(3)), C.R.lift(0)) for i in range(3)]
        G = [[sum((Rm[k][i] * Rm[k][j] for k in range(3)), C.R.lift(0)) for j in range(3)] for i in range(3)]
        quad = sum((u[i] * G[i][j] * v[j] for i in range(3) for j in range(3)), C.R.lift(0))
        chk('(Ru).(Rv)=u^T(R^T R)v', vdot(Ru, Rv) == quad, 'C03:two_theta:rotation')
        # run the real code on rotated beams with R^T R = I imposed by parametrisation (rotation about z by angle a)
        ca, sa = C.rfn('cos', C.sym_var('alpha')), C.rfn('sin', C.sym_var('alpha'))
        rot = lambda w: [ca * w[0] - sa * w[1], sa * w[0] + ca * w[1], w[2]]  # noqa: E731
        import numpy as np
        def mk(w):
            a = np.empty((3,), dtype=object)
            for i in range(3):
                a[i] = w[i]
            return V.Variable(_arr=a, dims=(), unit=uL, dtype=V.DType.vector3)
        rb1, rb2 = mk(rot(u)), mk(rot(v))
        for w in (rb1, rb2):
            nn = C.rsqrt(vnorm2(vec(w)), nonneg=True)
            C.CTX.assume_nonzero(nn)
        r2 = call(rb1, rb2)
        if r2 is not None and _tt_args(r2.value) is not None:
            y2, x2 = _tt_args(r2.value)
            chk('rotation-about-z:y', y2 * y2 == y * y, 'C03:two_theta:rotation')
            chk('rotation-about-z:x', x2 * x2 == x * x, 'C03:two_theta:rotation')
    if what == 'stability-canary':
        # an arccos of the normalised dot product has conditioning |c|/sqrt(1-c^2): must be refuted (sat)
        cc = C.sym_var('c')
        s = C.sym_var('s', sign='+')
        ob = C.prove('canary', cc <= 16 * s, assumptions=[cc * cc + s * s == 1, cc > 0])
        st = 'discharged' if ob.status == 'violated' else 'inconclusive'
        obs.append({'name': 'two_theta:canary:acos-conditioning-unbounded (must be refuted)', 'status': st, 't': ob.t})
    return {'obligations': obs, 'candidates': cands, 'paths': 1}


def job_two_theta_shapes(job, seed):
    """two_theta with array-valued beams: per-pixel incident AND scattered beams (same dim), incident per-pixel with a
    single scattered beam, and beams over different dims (outer).  Every element of the result must be the angle between
    the corresponding pair of beams, on every path, and no argument may be written."""
    lay, npix = job if isinstance(job, tuple) else (job, 2)
    import numpy as np
    from symex import core as C
    from symex import loader
    from symex import terms as T
    from symsc import variable as V
    from .symutil import fresh_run, sym_unit, sym_vector, sym_vectors, vdot, vnorm2

    loader.install_shim()
    bl = loader.load('conversion.beamline')
    fresh_run()
    uL = sym_unit('L', 'm')
    d1, d2 = {'both-per-pixel': ('spectrum', 'spectrum'), 'incident-per-pixel': ('spectrum', None), 'outer': ('a', 'b'), 'scattered-per-pixel': (None, 'spectrum')}[lay]
    b1 = sym_vector('b1', uL) if d1 is None else sym_vectors('b1v', d1, npix, uL)
    b2 = sym_vector('b2', uL) if d2 is None else sym_vectors('b2v', d2, npix, uL)
    obs, cands = [], []
    case = {'kind': 'two_theta_shapes', 'layout': lay}

    def rows(b):
        return [list(b.values[i]) for i in range(npix)] if b.dims else [list(b.values)]

    norms = {}
    for nm, b in (('b1', b1), ('b2', b2)):
        for i, w in enumerate(rows(b)):
            n = C.rsqrt(vnorm2(w), nonneg=True)
            C.CTX.assume(n > 0)
            C.CTX.assume_nonzero(n)
            norms[nm, i] = n
    V.WRITE_LOG.clear()
    paths = C.explore(lambda: bl.two_theta(incident_beam=b1, scattered_beam=b2))
    written = {b.id for b in V.WRITE_LOG}
    ob = C.prove(f'two_theta[{lay},{npix}]:no-argument-written', C.B.const(not ({b1._buf.id, b2._buf.id} & written)))
    obs.append(ob_dict(ob))
    if ob.status != 'discharged':
        cands.append(('C03:mutation', case, 'an argument buffer is written'))
    for k_, p_ in enumerate(paths):
        if p_.inconclusive or p_.exc is not None:
            obs.append({'name': f'two_theta[{lay},{npix}]:path{k_}:runs', 'status': 'inconclusive' if p_.inconclusive else 'violated', 'detail': str(p_.inconclusive or repr(p_.exc))[:200], 't': 0})
            if p_.exc is not None:
                cands.append(('C03:two_theta:raises', case, repr(p_.exc)))
            continue
        out = p_.value
        exp_dims = tuple(dict.fromkeys([d for d in (d1, d2) if d is not None]))
        ob = C.prove(f'two_theta[{lay},{npix}]:path{k_}:dims {exp_dims}, unit rad', C.B.const(set(out.dims) == set(exp_dims) and str(out.unit) == str(V.parse_unit('rad'))))
        obs.append(ob_dict(ob))
        if ob.status != 'discharged':
            cands.append(('C03:two_theta:shape', case, f'dims {out.dims} unit {out.unit}'))
            continue
        for idx in np.ndindex(out.shape):
            im = dict(zip(out.dims, idx, strict=True))
            i1 = im[d1] if d1 is not None else 0
            i2 = im[d2] if d2 is not None else 0
            u, v = rows(b1)[i1], rows(b2)[i2]
            term = out.values[idx]
            yx = _tt_args(term)
            with C.oracle():
                c_ = vdot(u, v) / (norms['b1', i1] * norms['b2', i2])
                if yx is not None:
                    y_, x_ = yx
                    cosr, ynn = (x_ * x_ - y_ * y_) / (x_ * x_ + y_ * y_), (y_ >= 0)
                else:
                    a_ = T.fn_atom_of(term.t)
                    if a_ is not None and a_.fn == 'atan2':
                        y_, x_ = C.R(a_.arg[0]), C.R(a_.arg[1])
                        cosr, ynn = x_ / C.rsqrt(x_ * x_ + y_ * y_, nonneg=True), (y_ >= 0)
                    else:
                        cosr = None
            if cosr is None:
                obs.append({'name': f'two_theta[{lay},{npix}]:path{k_}:{list(idx)}:structure', 'status': 'violated', 't': 0, 'detail': f'result is not an atan2 form: {str(term)[:120]}'})
                cands.append(('C03:two_theta:structure', case, 'result is not an atan2 form'))
                continue
            ob = C.prove(f'two_theta[{lay},{npix}]:path{k_}:{list(idx)}: cos(result) = b1[{i1}].b2[{i2}]/(|b1||b2|), result in [0, pi]', (cosr == c_) & ynn, pc=p_.pc, timeout_ms=30000)
            obs.append(ob_dict(ob))
            if ob.status == 'violated':
                cands.append(('C03:two_theta:value', case, f'element {list(idx)} is not the angle between beams {i1} and {i2}'))
    return {'obligations': obs, 'candidates': cands, 'paths': len(paths)}


def job_stability(job, seed):
    """First-order absolute forward-error analysis of the recorded operation sequence of the REAL two_theta on the
    planar unit-beam family b1 = (L1,0,0), b2 = L2 (cos a, sin a, 0), a in (0, pi) via t = tan(a/2) >= 0:
    accumulated error <= 24 u (about 2.7e-15 rad); an acos(dot) and a sqrt(2-2c) formulation are refuted."""
    scale = job
    import numpy as np
    from symex import core as C
    from symex.errs import EV
    from symsc import variable as V
    from .symutil import fresh_run

    from symex import loader
    sc = loader.install_shim()
    bl = loader.load('conversion.beamline')
    fresh_run()
    obs, cands = [], []
    case = {'kind': 'two_theta', 'what': 'stability'}
    t = C.sym_var('t', sign='0+')
    with C.oracle():
        c = (1 - t * t) / (1 + t * t)
        s = 2 * t / (1 + t * t)
    L1 = L2 = C.R.lift(1)
    if scale:
        L1, L2 = C.sym_var('len1', sign='+'), C.sym_var('len2', sign='+')

    def vecv(comps):
        a = np.empty((3,), dtype=object)
        for i, x in enumerate(comps):
            a[i] = EV(x)
        return V.Variable(_arr=a, dims=(), unit=V.parse_unit('m'), dtype=V.DType.vector3)

    b1 = vecv([L1, 0, 0])
    b2 = vecv([L2 * c, L2 * s, 0])
    tag = f'stability[{"scaled" if scale else "unit"} beams]'
    paths = C.explore(lambda: bl.two_theta(incident_beam=b1, scattered_beam=b2))
    p = paths[0]
    if p.exc is not None or p.inconclusive or len(paths) != 1:
        obs.append({'name': f'{tag}:error analysis runs', 'status': 'inconclusive', 'detail': str(p.inconclusive or repr(p.exc))[:200], 't': 0})
        return {'obligations': obs, 'candidates': cands, 'paths': len(paths)}
    r = p.value.value
    if not isinstance(r, EV):
        obs.append({'name': f'{tag}:error analysis runs', 'status': 'inconclusive', 'detail': 'result carries no error term', 't': 0})
        return {'obligations': obs, 'candidates': cands, 'paths': 1}
    ob = C.prove(f'{tag}:accumulated absolute rounding error of two_theta <= 24 u for every angle in (0, pi)', r.k <= 24, timeout_ms=120000)
    obs.append(ob_dict(ob))
    if ob.status == 'violated':
        cands.append(('C03:two_theta:stability', {**case, 'model': {k_: float(v) for k_, v in (ob.model or {}).items()}}, 'forward error unbounded / above 24 u'))
    if not scale:
        # canaries: numerically naive but algebraically identical formulations must be refuted
        def acos_form():
            n1 = b1 / sc.norm(b1)
            n2 = b2 / sc.norm(b2)
            return sc.acos(sc.dot(n1, n2))

        def sqrt_form():
            n1 = b1 / sc.norm(b1)
            n2 = b2 / sc.norm(b2)
            d = sc.dot(n1, n2)
            y = sc.sqrt(2 - 2 * d)
            x = sc.sqrt(2 + 2 * d)
            return 2 * sc.atan2(y=y, x=x)

        for nm, f in (('acos(dot)', acos_form), ('2 atan2(sqrt(2-2c), sqrt(2+2c))', sqrt_form)):
            q = C.explore(f)[0]
            if q.value is None:
                obs.append({'name': f'{tag}:canary {nm}', 'status': 'inconclusive', 'detail': str(q.inconclusive or repr(q.exc))[:200], 't': 0})
                continue
            ob = C.prove('canary', q.value.value.k <= 24, timeout_ms=60000)
            obs.append({'name': f'{tag}:canary: {nm} has unbounded forward error (must be refuted)', 'status': 'discharged' if ob.status == 'violated' else 'inconclusive', 't': ob.t})
    return {'obligations': obs, 'candidates': cands, 'paths': 1}


def job_length_stability(job, seed):
    """First-order forward-error analysis of the REAL length kernels on the family 'a common offset u along x plus a
    separation d': L1, L2, Ltotal without scattering computed from positions (u+d,0,0) and (u,0,0) carry an absolute
    rounding error of at most 8 u_roundoff * d for EVERY offset u - i.e. the error is relative to the length, not to the
    distance of the beamline from the coordinate origin (a |p|^2 - 2 p.s + |s|^2 formulation is refuted)."""
    which = job
    import numpy as np
    from symex import core as C
    from symex import loader
    from symex.errs import EV
    from symsc import variable as V
    from .symutil import fresh_run

    sc = loader.install_shim()
    bl = loader.load('conversion.beamline')
    fresh_run()
    obs, cands = [], []
    case = {'kind': 'length-stability', 'which': which}
    u, d = C.sym_var('offset'), C.sym_var('sep', sign='+')

    def vecv(comps):
        a = np.empty((3,), dtype=object)
        for i, x in enumerate(comps):
            a[i] = EV(x)
        return V.Variable(_arr=a, dims=(), unit=V.parse_unit('m'), dtype=V.DType.vector3)

    far, near = vecv([u + d, 0, 0]), vecv([u, 0, 0])
    calls = {
        'Ltotal (no scatter)': lambda: bl.total_straight_beam_length_no_scatter(source_position=near, position=far),
        'L1 from positions': lambda: bl.L1(incident_beam=bl.straight_incident_beam(source_position=near, sample_position=far)),
        'L2 from positions': lambda: bl.L2(scattered_beam=bl.straight_scattered_beam(position=far, sample_position=near)),
    }
    f = calls[which]
    tag = f'length-stability[{which}]'
    paths = C.explore(f)
    p = paths[0]
    if len(paths) != 1 or p.exc is not None or p.inconclusive or not isinstance(getattr(p.value, 'value', None), EV):
        obs.append({'name': f'{tag}:error analysis runs', 'status': 'inconclusive', 'detail': str(p.inconclusive or repr(p.exc) or 'result carries no error term')[:200], 't': 0})
        return {'obligations': obs, 'candidates': cands, 'paths': len(paths)}
    r = p.value.value
    ob = C.prove(f'{tag}:value = separation', r.v == d)
    obs.append(ob_dict(ob))
    ob = C.prove(f'{tag}:accumulated absolute rounding error <= 8 u x length, for every offset of the beamline from the origin', r.k <= 8 * d, timeout_ms=60000)
    obs.append(ob_dict(ob))
    if ob.status == 'violated':
        cands.append(('C03:length:stability', {**case, 'model': {k_: float(v) for k_, v in (ob.model or {}).items()}}, 'rounding error grows with the distance from the origin'))
    if which.startswith('Ltotal'):
        def expanded():
            return sc.sqrt(sc.dot(far, far) - 2 * sc.dot(far, near) + sc.dot(near, near))
        q = C.explore(expanded)[0]
        if q.value is not None and isinstance(q.value.value, EV):
            ob = C.prove('canary', q.value.value.k <= 8 * d, timeout_ms=60000)
            obs.append({'name': f'{tag}:canary: sqrt(p.p - 2 p.s + s.s) has unbounded relative error (must be refuted)', 'status': 'discharged' if ob.status == 'violated' else 'inconclusive', 't': ob.t})
    return {'obligations': obs, 'candidates': cands, 'paths': 1}


def run(chk):
    from symex import loader

    loader.install_shim()
    bl = loader.load('conversion.beamline')
    gb = loader.load('conversion.graph.beamline')
    chk.functions = loader.describe_exprs(['bl.L1', 'bl.L2', 'bl.straight_incident_beam', 'bl.straight_scattered_beam', 'bl.total_beam_length', 'bl.total_straight_beam_length_no_scatter', 'bl.two_theta', 'gb.beamline'], {**globals(), **locals()})
    run_jobs(chk, job_euclid, [(True, None), (False, None), (True, 2), (False, 2)] + ([(True, 3), (False, 3), (True, 1), (True, 4)] if chk.tier == 'thorough' else []))
    run_jobs(chk, job_two_theta, ['definition', 'units', 'symmetry', 'rescale', 'rotation', 'stability-canary'])
    # layouts in which the detector carries the pixel dim (dims of the incident beam are a subset of the scattered beam's);
    # a per-pixel incident beam with a single scattered beam raises DimensionError in the real code (loud, outside the quantifier)
    run_jobs(chk, job_two_theta_shapes, [('both-per-pixel', 2), ('scattered-per-pixel', 2)] + ([('both-per-pixel', 3), ('scattered-per-pixel', 3), ('both-per-pixel', 1), ('scattered-per-pixel', 4)] if chk.tier == 'thorough' else []))
    run_jobs(chk, job_stability, [False, True])
    run_jobs(chk, job_length_stability, ['Ltotal (no scatter)', 'L1 from positions', 'L2 from positions'])
    from . import shimval
    shimval.validate(chk, 'beamline', 40 if chk.tier == 'quick' else 240)
    chk.bounds = {'arrays': 'scalar and 2 detector pixels', 'values': 'all real position vectors with distinct positions; symbolic length unit'}
    chk.stubs = ['scipp -> symsc (vector arithmetic, norm, atan2(out=), in-place ops with buffer write log)']
    chk.axioms = ['atan2: range/quadrant axioms; cos(2 atan2(y,x)) = (x^2-y^2)/(x^2+y^2)', 'sin^2+cos^2=1',
                  'rotation invariance via the abstraction lemma (Ru).(Rv)=u^T(R^T R)v plus a concrete one-parameter rotation family']
    chk.assumptions = ['numerical stability: first-order absolute forward-error analysis of the recorded operation sequence on the planar beam family '
                       '(any beam lengths, any angle in (0, pi)); general position and float32 are outside the claim',
                       'translation invariance is structural: beams are differences of positions (euclid obligations)']


def replay_real(case):
    import mpmath as mp
    import numpy as np
    import scipp as sc
    from scippneutron.conversion import beamline as rb
    from scippneutron.conversion.graph import beamline as gb

    mp.mp.dps = 40
    rng = np.random.default_rng(0)
    bad = []

    def mpang(u, v):
        u = [mp.mpf(float(t)) for t in u]
        v = [mp.mpf(float(t)) for t in v]
        nu = mp.sqrt(sum(t * t for t in u))
        nv = mp.sqrt(sum(t * t for t in v))
        uu = [t / nu for t in u]
        vv = [t / nv for t in v]
        y = mp.sqrt(sum((a - b) ** 2 for a, b in zip(uu, vv, strict=True)))
        x = mp.sqrt(sum((a + b) ** 2 for a, b in zip(uu, vv, strict=True)))
        return 2 * mp.atan2(y, x)

    if case['kind'] == 'length-stability':
        # beamlines far from the coordinate origin compared with their length (site-wide frames, a monitor close to the source)
        worst = 0.0
        for trial in range(200):
            off = rng.normal(size=3) * 10 ** rng.uniform(2, 7)
            dvec = rng.normal(size=3) * 10 ** rng.uniform(-2, 2)
            src, pos = off, off + dvec
            exact = mp.sqrt(sum((mp.mpf(float(a)) - mp.mpf(float(b))) ** 2 for a, b in zip(pos, src, strict=True)))
            got = {
                'Ltotal (no scatter)': lambda: rb.total_straight_beam_length_no_scatter(source_position=sc.vector(src, unit='m'), position=sc.vector(pos, unit='m')).value,
                'L1 from positions': lambda: rb.L1(incident_beam=rb.straight_incident_beam(source_position=sc.vector(src, unit='m'), sample_position=sc.vector(pos, unit='m'))).value,
                'L2 from positions': lambda: rb.L2(scattered_beam=rb.straight_scattered_beam(position=sc.vector(pos, unit='m'), sample_position=sc.vector(src, unit='m'))).value,
            }[case['which']]()
            rel = float(abs(mp.mpf(float(got)) - exact) / exact) if np.isfinite(got) else float('inf')
            worst = max(worst, rel)
            if rel > 1e-13:
                bad.append(f'{case["which"]}: source {src.tolist()}, position {pos.tolist()}: {got!r} vs exact {mp.nstr(exact, 17)} (relative error {rel:.3g})')
                break
        return {'reproduced': bool(bad), 'detail': '; '.join(bad[:2])}
    if case['kind'] == 'two_theta' and case.get('model') and any(k.startswith('b1_') for k in case['model']):
        m = case['model']
        sL = m.get('L', 1.0) or 1.0
        u = [m.get(f'b1_{c}', 0.0) for c in 'xyz']
        v = [m.get(f'b2_{c}', 0.0) for c in 'xyz']
        # the symbolic length unit 'L' has scale sL metres: present the same numbers in metres
        got = rb.two_theta(incident_beam=sc.vector(u, unit='m'), scattered_beam=sc.vector(v, unit='m')).value
        exp = float(mpang(u, v))
        if abs(got - exp) > 1e-12 * max(1.0, abs(exp)) + 1e-13:
            bad.append(f'two_theta({u}, {v}) = {got!r}, angle between the beams = {exp!r}')
        return {'reproduced': bool(bad), 'detail': '; '.join(bad[:2])}
    if case['kind'] == 'two_theta_shapes':
        lay = case['layout']
        d1, d2 = {'both-per-pixel': ('spectrum', 'spectrum'), 'incident-per-pixel': ('spectrum', None), 'outer': ('a', 'b'), 'scattered-per-pixel': (None, 'spectrum')}[lay]
        for trial in range(40):
            n = int(rng.integers(2, 5))
            U = rng.normal(size=(n, 3)) * 10 ** rng.uniform(-3, 3)
            W = rng.normal(size=(n, 3)) * 10 ** rng.uniform(-3, 3)
            b1 = sc.vector(U[0], unit='m') if d1 is None else sc.vectors(dims=[d1], values=U, unit='m')
            b2 = sc.vector(W[0], unit='m') if d2 is None else sc.vectors(dims=[d2], values=W, unit='m')
            keep1, keep2 = b1.copy(), b2.copy()
            got = rb.two_theta(incident_beam=b1, scattered_beam=b2)
            if not sc.identical(b1, keep1) or not sc.identical(b2, keep2):
                bad.append('argument modified')
                break
            for i in range(n if d1 else 1):
                for j in range(n if d2 else 1):
                    if d1 and d2 and d1 == d2 and i != j:
                        continue
                    g = got
                    if d1:
                        g = g[d1, i]
                    if d2 and d2 != d1:
                        g = g[d2, j]
                    exp = mpang(U[i], W[j])
                    err = abs(mp.mpf(float(g.value)) - exp)
                    if err > mp.mpf('4e-15'):
                        bad.append(f'{lay}: |two_theta[{i},{j}] - exact| = {mp.nstr(err, 3)}')
            if bad:
                break
        return {'reproduced': bool(bad), 'detail': '; '.join(bad[:2])}
    if case['kind'] == 'two_theta':
        for trial in range(300):
            u = rng.normal(size=3) * 10 ** rng.uniform(-6, 6)
            kind = trial % 4
            if kind == 0:
                v = rng.normal(size=3) * 10 ** rng.uniform(-6, 6)
            elif kind == 1:
                v = u * 10 ** rng.uniform(-3, 3) + rng.normal(size=3) * np.linalg.norm(u) * 10 ** rng.uniform(-13, -6)
            elif kind == 2:
                v = -u * 10 ** rng.uniform(-3, 3) + rng.normal(size=3) * np.linalg.norm(u) * 10 ** rng.uniform(-13, -6)
            else:
                w = np.cross(u, rng.normal(size=3))
                v = w + u * 10 ** rng.uniform(-13, -6)
            b1 = sc.vector(u, unit='m')
            b2 = sc.vector(v, unit='m')
            keep1, keep2 = b1.copy(), b2.copy()
            got = rb.two_theta(incident_beam=b1, scattered_beam=b2)
            if not sc.identical(b1, keep1) or not sc.identical(b2, keep2):
                bad.append('argument modified')
                break
            exp = mpang(u, v)
            err = abs(mp.mpf(float(got.value)) - exp)
            if err > mp.mpf('4e-15'):
                bad.append(f'|two_theta - exact| = {mp.nstr(err, 3)} for u={u.tolist()} v={v.tolist()}')
            if not (0 <= got.value <= np.pi):
                bad.append('out of [0, pi]')
            got2 = rb.two_theta(incident_beam=b2, scattered_beam=b1)
            if abs(got2.value - got.value) > 4e-15:
                bad.append('not symmetric')
    else:
        for _ in range(50):
            src, smp, det = (rng.normal(size=3) * 10 ** rng.uniform(-2, 2) for _ in range(3))
            da = sc.DataArray(sc.scalar(1.0), coords={'source_position': sc.vector(src, unit='m'), 'sample_position': sc.vector(smp, unit='m'),
                                                      'position': sc.vector(det, unit='m')})
            g = gb.beamline(scatter=case.get('scatter', True))
            targets = ['L1', 'L2', 'Ltotal', 'incident_beam', 'scattered_beam'] if case.get('scatter', True) else ['Ltotal']
            out = da.transform_coords(targets, graph=g, keep_intermediate=True, keep_inputs=True)
            l1 = np.linalg.norm(smp - src)
            l2 = np.linalg.norm(det - smp)
            exp = {'L1': l1, 'L2': l2, 'Ltotal': l1 + l2} if case.get('scatter', True) else {'Ltotal': np.linalg.norm(det - src)}
            for k, e in exp.items():
                if abs(out.coords[k].value - e) > 1e-12 * max(1, abs(e)):
                    bad.append(f'{k}: {out.coords[k].value} vs {e}')
            if case.get('scatter', True):
                if not np.allclose(out.coords['incident_beam'].value, smp - src, rtol=1e-14, atol=0):
                    bad.append('incident_beam')
                if not np.allclose(out.coords['scattered_beam'].value, det - smp, rtol=1e-14, atol=0):
                    bad.append('scattered_beam')
    return {'reproduced': bool(bad), 'detail': '; '.join(bad[:3])}
