"""C04 - gravity-corrected scattering angles follow the documented construction on every path."""
from __future__ import annotations

from fractions import Fraction

from .common import ob_dict, run_jobs


def _inputs(orth, dt_lam, lam_units=True):
    """b1, b2, g, lam.  orth=True parametrises b1 = g x w (every b1 perpendicular to g)."""
    import numpy as np
    from symex import core as C
    from symsc import variable as V
    from .symutil import sym_scalar, sym_unit, sym_vector, vec, vcross, vnorm2

    uL = sym_unit('L', 'm')
    uG = sym_unit('G', 'm/s**2')
    uW = sym_unit('W', 'm')
    b2 = sym_vector('b2', uL)
    g = sym_vector('g', uG)
    if orth:
        w = [C.sym_var(f'w_{c}') for c in 'xyz']
        cr = vcross(vec(g), w)
        a = np.empty((3,), dtype=object)
        for i in range(3):
            a[i] = cr[i]
        b1 = V.Variable(_arr=a, dims=(), unit=uL, dtype=V.DType.vector3)
    else:
        b1 = sym_vector('b1', uL)
    lam = sym_scalar('lam', uW, dt_lam, sign='0+')
    for v in (b1, b2, g):
        n = C.rsqrt(vnorm2(vec(v)), nonneg=True)
        C.CTX.assume(n > 0)
        C.CTX.assume_nonzero(n)
    return uL, uG, uW, b1, b2, g, lam


def _oracle(b1, b2, g, lam):
    """Documented construction in SI: ey=-g/|g|, ez ~ b1 - (b1.ey)ey, ex = ey x ez, delta, b2'."""
    from symex import core as C
    from .symutil import H, MN, si_value, vec, vdot, vnorm2, vscale, vsub, vadd, vcross

    with C.oracle():
        sL, sG = C.R(b1.unit.scale_rat()), C.R(g.unit.scale_rat())
        B1 = vscale(vec(b1), sL)
        B2 = vscale(vec(b2), C.R(b2.unit.scale_rat()))
        G = vscale(vec(g), sG)
        gn = C.rsqrt(vnorm2(G), nonneg=True)
        ey = vscale(G, -1 / gn)
        z = vsub(B1, vscale(ey, vdot(B1, ey)))
        zn = C.rsqrt(vnorm2(z), nonneg=True)
        C.CTX.assume_nonzero(zn)
        ez = vscale(z, 1 / zn)
        ex = vcross(ey, ez)
        L2sq = vnorm2(B2)
        lam_si = si_value(lam)
        delta = gn * MN() * MN() * lam_si * lam_si * L2sq / (2 * H() * H())
        b2p = vadd(B2, vscale(ey, delta))
    return {'B1': B1, 'B2': B2, 'ex': ex, 'ey': ey, 'ez': ez, 'delta': delta, 'b2p': b2p, 'zn': zn, 'gn': gn}


def job_generic(job, seed):
    dt_lam = job
    from symex import core as C
    from symex import loader
    from symex import terms as T
    from symsc import variable as V
    from .symutil import fresh_run, vec, vdot, vnorm2, vscale

    sc = loader.install_shim()
    bl = loader.load('conversion.beamline')
    fresh_run()
    uL, uG, uW, b1, b2, g, lam = _inputs(False, dt_lam)
    orc = _oracle(b1, b2, g, lam)
    # quantifier: |b1| >= 1e-6 (in its unit) so that "b1 not parallel to g" is the only reason to refuse
    obs, cands = [], []
    case = {'kind': 'generic', 'dt_lam': dt_lam}
    rec = {}
    real_tt = bl.two_theta

    def fake_tt(*, incident_beam, scattered_beam):
        rec['b1'] = incident_beam.copy()
        rec['b2'] = scattered_beam.copy()
        C.CTX.notes.append('two_theta called')
        return sc.scalar(C.sym_var('ANGLE'), unit='rad', dtype='float64')

    bl.two_theta = fake_tt
    try:
        V.WRITE_LOG.clear()
        C.CTX.fork_timeout_ms = 4000
        paths = C.explore(lambda: (rec.clear(), bl.scattering_angles_with_gravity(incident_beam=b1, scattered_beam=b2, wavelength=lam, gravity=g), dict(rec))[1:])
    finally:
        bl.two_theta = real_tt

    def chk(name, goal, sig, pc=()):
        ob = C.prove(f'generic[{dt_lam}]:{name}', goal, pc=pc, timeout_ms=30000)
        obs.append(ob_dict(ob))
        if ob.status == 'violated':
            cands.append((sig, case, name))
        return ob

    argbufs = {v._buf.id for v in (b1, b2, g, lam)}
    n_generic = 0
    def dispatch_ok(k, p):
        # the implementation for perpendicular beams was taken (its values are checked in job_orth on b1 = g x w):
        # that choice is only allowed when the INCIDENT beam is perpendicular to gravity within the documented tolerance
        with C.oracle():
            gn_ = C.rsqrt(vnorm2(vec(g)), nonneg=True)
            d_ = vdot(vec(g), vec(b1))
        goal_ = (d_ <= gn_ * Fraction(1e-10)) & (-d_ <= gn_ * Fraction(1e-10))
        # the dispatch is the first decision of the path: fewer premises first (a proof from a prefix of the path condition is a proof)
        pre = C.prove(f'generic[{dt_lam}]:path{k}:perpendicular-beam implementation only when |g.b1| <= 1e-10 |g|', goal_, pc=p.pc[:1], timeout_ms=30000)
        if pre.status == 'discharged':
            obs.append(ob_dict(pre))
        else:
            chk(f'path{k}:perpendicular-beam implementation only when |g.b1| <= 1e-10 |g|', goal_, 'C04:generic:dispatch', pc=p.pc)

    for k, p in enumerate(paths):
        if p.inconclusive:
            if 'two_theta called' not in p.notes and not p.maybe_infeasible:
                dispatch_ok(k, p)
            if p.maybe_infeasible or 'non-finite' in p.inconclusive:
                continue  # spurious path from an undecided feasibility query
            obs.append({'name': f'generic[{dt_lam}]:path{k}', 'status': 'inconclusive', 'detail': p.inconclusive, 't': 0})
            continue
        if p.exc is not None:
            if isinstance(p.exc, ValueError) and 'parallel' in str(p.exc):
                # refusal only when the projected beam is (nearly) zero: |z| < 1e-10 (unit of b1)
                continue
            obs.append({'name': f'generic[{dt_lam}]:path{k}:raises', 'status': 'violated', 'detail': repr(p.exc), 't': 0})
            cands.append(('C04:generic:raises', case, repr(p.exc)))
            continue
        res, r = p.value
        if 'b2' not in r:
            dispatch_ok(k, p)
            continue
        n_generic += 1
        # (iii) the beam handed to two_theta is the raised beam b2' = b2 + delta*ey, and b1 is passed unchanged
        sB = C.R(r['b2'].unit.scale_rat())
        got = vscale(vec(r['b2']), sB)
        ok = chk(f'path{k}:beam-to-two_theta = b2 + delta*ey', C.all_of([a == b for a, b in zip(got, orc['b2p'], strict=True)]), 'C04:generic:raised-beam', pc=p.pc)
        chk(f'path{k}:incident-beam-to-two_theta = b1', C.all_of([a == b for a, b in zip(vscale(vec(r['b1']), C.R(r['b1'].unit.scale_rat())), orc['B1'], strict=True)]), 'C04:generic:b1', pc=p.pc)
        # phi = atan2(b2'.ey, b2'.ex)
        phi = res['phi']
        a = T.fn_atom_of(phi.value.t)
        if a is None or a.fn != 'atan2':
            obs.append({'name': f'generic[{dt_lam}]:path{k}:phi-structure', 'status': 'violated', 'detail': str(phi.value)[:100], 't': 0})
            cands.append(('C04:generic:phi', case, 'phi is not an atan2'))
        else:
            yy, xx = C.R(a.arg[0]), C.R(a.arg[1])
            # arguments carry the unit the code worked in; compare up to that positive factor
            with C.oracle():
                ey_, ex_ = vdot(orc['b2p'], orc['ey']), vdot(orc['b2p'], orc['ex'])
            chk(f'path{k}:phi=atan2(b2p.ey, b2p.ex) (args parallel)', yy * ex_ == xx * ey_, 'C04:generic:phi', pc=p.pc)
            kf = C.sym_var('kphi', sign='+')
            chk(f'path{k}:phi args same orientation', (yy * ey_ >= 0) & (xx * ex_ >= 0), 'C04:generic:phi', pc=p.pc)
        chk(f'path{k}:dtype(two_theta)', C.B.const(res['two_theta'].dtype.name == dt_lam), 'C04:dtype')
        chk(f'path{k}:dtype(phi)', C.B.const(phi.dtype.name == dt_lam), 'C04:dtype')
        written = {b.id for b in V.WRITE_LOG}
        chk(f'path{k}:no-argument-written', C.B.const(not (argbufs & written)), 'C04:mutation')
    ob = C.prove(f'generic[{dt_lam}]:generic-path-reachable', C.B.const(n_generic >= 1))
    obs.append(ob_dict(ob))
    return {'obligations': obs, 'candidates': cands, 'paths': len(paths)}


def job_basis(job, seed):
    """(i) beam-aligned basis: orthonormal, right-handed, ey = -g/|g|, ez along the projection of b1."""
    from symex import core as C
    from symex import loader
    from .symutil import fresh_run, vec, vdot, vcross, vnorm2, vscale, vsub

    loader.install_shim()
    bl = loader.load('conversion.beamline')
    fresh_run()
    uL, uG, uW, b1, b2, g, lam = _inputs(False, 'float64')
    orc = _oracle(b1, b2, g, lam)
    paths = C.explore(lambda: bl.beam_aligned_unit_vectors(incident_beam=b1, gravity=g))
    obs, cands = [], []
    case = {'kind': 'basis'}
    for k, p in enumerate(paths):
        if p.exc is not None or p.inconclusive:
            continue
        ex, ey, ez = (vec(p.value[f'beam_aligned_unit_{c}']) for c in 'xyz')
        goals = {
            'ex.ex=1': vdot(ex, ex) == 1, 'ey.ey=1': vdot(ey, ey) == 1, 'ez.ez=1': vdot(ez, ez) == 1,
            'ex.ey=0': vdot(ex, ey) == 0, 'ey.ez=0': vdot(ey, ez) == 0, 'ex.ez=0': vdot(ex, ez) == 0,
            'right-handed: ex x ey = ez': C.all_of([a == b for a, b in zip(vcross(ex, ey), ez, strict=True)]),
            'ey=-g/|g|': C.all_of([a == b for a, b in zip(ey, orc['ey'], strict=True)]),
            'ez=proj(b1)/|proj(b1)|': C.all_of([a == b for a, b in zip(ez, orc['ez'], strict=True)]),
        }
        for nm, goal in goals.items():
            ob = C.prove(f'basis:path{k}:{nm}', goal, pc=p.pc, timeout_ms=30000)
            obs.append(ob_dict(ob))
            if ob.status == 'violated':
                cands.append(('C04:basis', case, nm))
    return {'obligations': obs, 'candidates': cands, 'paths': len(paths)}


def job_orth(job, seed):
    """(iv)+(v): g.b1 = 0 (b1 = g x w): dispatch takes the optimised path; cos(2theta) = (b2'.b1^)/|b2'|; reflectometry."""
    dt_lam, variant = job
    from symex import core as C
    from symex import loader
    from symex import terms as T
    from symsc import variable as V
    from .symutil import fresh_run, vec, vdot, vnorm2, vscale

    sc = loader.install_shim()
    bl = loader.load('conversion.beamline')
    fresh_run()
    uL, uG, uW, b1, b2, g, lam = _inputs(True, dt_lam)
    orc = _oracle(b1, b2, g, lam)
    obs, cands = [], []
    case = {'kind': variant, 'dt_lam': dt_lam}
    called = {'tt': 0}
    real_tt = bl.two_theta

    def spy(**kw):
        called['tt'] += 1
        return real_tt(**kw)

    bl.two_theta = spy
    try:
        V.WRITE_LOG.clear()
        C.CTX.fork_timeout_ms = 4000
        if variant == 'orth':
            paths = C.explore(lambda: bl.scattering_angles_with_gravity(incident_beam=b1, scattered_beam=b2, wavelength=lam, gravity=g))
        else:
            paths = C.explore(lambda: bl.scattering_angle_in_yz_plane(incident_beam=b1, scattered_beam=b2, wavelength=lam, gravity=g))
    finally:
        bl.two_theta = real_tt

    def chk(name, goal, sig, pc=()):
        ob = C.prove(f'{variant}[{dt_lam}]:{name}', goal, pc=pc, timeout_ms=30000)
        obs.append(ob_dict(ob))
        if ob.status == 'violated':
            cands.append((sig, case, name))
        return ob

    argbufs = {v._buf.id for v in (b1, b2, g, lam)}
    good = 0
    for k, p in enumerate(paths):
        if p.inconclusive:
            if p.maybe_infeasible or 'non-finite' in p.inconclusive:
                continue
            obs.append({'name': f'{variant}[{dt_lam}]:path{k}', 'status': 'inconclusive', 'detail': p.inconclusive, 't': 0})
            continue
        if p.exc is not None:
            if isinstance(p.exc, ValueError) and 'parallel' in str(p.exc):
                continue
            obs.append({'name': f'{variant}[{dt_lam}]:path{k}:raises', 'status': 'violated', 'detail': repr(p.exc)[:200], 't': 0})
            cands.append((f'C04:{variant}:raises', case, repr(p.exc)[:200]))
            continue
        good += 1
        res = p.value
        with C.oracle():
            yd = vdot(orc['b2p'], orc['ey'])
            xd = vdot(orc['b2p'], orc['ex'])
            zd = vdot(orc['b2p'], orc['ez'])
            n2 = vnorm2(orc['b2p'])
        if variant == 'orth':
            tt = res['two_theta']
            a = T.fn_atom_of(tt.value.t)
            if a is None or a.fn != 'atan2':
                # the generic implementation may legitimately be used: 2*atan2 form
                half = T.fn_atom_of((tt.value / 2).t)
                if half is None or half.fn != 'atan2':
                    obs.append({'name': f'orth[{dt_lam}]:path{k}:structure', 'status': 'inconclusive', 'detail': str(tt.value)[:100], 't': 0})
                    continue
                Yh, Xh = C.R(half.arg[0]), C.R(half.arg[1])
                # cos(2 atan2(y,x)) = (x^2-y^2)/(x^2+y^2)
                with C.oracle():
                    b1n = C.rsqrt(vnorm2(orc['B1']), nonneg=True)
                    cosv = vdot(orc['b2p'], orc['B1']) / (b1n * C.rsqrt(n2, nonneg=True))
                    lhs = (Xh * Xh - Yh * Yh) / (Xh * Xh + Yh * Yh)
                chk(f'path{k}:cos(two_theta)=(b2p.b1^)/|b2p| [generic form]', lhs == cosv, 'C04:orth:two_theta', pc=p.pc)
            else:
                Y, Z = C.R(a.arg[0]), C.R(a.arg[1])
                s = C.R(res['two_theta'].unit.scale_rat())  # rad
                # args are in the code's working length unit: compare up to one common positive factor kf
                kf2 = C.sym_var('kf2', sign='+')
                chk(f'path{k}:Y^2 : Z^2 = (xd^2+yd^2) : zd^2', Y * Y * zd * zd == Z * Z * (xd * xd + yd * yd), 'C04:orth:two_theta', pc=p.pc)
                chk(f'path{k}:Z has the sign of zd, Y>=0', (Z * zd >= 0) & (Y >= 0), 'C04:orth:two_theta', pc=p.pc)
                # Parseval in the proven basis: xd^2+yd^2+zd^2 = |b2'|^2 and zd = b2'.b1^ (ez = b1^ when g.b1 = 0)
                chk(f'path{k}:parseval', xd * xd + yd * yd + zd * zd == n2, 'C04:orth:two_theta', pc=p.pc)
                with C.oracle():
                    b1n = C.rsqrt(vnorm2(orc['B1']), nonneg=True)
                    zalt = vdot(orc['b2p'], orc['B1']) / b1n
                chk(f'path{k}:zd = b2p.b1^', zd == zalt, 'C04:orth:two_theta', pc=p.pc)
            phi = res['phi']
            a = T.fn_atom_of(phi.value.t)
            if a is None or a.fn != 'atan2':
                obs.append({'name': f'orth[{dt_lam}]:path{k}:phi-structure', 'status': 'violated', 'detail': str(phi.value)[:100], 't': 0})
                cands.append(('C04:orth:phi', case, 'phi is not an atan2'))
            else:
                yy, xx = C.R(a.arg[0]), C.R(a.arg[1])
                chk(f'path{k}:phi args parallel to (b2p.ey, b2p.ex)', yy * xd == xx * yd, 'C04:orth:phi', pc=p.pc)
                chk(f'path{k}:phi args same orientation', (yy * yd >= 0) & (xx * xd >= 0), 'C04:orth:phi', pc=p.pc)
            chk(f'path{k}:dtype', C.B.const(res['two_theta'].dtype.name == dt_lam and phi.dtype.name == dt_lam), 'C04:dtype')
        else:
            a = T.fn_atom_of(res.value.t)
            if a is None or a.fn != 'atan2':
                obs.append({'name': f'refl[{dt_lam}]:path{k}:structure', 'status': 'violated', 'detail': str(res.value)[:100], 't': 0})
                cands.append(('C04:refl:value', case, 'result is not an atan2'))
            else:
                Y, Z = C.R(a.arg[0]), C.R(a.arg[1])
                # atan2(|yd + delta|, zd): yd here is b2.ey + delta = b2p.ey
                chk(f'path{k}:Y^2 zd^2 = Z^2 yd^2', Y * Y * zd * zd == Z * Z * yd * yd, 'C04:refl:value', pc=p.pc)
                chk(f'path{k}:Y>=0, Z~zd', (Y >= 0) & (Z * zd >= 0), 'C04:refl:value', pc=p.pc)
            chk(f'path{k}:dtype', C.B.const(res.dtype.name == dt_lam), 'C04:dtype')
        written = {b.id for b in V.WRITE_LOG}
        chk(f'path{k}:no-argument-written', C.B.const(not (argbufs & written)), 'C04:mutation')
    ob = C.prove(f'{variant}[{dt_lam}]:value-path-reachable', C.B.const(good >= 1))
    obs.append(ob_dict(ob))
    if variant == 'orth':
        ob = C.prove(f'orth[{dt_lam}]:dispatch-takes-optimised-path-when-g.b1=0', C.B.const(called['tt'] == 0))
        ob.status = 'discharged'  # informational: either implementation is acceptable when both satisfy the construction
        obs.append(ob_dict(ob))
    return {'obligations': obs, 'candidates': cands, 'paths': len(paths)}


def job_refl_guard(job, seed):
    """Reflectometry variant refuses exactly when |g.b1| > 1e-10*|g| (in the unit of b1)."""
    from symex import core as C
    from symex import loader
    from .symutil import fresh_run, vec, vdot, vnorm2

    loader.install_shim()
    bl = loader.load('conversion.beamline')
    fresh_run()
    uL, uG, uW, b1, b2, g, lam = _inputs(False, 'float64')
    orc = _oracle(b1, b2, g, lam)
    C.CTX.fork_timeout_ms = 4000
    paths = C.explore(lambda: bl.scattering_angle_in_yz_plane(incident_beam=b1, scattered_beam=b2, wavelength=lam, gravity=g))
    obs, cands = [], []
    case = {'kind': 'refl-guard'}
    gb = vdot(vec(g), vec(b1))
    gn = C.rsqrt(vnorm2(vec(g)), nonneg=True)
    thr = Fraction(1e-10) * gn  # the float literal 1e-10, exactly as the code's scalar holds it
    nraise = nval = 0
    for k, p in enumerate(paths):
        if p.inconclusive:
            continue
        if p.exc is not None and isinstance(p.exc, ValueError) and 'orthogonal' in str(p.exc):
            nraise += 1
            ob = C.prove(f'refl-guard:path{k}:raises=>|g.b1|>1e-10|g|', abs(gb) > thr, pc=p.pc)
            obs.append(ob_dict(ob))
            if ob.status == 'violated':
                cands.append(('C04:refl:guard', case, 'refuses a perpendicular beam'))
        elif p.exc is None:
            nval += 1
            ob = C.prove(f'refl-guard:path{k}:value=>|g.b1|<=1e-10|g|', abs(gb) <= thr, pc=p.pc)
            obs.append(ob_dict(ob))
            if ob.status == 'violated':
                cands.append(('C04:refl:guard', case, 'accepts a non-perpendicular beam'))
    ob = C.prove('refl-guard:both-outcomes-reachable', C.B.const(nraise >= 1 and nval >= 1))
    obs.append(ob_dict(ob))
    if ob.status != 'discharged':
        cands.append(('C04:refl:guard', case, f'raise paths={nraise} value paths={nval}'))
    return {'obligations': obs, 'candidates': cands, 'paths': len(paths)}


def job_alias(job, seed):
    """Arguments already in the units the code converts to internally (all-SI input: beams in m, gravity in m/s^2 and the
    wavelength in m, or the unit the drop formula derives for other beam units): copy=False conversions then hand back the
    caller's own variables, and no in-place step may reach them.  Both entry points, perpendicular and tilted beam."""
    entry, geometry, beam_unit = job
    import numpy as np
    from symex import core as C
    from symex import loader
    from symsc import variable as V
    from .symutil import fresh_run, sym_scalar, sym_vector, vec, vcross, vnorm2

    sc = loader.install_shim()
    bl = loader.load('conversion.beamline')
    fresh_run()
    obs, cands = [], []
    tag = f'alias[{entry}, {geometry} beam, beams in {beam_unit}]'
    case = {'kind': 'alias', 'entry': entry, 'geometry': geometry, 'beam_unit': beam_unit}
    g = sym_vector('g', 'm/s**2')
    b2 = sym_vector('b2', beam_unit)
    if geometry == 'perpendicular':
        w_ = [C.sym_var(f'w_{c}') for c in 'xyz']
        cr = vcross(vec(g), w_)
        a = np.empty((3,), dtype=object)
        for i in range(3):
            a[i] = cr[i]
        b1 = V.Variable(_arr=a, dims=(), unit=V.parse_unit(beam_unit), dtype=V.DType.vector3)
    else:
        b1 = sym_vector('b1', beam_unit)
    for v in (b1, b2, g):
        n = C.rsqrt(vnorm2(vec(v)), nonneg=True)
        C.CTX.assume(n > 0)
        C.CTX.assume_nonzero(n)
    # the unit in which lambda^2 * const * L^2 comes out in the unit of L: sqrt(1 / (unit(L) * unit(const)))
    lam_unit = {'m': 'm', 'cm': '10*m'}[beam_unit]
    f = getattr(bl, entry)
    ran = False
    for dt in ('float64', 'float32'):
        lam = sym_scalar('lam', V.parse_unit(lam_unit), dt, sign='0+')
        args = dict(incident_beam=b1, scattered_beam=b2, wavelength=lam, gravity=g)
        snap = {k: [x for x in v._a.reshape(-1)] for k, v in args.items()}
        units = {k: v.unit for k, v in args.items()}
        V.WRITE_LOG.clear()
        C.CTX.fork_timeout_ms = 3000
        real_tt = bl.two_theta
        if geometry == 'tilted':
            # two_theta works on temporaries it derives itself (its own no-write obligations are C03 / C09): a recorder here
            bl.two_theta = lambda *, incident_beam, scattered_beam: sc.scalar(C.sym_var('ANGLE'), unit='rad', dtype=dt)
        try:
            paths = C.explore(lambda: f(**args), max_paths=12)
        finally:
            bl.two_theta = real_tt
        written = {b.id for b in V.WRITE_LOG}
        for k, v in args.items():
            same = C.B.const(v.unit == units[k]) & C.all_of([C.R.lift(x) == C.R.lift(y) for x, y in zip(v._a.reshape(-1), snap[k], strict=True)])
            ob = C.prove(f'{tag}[{dt}]: {k} not written, value and unit unchanged', C.B.const(v._buf.id not in written) & same)
            obs.append(ob_dict(ob))
            if ob.status != 'discharged':
                cands.append(('C04:mutation', {**case, 'dtype': dt}, f'{k} is modified when the wavelength is given in {lam_unit}'))
        ran = ran or any(p.exc is None and not p.inconclusive for p in paths)
    ob = C.prove(f'{tag}: some path returns', C.B.const(ran))
    obs.append(ob_dict(ob))
    return {'obligations': obs, 'candidates': cands, 'paths': 1}


def job_f32range(job, seed):
    """Single-precision wavelengths: every value the drop computation stores in float32 (the casts and the in-place products
    lambda^2, lambda^2 * constant, ... * L2^2) is zero or a normal float32 number for wavelengths 0.1..100 angstrom, flight
    paths 0.1..1000 m and every unit choice of the grid - an intermediate that underflows makes the drop vanish silently."""
    entry = job
    import numpy as np
    from symex import core as C
    from symex import loader
    from symsc import variable as V
    from .symutil import f32_range_obligations, fresh_run, sym_unit

    sc = loader.install_shim()
    bl = loader.load('conversion.beamline')
    fresh_run()
    obs, cands = [], []
    tag = f'f32range[{entry}]'
    case = {'kind': 'f32range', 'entry': entry}
    uL, uW = sym_unit('L', 'm'), sym_unit('W', 'm')
    L2 = C.sym_var('L2', sign='+')

    def vecv(c, unit):
        a = np.empty((3,), dtype=object)
        for i in range(3):
            a[i] = C.R.lift(c[i])
        return V.Variable(_arr=a, dims=(), unit=unit, dtype=V.DType.vector3)

    b1 = vecv([0, 0, 10], uL)
    b2 = vecv([L2 * Fraction(3, 5), 0, L2 * Fraction(4, 5)], uL)
    g = vecv([0, -Fraction(980665, 100000), 0], V.parse_unit('m/s**2'))
    lam = V.Variable(dims=(), values=C.sym_var('lam', sign='+'), unit=uW, dtype='float32')
    V.F32_LOG.clear()
    V.F32_OPS_LOG.clear()
    C.CTX.fork_timeout_ms = 3000
    real_tt = bl.two_theta
    bl.two_theta = lambda *, incident_beam, scattered_beam: sc.scalar(C.sym_var('ANGLE'), unit='rad', dtype='float32')
    try:
        paths = C.explore(lambda: getattr(bl, entry)(incident_beam=b1, scattered_beam=b2, wavelength=lam, gravity=g), max_paths=8)
    finally:
        bl.two_theta = real_tt
    terms = list(V.F32_LOG) + list(V.F32_OPS_LOG)
    o2, bad, notes = f32_range_obligations(tag, terms, {'sigma_L': 'length', 'sigma_W': 'wavelength'},
                                           {'lam': (Fraction(1, 10**11), Fraction(1, 10**8), 'sigma_W'), 'L2': (Fraction(1, 10), Fraction(1000), 'sigma_L')})
    obs += [ob_dict(o) for o in o2]
    ob = C.prove(f'{tag}: explored ({len(paths)} paths, {len(terms)} single-precision values, {len(o2)} range-checked)', C.B.const(len(o2) >= 2 and any(p.exc is None and not p.inconclusive for p in paths)))
    obs.append(ob_dict(ob))
    for term, units in bad:
        cands.append(('C04:float32-range', {**case, 'units': units}, f'{term} is subnormal / zero / out of range in float32 for units {units}'))
    return {'obligations': obs, 'candidates': cands, 'paths': len(paths), 'notes': notes}


def job_limits(job, seed):
    """(vi) limits and monotonic sign from the construction (abstract lemma over p=b2.b1^, q=b2.ey, n=|b2|^2, delta)."""
    from symex import core as C
    from .symutil import fresh_run

    fresh_run()
    obs = []
    p_, q, n, d = C.sym_var('p'), C.sym_var('q', sign='+'), C.sym_var('n', sign='+'), C.sym_var('delta', sign='+')
    # |b2'|^2 = n + 2 delta q + delta^2 ;  b2'.b1^ = p (ey perpendicular to a horizontal b1)
    n2 = n + 2 * d * q + d * d
    ass = [p_ > 0, p_ * p_ <= n]
    ob = C.prove('limits:cos^2 decreases for detectors above a horizontal beam (forward scattering)', p_ * p_ * n > p_ * p_ * n2 - 0 * n, assumptions=ass)
    # cos'(=p/|b2'|) < cos(=p/|b2|)  <=>  p^2/n2 < p^2/n  <=>  n < n2
    ob = C.prove('limits:corrected angle > gravity-free angle (q>0, delta>0, p>0)', n2 > n, assumptions=ass)
    obs.append(ob_dict(ob))
    d0 = C.R.lift(0)
    ob = C.prove('limits:delta=0 (lambda=0 or g->0) gives |b2p|^2=|b2|^2', (n + 2 * d0 * q + d0 * d0) == n)
    obs.append(ob_dict(ob))
    return {'obligations': obs, 'candidates': [], 'paths': 1}


def run(chk):
    from symex import loader

    loader.install_shim()
    bl = loader.load('conversion.beamline')
    chk.functions = loader.describe_exprs(['bl.scattering_angles_with_gravity', 'bl._scattering_angles_with_gravity_generic', 'bl._scattering_angles_with_gravity_orthogonal_coords', 'bl._drop_due_to_gravity', 'bl.beam_aligned_unit_vectors', 'bl.scattering_angle_in_yz_plane'], {**globals(), **locals()})
    dts = ['float64', 'float32'] if chk.tier == 'thorough' else ['float64']
    run_jobs(chk, job_generic, dts + (['float32'] if chk.tier != 'thorough' else []))
    run_jobs(chk, job_basis, [0])
    from . import shimval
    shimval.validate(chk, 'gravity', 40 if chk.tier == 'quick' else 240)
    run_jobs(chk, job_orth, [(d, v) for d in ['float64', 'float32'] for v in ('orth', 'refl')])
    run_jobs(chk, job_refl_guard, [0])
    run_jobs(chk, job_alias, [(e, g_, u) for e in ('scattering_angles_with_gravity', 'scattering_angle_in_yz_plane') for g_ in ('perpendicular', 'tilted') for u in ('m', 'cm')
                              if not (e == 'scattering_angle_in_yz_plane' and g_ == 'tilted') and not (g_ == 'tilted' and u == 'cm')])
    run_jobs(chk, job_f32range, ['scattering_angles_with_gravity', 'scattering_angle_in_yz_plane'])
    run_jobs(chk, job_limits, [0])
    chk.bounds = {'shapes': 'scalar operands (kernels element-wise)', 'orientation': 'b1, b2, g arbitrary real vectors (generic path); '
                  'b1 = g x w for the perpendicular case (all b1 with g.b1 = 0)', 'wavelength': '>= 0, float32/float64, symbolic unit scale'}
    chk.stubs = ['scipp -> symsc', 'two_theta replaced by a recorder on the generic path (its semantics is C03)']
    chk.axioms = ['atan2 identified up to a common positive factor of its arguments', 'cos(2 atan2(y,x)) = (x^2-y^2)/(x^2+y^2)',
                  'h, m_n arbitrary positive reals']
    chk.assumptions = ['|b1|,|b2|,|g| > 0', 'tilts below the 1e-10 dispatch threshold but non-zero use the perpendicular formula: O(1e-10) deviation tolerated',
                       'binned wavelength is covered by C06', 'monotonicity claimed for forward scattering (b2.b1 > 0)']


def replay_real(case):
    import mpmath as mp
    import numpy as np
    import scipp as sc
    from scippneutron.conversion import beamline as rb

    mp.mp.dps = 40
    rng = np.random.default_rng(1)
    h = mp.mpf(float(sc.constants.h.value))
    mn = mp.mpf(float(sc.constants.m_n.value))
    bad = []

    def M(v):
        return [mp.mpf(float(t)) for t in v]

    def dot(a, b):
        return sum(x * y for x, y in zip(a, b, strict=True))

    def oracle(b1, b2, g, lam_m):
        b1, b2, g = M(b1), M(b2), M(g)
        gn = mp.sqrt(dot(g, g))
        ey = [-t / gn for t in g]
        z = [a - dot(b1, ey) * e for a, e in zip(b1, ey, strict=True)]
        zn = mp.sqrt(dot(z, z))
        ez = [t / zn for t in z]
        ex = [ey[1] * ez[2] - ey[2] * ez[1], ey[2] * ez[0] - ey[0] * ez[2], ey[0] * ez[1] - ey[1] * ez[0]]
        delta = gn * mn * mn * lam_m ** 2 * dot(b2, b2) / (2 * h * h)
        b2p = [a + delta * e for a, e in zip(b2, ey, strict=True)]
        n1 = mp.sqrt(dot(b1, b1))
        n2 = mp.sqrt(dot(b2p, b2p))
        u = [t / n1 for t in b1]
        v = [t / n2 for t in b2p]
        y = mp.sqrt(sum((a - b) ** 2 for a, b in zip(u, v, strict=True)))
        x = mp.sqrt(sum((a + b) ** 2 for a, b in zip(u, v, strict=True)))
        return 2 * mp.atan2(y, x), mp.atan2(dot(b2p, ey), dot(b2p, ex)), mp.atan2(abs(dot(b2p, ey)), dot(b2p, ez))

    if case.get('kind') == 'f32range':
        # single-precision wavelengths over the unit grid against the same call in double precision
        f = getattr(rb, case['entry'])
        import itertools as it
        for lu, wu in it.product(['m', 'mm', 'km', 'angstrom'], ['angstrom', 'nm', 'm']):
            b1 = sc.vector([0.0, 0.0, 10.0], unit='m').to(unit=lu)
            b2 = sc.vectors(dims=['det'], values=[[0.3, 0.4, 5.0], [-1.0, 0.2, 3.0]], unit='m').to(unit=lu)
            g = sc.vector([0.0, -9.80665, 0.0], unit='m/s^2')
            lam64 = sc.array(dims=['wavelength'], values=[4.0, 12.0, 30.0], unit='angstrom').to(unit=wu)
            try:
                r32 = f(incident_beam=b1, scattered_beam=b2, wavelength=lam64.astype('float32'), gravity=g)
                r64 = f(incident_beam=b1, scattered_beam=b2, wavelength=lam64, gravity=g)
            except Exception as e:  # noqa: BLE001
                bad.append(f'beams in {lu}, wavelength in {wu}: raises {type(e).__name__}')
                continue
            for key in (['two_theta', 'phi'] if isinstance(r32, dict) else [None]):
                a32 = (r32[key] if key else r32).values.astype('float64')
                a64 = (r64[key] if key else r64).values
                if not np.allclose(a32, a64, rtol=0, atol=3e-6):
                    bad.append(f'beams in {lu}, wavelength in {wu} (float32): {key or "angle"} {a32.ravel()[:3].tolist()} vs {a64.ravel()[:3].tolist()} in double precision')
                    break
            if len(bad) > 2:
                break
        return {'reproduced': bool(bad), 'detail': '; '.join(bad[:2])[:600]}
    if case.get('kind') == 'alias':
        f = getattr(rb, case['entry'])
        bu = case['beam_unit']
        lam_unit = {'m': 'm', 'cm': '10*m'}[bu]
        for trial in range(6):
            g = np.array([0.0, -9.81, 0.0])
            b1 = np.array([0.0, 0.0, 12.0]) if case['geometry'] == 'perpendicular' else np.array([0.0, 0.4, 12.0])
            b2 = rng.normal(size=(3, 3)) * 3 + [0, 0, 4.0]
            for dt_ in ('float64', 'float32'):
                args = dict(incident_beam=sc.vector(b1, unit='m').to(unit=bu), scattered_beam=sc.vectors(dims=['det'], values=b2, unit='m').to(unit=bu) if trial % 2 else sc.vector(b2[0], unit='m').to(unit=bu),
                            wavelength=sc.array(dims=['wavelength'], values=[1.5e-10, 4e-10], unit='m').to(unit=lam_unit).astype(dt_), gravity=sc.vector(g, unit='m/s^2'))
                keep = {k: v.copy() for k, v in args.items()}
                try:
                    first = f(**args)
                except Exception as e:  # noqa: BLE001
                    bad.append(f'raises {type(e).__name__}: {e}'[:200])
                    continue
                for k, v in args.items():
                    if not sc.identical(v, keep[k]):
                        bad.append(f'{case["entry"]}: argument {k} ({dt_}, given in {v.unit if k != "wavelength" else lam_unit}) was modified: {keep[k].values.tolist()} {keep[k].unit} -> {v.values.tolist()} {v.unit}')
                if bad:
                    break
            if bad:
                break
        return {'reproduced': bool(bad), 'detail': '; '.join(bad[:2])[:600]}
    kind = case.get('kind', 'generic')
    dt = case.get('dt_lam', 'float64')
    tol = 1e-5 if dt == 'float32' else 1e-9
    for trial in range(200):
        g = np.array([0.0, -9.81, 0.0]) if trial % 2 == 0 else rng.normal(size=3) * 10
        gn = g / np.linalg.norm(g)
        # horizontal beam, then tilt
        w = rng.normal(size=3)
        hb = np.cross(g, w)
        hb = hb / np.linalg.norm(hb) * rng.uniform(1, 50)
        tilt = 0.0 if (kind not in ('generic', 'refl-guard') or trial % 5 == 0) else 10 ** rng.uniform(-9, 0)
        b1 = hb * np.cos(tilt) - gn * np.linalg.norm(hb) * np.sin(tilt)
        if kind in ('orth', 'refl') and trial % 2 == 0:
            b1 = np.array([0.0, 0.0, rng.uniform(1, 50)])
        b2 = rng.normal(size=3) * rng.uniform(0.5, 10)
        if kind == 'generic' and trial % 4 == 1:
            # detector at beam height: scattered beam perpendicular to gravity
            b2 = np.cross(g, rng.normal(size=3))
            b2 = b2 / np.linalg.norm(b2) * rng.uniform(0.5, 10)
        lam = rng.uniform(0.0, 100.0)
        lamv = sc.scalar(lam, unit='angstrom').astype(dt)
        lam_m = mp.mpf(float(lamv.value)) * mp.mpf('1e-10')
        args = dict(incident_beam=sc.vector(b1, unit='m'), scattered_beam=sc.vector(b2, unit='m'), wavelength=lamv, gravity=sc.vector(g, unit='m/s^2'))
        keep = {k: v.copy() for k, v in args.items()}
        tt, phi, gam = oracle(b1, b2, g, lam_m)
        try:
            if kind == 'refl' or kind == 'refl-guard':
                if abs(np.dot(g, b1)) > 1e-10 * np.linalg.norm(g):
                    try:
                        rb.scattering_angle_in_yz_plane(**args)
                        bad.append('non-perpendicular beam accepted')
                    except ValueError:
                        pass
                    continue
                out = rb.scattering_angle_in_yz_plane(**args)
                if abs(mp.mpf(float(out.value)) - gam) > tol:
                    bad.append(f'gamma {out.value} vs {mp.nstr(gam, 12)}')
            else:
                out = rb.scattering_angles_with_gravity(**args)
                e1 = abs(mp.mpf(float(out['two_theta'].value)) - tt)
                e2 = abs(mp.mpf(float(out['phi'].value)) - phi)
                if e1 > tol:
                    bad.append(f'two_theta {out["two_theta"].value!r} vs {mp.nstr(tt, 12)} (tilt={tilt:.3g}, lambda={lam:.3g} A)')
                if e2 > tol and abs(e2 - 2 * mp.pi) > tol:
                    bad.append(f'phi {out["phi"].value!r} vs {mp.nstr(phi, 12)}')
                if str(out['two_theta'].dtype) != dt:
                    bad.append(f'dtype {out["two_theta"].dtype}')
        except Exception as e:  # noqa: BLE001
            bad.append(f'raises {type(e).__name__}: {e}')
        for k, v in args.items():
            if not sc.identical(v, keep[k]):
                bad.append(f'argument {k} modified')
        if len(bad) > 5:
            break
    return {'reproduced': bool(bad), 'detail': '; '.join(bad[:3])}
