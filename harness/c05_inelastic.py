"""C05 - inelastic energy transfer: energy conservation, NaN exactly for unphysical times."""
from __future__ import annotations

import itertools
from fractions import Fraction

from .common import ob_dict, run_jobs

MODES = {
    'direct': ('energy_transfer_direct_from_tof', 'incident_energy', 'L1', 'L2'),
    'indirect': ('energy_transfer_indirect_from_tof', 'final_energy', 'L2', 'L1'),
}


def _setup(mode, dts, tof_term=None, shapes=None):
    """Symbolic operands.  dts = (tof, L1, L2, energy) dtypes."""
    from symex import core as C
    from .symutil import sym_scalar, sym_unit, sym_array

    kname, earg, fixed_leg, free_leg = MODES[mode]
    uE, uT, u1, u2 = (sym_unit('E', 'J'), sym_unit('t', 's'), sym_unit('L1', 'm'), sym_unit('L2', 'm'))
    L1 = sym_scalar('L1', u1, dts[1])
    L2 = sym_scalar('L2', u2, dts[2])
    return kname, earg, uE, uT, L1, L2


def job(j, seed):
    mode, dts, what, *rest = j
    via_graph = bool(rest and rest[0] == 'graph')
    import numpy as np
    from symex import core as C
    from symex import loader
    from symsc.variable import Variable
    from .symutil import fresh_run, si_value, MN, sym_scalar, sym_array

    loader.install_shim()
    tof = loader.load('conversion.tof')
    fresh_run()
    kname, earg, uE, uT, L1, L2 = _setup(mode, dts)
    f = getattr(tof, kname)
    if via_graph:
        # what convert() uses: the 'energy_transfer' node of the inelastic graph (same contract as the kernel)
        gt = loader.load('conversion.graph.tof')
        f = (gt.direct_inelastic if mode == 'direct' else gt.indirect_inelastic)('tof')['energy_transfer']
    obs, cands = [], []
    tag = f'{mode}[{",".join(dts)}]' + (' via graph' if via_graph else '')
    case = {'mode': mode, 'dtypes': list(dts), 'via_graph': via_graph}
    mn = MN()
    s1, s2, sE, sT = (C.R(u.scale_rat()) for u in (L1.unit, L2.unit, uE, uT))
    exp_dt = 'float32' if dts[0] == 'float32' and dts[3] == 'float32' else 'float64'
    npaths = 0
    if what == 'conservation':
        # neutron flies L1 at vi, L2 at vf
        vi = C.sym_var('vi', sign='+')
        vf = C.sym_var('vf', sign='+')
        with C.oracle():
            Ei_si = mn * vi * vi / 2
            Ef_si = mn * vf * vf / 2
            t_si = si_value(L1) / vi + si_value(L2) / vf
            E_fixed = Ei_si if mode == 'direct' else Ef_si
            en = Variable(dims=(), values=E_fixed / sE, unit=uE, dtype=dts[3])
            tv = Variable(dims=(), values=t_si / sT, unit=uT, dtype=dts[0])
        paths = C.explore(lambda: f(tof=tv, L1=L1, L2=L2, **{earg: en}))
        npaths = len(paths)
        for p in paths:
            if p.inconclusive or p.exc is not None:
                obs.append({'name': f'{tag}:conservation:runs', 'status': 'inconclusive' if p.inconclusive else 'violated',
                            'detail': str(p.inconclusive or repr(p.exc)), 't': 0})
                if p.exc is not None:
                    cands.append((f'C05:{mode}:raises', case, repr(p.exc)))
                continue
            out = p.value
            v = out.value
            ob = C.prove(f'{tag}:unit', C.B.const(out.unit == uE), pc=p.pc)
            obs.append(ob_dict(ob))
            if ob.status != 'discharged':
                cands.append((f'C05:{mode}:unit', case, f'unit {out.unit}'))
            ob = C.prove(f'{tag}:dtype', C.B.const(out.dtype.name == exp_dt), pc=p.pc)
            obs.append(ob_dict(ob))
            if ob.status != 'discharged':
                cands.append((f'C05:{mode}:dtype', case, f'dtype {out.dtype.name} expected {exp_dt}'))
            if v.special:
                # a physical neutron (t > t0) must not give NaN/inf: path must be infeasible
                ob = C.prove(f'{tag}:conservation:no-special', C.FALSE, pc=p.pc)
                obs.append(ob_dict(ob))
                if ob.status != 'discharged':
                    cands.append((f'C05:{mode}:conservation', case, f'physical neutron yields {v.special}'))
                continue
            if out.unit.dim != uE.dim:
                continue
            ob = C.prove_zero(f'{tag}:conservation:Ei-Ef', v * C.R(out.unit.scale_rat()) - (Ei_si - Ef_si), pc=p.pc)
            obs.append(ob_dict(ob))
            if ob.status == 'violated':
                cands.append((f'C05:{mode}:conservation', case, 'result != Ei - Ef'))
    elif what == 'boundary':
        E = sym_scalar('E', uE, dts[3])
        tv = sym_scalar('t', uT, dts[0])
        with C.oracle():
            fixedL = L1 if mode == 'direct' else L2
            freeL = L2 if mode == 'direct' else L1
            t0_si = si_value(fixedL) * C.rsqrt(mn / (2 * si_value(E)))
            phys = si_value(tv) - t0_si  # > 0 physical
        paths = C.explore(lambda: f(tof=tv, L1=L1, L2=L2, **{earg: E}))
        npaths = len(paths)
        kinds = set()
        for k, p in enumerate(paths):
            if p.inconclusive or p.exc is not None:
                obs.append({'name': f'{tag}:boundary:runs', 'status': 'inconclusive' if p.inconclusive else 'violated',
                            'detail': str(p.inconclusive or repr(p.exc)), 't': 0})
                if p.exc is not None:
                    cands.append((f'C05:{mode}:raises', case, repr(p.exc)))
                continue
            v = p.value.value
            if v.special == 'nan':
                kinds.add('nan')
                ob = C.prove(f'{tag}:boundary:path{k}:NaN=>t<=t0', phys <= 0, pc=p.pc)
                obs.append(ob_dict(ob))
                if ob.status == 'violated':
                    cands.append((f'C05:{mode}:nan-boundary', case, 'NaN for a physical time'))
            elif v.special:
                # infinite result: must be unreachable for finite inputs
                ob = C.prove(f'{tag}:boundary:path{k}:never-infinite', C.FALSE, pc=p.pc)
                obs.append(ob_dict(ob))
                if ob.status != 'discharged':
                    cands.append((f'C05:{mode}:infinite', case, f'result {v.special} reachable'))
            else:
                kinds.add('finite')
                ob = C.prove(f'{tag}:boundary:path{k}:finite=>t>t0', phys > 0, pc=p.pc)
                obs.append(ob_dict(ob))
                if ob.status == 'violated':
                    cands.append((f'C05:{mode}:nan-boundary', case, 'finite value for an unphysical time'))
                with C.oracle():
                    dt_si = phys
                    if mode == 'direct':
                        expect = si_value(E) - mn * si_value(freeL) ** 2 / (2 * dt_si * dt_si)
                    else:
                        expect = mn * si_value(freeL) ** 2 / (2 * dt_si * dt_si) - si_value(E)
                if p.value.unit.dim == uE.dim:
                    ob = C.prove_zero(f'{tag}:boundary:path{k}:formula', v * C.R(p.value.unit.scale_rat()) - expect, pc=p.pc)
                    obs.append(ob_dict(ob))
                    if ob.status == 'violated':
                        cands.append((f'C05:{mode}:formula', case, 'finite branch != documented formula'))
        ob = C.prove(f'{tag}:boundary:both-outcomes-reachable', C.B.const(kinds == {'nan', 'finite'}))
        obs.append(ob_dict(ob))
        if all(d == 'float64' for d in dts[1:]):
            # t0 is fixed by double-precision operands only: t - t0 (which decides NaN) must be evaluated in double precision
            # also for single-precision arrival times, i.e. the recorded operation sequence has no single-precision rounding
            n32s = sorted({p.value._rnd[1] for p in paths if p.value is not None})
            ob = C.prove(f'{tag}:boundary:decided in double precision when t0 has double-precision operands (single roundings: {n32s})', C.B.const(n32s in ([0], [])))
            obs.append(ob_dict(ob))
            if ob.status != 'discharged':
                cands.append((f'C05:{mode}:boundary-precision', case, f'{n32s[-1]} single-precision roundings on the way to a float64 result whose t0 is known in double precision'))
    elif what == 'f32range':
        # values the kernel materialises in single precision (unit-scaled constants, per-pixel scale factors): normal float32
        # numbers for EVERY unit combination of the quantifier (micro-eV..J, ns..s, angstrom..km) and inputs in their ranges
        from symsc import variable as V
        from .symutil import f32_range_obligations
        E = sym_scalar('E', uE, dts[3])
        tv = sym_scalar('t', uT, dts[0])
        V.F32_LOG.clear()
        paths = C.explore(lambda: f(tof=tv, L1=L1, L2=L2, **{earg: E}))
        npaths = len(paths)
        terms = list(V.F32_LOG)
        meV = Fraction(1602176634, 10**31)
        o2, bad, notes = f32_range_obligations(
            f'{tag}:f32range', terms, {'sigma_E': 'energy', 'sigma_t': 'time', 'sigma_L1': 'length', 'sigma_L2': 'length'},
            {'E': (meV / 1000, meV * 10**4, 'sigma_E'), 'L1': (Fraction(1, 10), 1000, 'sigma_L1'), 'L2': (Fraction(1, 10), 1000, 'sigma_L2')})
        obs += [ob_dict(o) for o in o2]
        ob = C.prove(f'{tag}:f32range:some single-precision value is materialised and checked', C.B.const(len(o2) >= 1 or any(d != 'float32' for d in dts)))
        obs.append(ob_dict(ob))
        for term, units in bad:
            cands.append((f'C05:{mode}:float32-range', {**case, 'units': units}, f'{term} is subnormal / zero / out of range in float32 for units {units}'))
    elif what == 'overflow':
        # |scale/delta^2| below the overflow threshold when delta >= one spacing of t0 (interval obligation)
        p_bits = 24 if exp_dt == 'float32' else 53
        fmax = Fraction(2) ** 127 if exp_dt == 'float32' else Fraction(2) ** 1023
        E = C.sym_var('Emev', sign='+')  # energy in meV
        l1 = C.sym_var('l1', sign='+')
        l2 = C.sym_var('l2', sign='+')
        r = C.sym_var('ratio', sign='+')  # (L_free/L_fixed)^2 * E * 2^(2p)
        ass = [E >= Fraction(1, 1000), E <= 10**4, l1 >= Fraction(1, 10), l1 <= 1000, l2 >= Fraction(1, 10), l2 <= 1000,
               r * l1 * l1 == l2 * l2 * E * (Fraction(2) ** (2 * p_bits))]
        # worst unit: micro-eV (1e3 per meV)
        ob = C.prove(f'{tag}:overflow-bound', r * 1000 < fmax, assumptions=ass)
        obs.append(ob_dict(ob))
        npaths = 1
    return {'obligations': obs, 'candidates': cands, 'paths': npaths}


def job_canary(j, seed):
    from symex import core as C
    from symex import loader
    from .symutil import fresh_run, si_value, MN, sym_scalar

    loader.install_shim()
    tof = loader.load('conversion.tof')
    fresh_run()
    kname, earg, uE, uT, L1, L2 = _setup('direct', ['float64'] * 4)
    E = sym_scalar('E', uE)
    tv = sym_scalar('t', uT)
    paths = C.explore(lambda: tof.energy_transfer_direct_from_tof(tof=tv, L1=L1, L2=L2, incident_energy=E))
    obs = []
    with C.oracle():
        t0_si = si_value(L1) * C.rsqrt(MN() / (2 * si_value(E)))
    refuted = False
    for p in paths:
        if p.value is not None and p.value.value.special == 'nan':
            ob = C.prove('canary', si_value(tv) - t0_si < 0, pc=p.pc)
            refuted = refuted or ob.status == 'violated'
    obs.append({'name': 'canary:NaN=>t<t0 (strict; must be refuted on some NaN path)', 'status': 'discharged' if refuted else 'inconclusive', 't': 0})
    return {'obligations': obs, 'candidates': [], 'paths': len(paths)}


def run(chk):
    from symex import loader

    loader.install_shim()
    tof = loader.load('conversion.tof')
    chk.functions = loader.describe_exprs(['tof._energy_transfer_t0', 'tof.energy_transfer_direct_from_tof', 'tof.energy_transfer_indirect_from_tof', 'tof._energy_constant', 'tof._common_dtype'], {**globals(), **locals()})
    dt_grid = [('float64',) * 4, ('float32',) * 4, ('float32', 'float64', 'float64', 'float64'), ('float64', 'float64', 'float64', 'float32')]
    if chk.tier == 'thorough':
        dt_grid = list(itertools.product(['float64', 'float32'], repeat=4))
    jobs = [(m, d, w) for m in MODES for d in dt_grid for w in ('conservation', 'boundary')]
    jobs += [(m, d, 'overflow') for m in MODES for d in (('float64',) * 4, ('float32',) * 4)]
    jobs += [(m, d, 'f32range') for m in MODES for d in dt_grid if 'float32' in d]
    jobs += [(m, d, w, 'graph') for m in MODES for d in (dt_grid if chk.tier == 'thorough' else [('float64',) * 4]) for w in ('conservation', 'boundary')]
    run_jobs(chk, job, jobs)
    from . import shimval
    shimval.validate(chk, 'inelastic', 40 if chk.tier == 'quick' else 1000)
    run_jobs(chk, job_canary, [0])
    chk.bounds = {'shapes': 'scalar operands (kernels are element-wise)', 'dtypes': 'float64/float32 per operand',
                  'units': 'symbolic positive scale factor per operand (covers all units of the right dimension)',
                  'overflow': 'Ei in 1e-3..1e4 meV, L in 0.1..1e3 m, t - t0 >= one float spacing of t0'}
    chk.stubs = ['scipp -> symsc incl. where (forks per element), sqrt, astype']
    chk.axioms = ['m_n arbitrary positive real', 'exact reals; NaN/inf as explicit special values with IEEE division-by-zero semantics']
    chk.assumptions = ['finite positive inputs', 'float rounding of t0 itself is not modelled: boundary is exact over the reals']


def replay_real(case):
    import mpmath as mp
    import numpy as np
    import scipp as sc
    from scippneutron.conversion import tof as rt

    mp.mp.dps = 40
    mode = case['mode']
    dts = case['dtypes']
    kname, earg, fixed, free = MODES[mode]
    f = getattr(rt, kname)
    if case.get('via_graph'):
        from scippneutron.conversion.graph import tof as gt
        f = (gt.direct_inelastic if mode == 'direct' else gt.indirect_inelastic)('tof')['energy_transfer']
    mn = mp.mpf(float(sc.constants.m_n.value))
    meV = mp.mpf(float(sc.scalar(1.0, unit='meV').to(unit='J').value))
    rng = np.random.default_rng(case.get('seed', 0))
    bad = []
    exp_dt = 'float32' if dts[0] == 'float32' and dts[3] == 'float32' else 'float64'
    tol = 1e-4 if 'float32' in dts else 1e-9
    unit_cells = [('meV', 'us', 'm', 'm'), ('J', 's', 'mm', 'km'), ('eV', 'ms', 'cm', 'm'), ('ueV', 'ns', 'm', 'mm')]
    nper = 6
    if case.get('units') is not None:
        # float32-range candidate: the whole unit grid of the quantifier, the solver's cell first
        import itertools as it
        u = case['units']
        first = (u.get('sigma_E', 'J'), u.get('sigma_t', 's'), u.get('sigma_L1', 'm'), u.get('sigma_L2', 'm'))
        unit_cells = [first] + list(it.product(['ueV', 'meV', 'eV', 'J'], ['ns', 'us', 'ms', 's'], ['angstrom', 'nm', 'mm', 'm', 'km'], ['angstrom', 'nm', 'mm', 'm', 'km']))
        nper = 1
    for eunit, tunit, l1u, l2u in unit_cells:
        if len(bad) > 3:
            break
        for _ in range(nper):
            Ei = float(np.exp(rng.uniform(np.log(1e-3), np.log(1e4))))
            Ef = float(np.exp(rng.uniform(np.log(1e-3), np.log(1e4))))
            l1 = float(np.exp(rng.uniform(np.log(0.1), np.log(1e3))))
            l2 = float(np.exp(rng.uniform(np.log(0.1), np.log(1e3))))
            def var(x_si, unit, si_unit, dt):
                v = sc.scalar(x_si, unit=si_unit).to(unit=unit).astype(dt)
                return v
            L1 = var(l1, l1u, 'm', dts[1])
            L2 = var(l2, l2u, 'm', dts[2])
            E_fixed = Ei if mode == 'direct' else Ef
            En = var(E_fixed, eunit, 'meV', dts[3])
            # exact stored values
            def si(v, base):
                return mp.mpf(float(v.value)) * mp.mpf(float(sc.scalar(1.0, unit=v.unit).to(unit=base).value))
            l1s, l2s = si(L1, 'm'), si(L2, 'm')
            Efix = si(En, 'J')
            other = mp.mpf(Ef if mode == 'direct' else Ei) * meV
            vi = mp.sqrt(2 * (Efix if mode == 'direct' else other) / mn)
            vf = mp.sqrt(2 * (other if mode == 'direct' else Efix) / mn)
            t_si = l1s / vi + l2s / vf
            T = var(float(t_si), tunit, 's', dts[0])
            out = f(tof=T, L1=L1, L2=L2, **{earg: En})
            if out.unit != En.unit:
                bad.append(f'unit {out.unit} != {En.unit}')
                break
            if str(out.dtype) != exp_dt:
                bad.append(f'dtype {out.dtype} != {exp_dt}')
                break
            ts = si(T, 's')
            t0 = (l1s / vi) if mode == 'direct' else (l2s / vf)
            fl = l2s if mode == 'direct' else l1s
            expect = (Efix - mn * fl ** 2 / (2 * (ts - t0) ** 2)) if mode == 'direct' else (mn * fl ** 2 / (2 * (ts - t0) ** 2) - Efix)
            got = si(out, 'J')
            cond = float((ts - t0) / ts)  # conditioning of t - t0
            scale_e = abs(expect) + Efix
            if cond > 1e-3 and abs(got - expect) / scale_e > tol / cond:
                bad.append(f'value {mp.nstr(got, 8)} vs {mp.nstr(expect, 8)} ({eunit},{tunit},{l1u},{l2u})')
            # boundary: bisection for the largest NaN time
            lo, hi = 0.0, float(T.value)
            def isnan(tv):
                o = f(tof=sc.scalar(tv, unit=tunit).astype(dts[0]), L1=L1, L2=L2, **{earg: En})
                return bool(np.isnan(o.value)), o
            if not isnan(lo)[0] or isnan(hi)[0]:
                bad.append(f'NaN region not below the physical time ({eunit},{tunit},{l1u},{l2u}) lo={lo!r} hi={hi!r} {isnan(lo)[1].value} {isnan(hi)[1].value}')
                continue
            npdt = np.float32 if dts[0] == 'float32' else np.float64
            lo, hi = npdt(lo), npdt(hi)
            while True:
                mid = npdt((lo + hi) / 2)
                if mid == lo or mid == hi:
                    break
                if isnan(float(mid))[0]:
                    lo = mid
                else:
                    hi = mid
            tstar = mp.mpf(float(lo)) * mp.mpf(float(sc.scalar(1.0, unit=tunit).to(unit='s').value))
            rel = abs(tstar - t0) / t0
            if rel > (1e-5 if 'float32' in dts else 1e-12):
                bad.append(f'NaN boundary at {mp.nstr(tstar, 12)} but t0 = {mp.nstr(t0, 12)}')
            if dts[0] == 'float32' and all(d == 'float64' for d in dts[1:]):
                # t0 is fixed by double-precision operands: among single-precision arrival times the boundary lies between
                # the two neighbours of t0 (largest NaN time <= t0 < smallest finite time, up to double rounding of t0)
                thi = mp.mpf(float(hi)) * mp.mpf(float(sc.scalar(1.0, unit=tunit).to(unit='s').value))
                if tstar > t0 * (1 + mp.mpf('1e-12')) or thi < t0 * (1 - mp.mpf('1e-12')):
                    bad.append(f'float32 arrival times: NaN up to {mp.nstr(tstar, 15)}, finite from {mp.nstr(thi, 15)}, but t0 = {mp.nstr(t0, 15)} ({eunit},{tunit})')
            o = isnan(float(hi))[1]
            if np.isinf(o.value):
                bad.append(f'infinite result just above the boundary (t={float(hi)!r} {tunit})')
    return {'reproduced': bool(bad), 'detail': '; '.join(bad[:3])}
