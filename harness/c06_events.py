"""C06 - event-mode conversion equals dense conversion (per event, with its pixel's geometry)."""
from __future__ import annotations

import itertools

from . import kin
from .common import ob_dict, run_jobs

SIZES = [2, 0, 1]  # events per bin (uneven, with an empty bin)


def _load():
    from symex import loader
    from symsc.npshim import NPShim

    sc = loader.install_shim()
    tof = loader.load('conversion.tof')
    tof.np = NPShim()
    bl = loader.load('conversion.beamline')
    utils = loader.load('_utils')
    return sc, tof, bl, utils


def _binned(name, unit, dtype, sizes=SIZES, grid=None):
    """Binned variable over dims ('spectrum',) (or a 2x2 grid) with symbolic event values."""
    import numpy as np
    from symex import core as C
    from symsc import variable as V
    from symsc.bins import make_binned

    contents = []
    is_int = dtype.startswith('int')
    shape = (len(sizes),) if grid is None else grid
    flat_sizes = sizes if grid is None else [sizes[i % len(sizes)] for i in range(int(np.prod(grid)))]
    for b, n in enumerate(flat_sizes):
        a = np.empty((n,), dtype=object)
        for e in range(n):
            a[e] = C.sym_var(f'{name}_{b}_{e}', sign='+', is_int=is_int)
        contents.append(V.Variable(_arr=a, dims=('event',), unit=unit, dtype=V.as_dtype(dtype)))
    dims = ('spectrum',) if grid is None else ('y', 'x')
    return make_binned(contents, dims, shape), contents


def _pixel(name, unit, dtype, n, sign='+'):
    import numpy as np
    from symex import core as C
    from symsc import variable as V

    a = np.empty((n,), dtype=object)
    for i in range(n):
        a[i] = C.sym_var(f'{name}_{i}', sign=sign)
    return V.Variable(_arr=a, dims=('spectrum',), unit=unit, dtype=V.as_dtype(dtype))


def _compare(C, V, tag, obs, cands, case, binned_out, dense_outs, contents_in, arg_bufs, written):
    """binned_out: binned Variable; dense_outs[b]: dense result for bin b."""
    def chk(name, goal, sig):
        ob = C.prove(f'{tag}:{name}', goal, timeout_ms=20000)
        obs.append(ob_dict(ob))
        if ob.status == 'violated':
            cands.append((sig, case, name))

    if binned_out.bins is None:
        chk('result is binned', C.FALSE, 'C06:structure')
        return
    chk('bin grid preserved', C.B.const(binned_out.shape == (len(dense_outs),) or int(__import__('numpy').prod(binned_out.shape)) == len(dense_outs)), 'C06:structure')
    flat = list(binned_out._a.flat)
    for b, (c, d) in enumerate(zip(flat, dense_outs, strict=True)):
        data = c.data if hasattr(c, 'coords') else c
        n = len(contents_in[b])
        chk(f'bin {b}: {n} events in, {n} events out', C.B.const(len(data) == n), 'C06:structure')
        if len(data) != n:
            continue
        chk(f'bin {b}: event unit = dense unit', C.B.const(data.unit == d.unit), 'C06:unit')
        chk(f'bin {b}: event dtype = dense dtype', C.B.const(data.dtype == d.dtype), 'C06:dtype')
        for e in range(n):
            x, y = data.values[e], d.values[e]
            if x.special or y.special:
                goal = C.B.const(x.special == y.special)
            else:
                goal = x == y
            chk(f'bin {b} event {e}: value = dense kernel on (event, pixel geometry)', goal, 'C06:value')
    chk('no input buffer written', C.B.const(not (arg_bufs & written)), 'C06:mutation')


def job_kernel(j, seed):
    kname, ev_dtype, grid = j
    import numpy as np
    from symex import core as C
    from symex import terms as T
    from symsc import variable as V
    from symsc.units import parse_unit
    from .symutil import fresh_run, sym_unit

    sc, tof, bl, utils = _load()
    fresh_run()
    obs, cands = [], []
    tag = f'{kname}[{ev_dtype}{"" if grid is None else ",grid" + str(grid)}]'
    case = {'kind': 'kernel', 'kernel': kname, 'dtype': ev_dtype}
    kinds, oracle, outunit, data_arg = kin.KERNELS[kname]
    nb = len(SIZES) if grid is None else int(np.prod(grid))
    args, contents = {}, None
    pix = {}
    for a, k in kinds.items():
        unit = parse_unit('rad') if k == 'angle' else sym_unit(a, kin.KINDS[k][0])
        if a == data_arg:
            args[a], contents = _binned(a, unit, ev_dtype, grid=grid)
        else:
            if grid is None:
                pv = _pixel(a, unit, 'float64', nb)
            else:
                pv = _pixel(a, unit, 'float64', grid[1])
                pv = pv.rename_dims({'spectrum': 'x'})
            pix[a] = pv
            args[a] = pv
            if k == 'angle':
                for i in range(pv.shape[0]):
                    s = C.rfn('sin', pv.values[i] / 2)
                    at = T.fn_atom_of(s.t)
                    if at is not None:
                        at.sign = '+'
    f = getattr(tof, kname)
    V.WRITE_LOG.clear()
    C.CTX.fork_timeout_ms = 2000
    paths = C.explore(lambda: f(**args))
    p = paths[0]
    if len(paths) != 1 or p.exc is not None or p.inconclusive:
        st = 'inconclusive' if p.inconclusive else 'violated'
        obs.append({'name': f'{tag}:runs on binned data', 'status': st, 'detail': str(p.inconclusive or repr(p.exc))[:300], 't': 0})
        if st == 'violated':
            cands.append(('C06:raises', case, repr(p.exc)[:100]))
        return {'obligations': obs, 'candidates': cands, 'paths': len(paths)}
    written = {b.id for b in V.WRITE_LOG}
    arg_bufs = {v._buf.id for v in args.values()} | {c._buf.id for c in contents}
    # dense reference: the same kernel on each bin's events with that pixel's geometry
    dense = []
    for b in range(nb):
        kw = {}
        for a in kinds:
            if a == data_arg:
                kw[a] = contents[b]
            else:
                pv = pix[a]
                i = b if grid is None else b % grid[1]
                kw[a] = pv[pv.dims[0], i]
        dp = C.explore(lambda kw=kw: f(**kw))
        if dp[0].exc is not None or dp[0].inconclusive:
            obs.append({'name': f'{tag}:dense reference bin {b}', 'status': 'inconclusive', 'detail': str(dp[0].inconclusive or repr(dp[0].exc))[:200], 't': 0})
            return {'obligations': obs, 'candidates': cands, 'paths': 1}
        dense.append(dp[0].value)
    _compare(C, V, tag, obs, cands, case, p.value, dense, contents, arg_bufs, written)
    # "the value the dense formula gives": besides agreeing with the dense kernel, every event value is the documented formula
    # of its own coordinate and its pixel's geometry (in SI), whatever unit and integer / float element type the events have
    from .c01_kinematics import _ops
    o_ = _ops()
    flat_out = list(p.value._a.flat)
    for b in range(nb):
        data = flat_out[b].data if hasattr(flat_out[b], 'coords') else flat_out[b]
        if len(data) != len(contents[b]) or data.unit.dim != dense[b].unit.dim:
            continue
        for e in range(len(contents[b])):
            if C.R.lift(data.values[e]).special:
                continue
            with C.oracle():
                args_si = {}
                for a in kinds:
                    if a == data_arg:
                        args_si[a] = contents[b].values[e] * C.R(contents[b].unit.scale_rat())
                    else:
                        pv = pix[a]
                        i = b if grid is None else b % grid[1]
                        args_si[a] = pv.values[i] * C.R(pv.unit.scale_rat())
                expect = oracle(o_, **args_si)
            ob = C.prove_zero(f'{tag}:bin {b} event {e}: value = documented formula of the event coordinate and the pixel geometry', data.values[e] * C.R(data.unit.scale_rat()) - expect)
            obs.append(ob_dict(ob))
            if ob.status == 'violated':
                cands.append(('C06:formula', case, f'event value of bin {b} is not the documented formula'))
    # elem_unit / elem_dtype read the event buffer
    ob = C.prove(f'{tag}:elem_unit/elem_dtype of the binned operand are those of the events', C.B.const(utils.elem_unit(args[data_arg]) == contents[0].unit and utils.elem_dtype(args[data_arg]) == contents[0].dtype))
    obs.append(ob_dict(ob))
    return {'obligations': obs, 'candidates': cands, 'paths': 1 + nb}


def job_inelastic(j, seed):
    mode, ev_dtype = j
    from symex import core as C
    from symsc import variable as V
    from .symutil import fresh_run, sym_unit

    sc, tof, bl, utils = _load()
    fresh_run()
    obs, cands = [], []
    tag = f'energy_transfer_{mode}[{ev_dtype}]'
    case = {'kind': 'inelastic', 'mode': mode, 'dtype': ev_dtype}
    sizes = [1, 0, 2]
    tb, contents = _binned('tof', sym_unit('t', 's'), ev_dtype, sizes=sizes)
    L1 = V.Variable(dims=(), values=C.sym_var('L1', sign='+'), unit=sym_unit('L1', 'm'), dtype='float64')
    L2 = _pixel('L2', sym_unit('L2', 'm'), 'float64', 3)
    E = V.Variable(dims=(), values=C.sym_var('E', sign='+'), unit=sym_unit('E', 'J'), dtype='float64')
    f = tof.energy_transfer_direct_from_tof if mode == 'direct' else tof.energy_transfer_indirect_from_tof
    earg = 'incident_energy' if mode == 'direct' else 'final_energy'
    V.WRITE_LOG.clear()
    C.CTX.fork_timeout_ms = 2000
    paths = C.explore(lambda: f(tof=tb, L1=L1, L2=L2, **{earg: E}), max_paths=64)
    n = 0
    for k, p in enumerate(paths):
        if p.inconclusive:
            if not p.maybe_infeasible:
                obs.append({'name': f'{tag}:path{k}', 'status': 'inconclusive', 'detail': p.inconclusive[:300], 't': 0})
            continue
        if p.exc is not None:
            obs.append({'name': f'{tag}:path{k}:runs on binned data', 'status': 'violated', 'detail': repr(p.exc)[:300], 't': 0})
            cands.append(('C06:raises', case, repr(p.exc)[:100]))
            continue
        n += 1
        written = {b.id for b in V.WRITE_LOG}
        # dense reference under the same path condition
        C.CTX.exploring = True
        C.CTX.reset_path(p.decisions)
        C.CTX.pc = list(p.pc)
        C.CTX.pos = len(p.decisions)
        try:
            dense = [f(tof=contents[b], L1=L1, L2=L2['spectrum', b], **{earg: E}) for b in range(3)]
            pc2 = list(C.CTX.pc)
        except (C.HarnessError, C._Abort) as e:
            obs.append({'name': f'{tag}:path{k}:dense reference', 'status': 'inconclusive', 'detail': repr(e)[:200], 't': 0})
            continue
        finally:
            C.CTX.exploring = False
        C.CTX.assumptions.extend(pc2)
        try:
            _compare(C, V, f'{tag}:path{k}', obs, cands, case, p.value, dense, contents, {tb._buf.id, L1._buf.id, L2._buf.id, E._buf.id, *[c._buf.id for c in contents]}, written)
        finally:
            del C.CTX.assumptions[-len(pc2):]
    if n == 0:
        obs.append({'name': f'{tag}:some path', 'status': 'inconclusive', 'detail': 'no returning path', 't': 0})
    return {'obligations': obs, 'candidates': cands, 'paths': len(paths)}


def job_gravity(j, seed):
    """Binned wavelength through the gravity-corrected angles: per event = dense."""
    ev_dtype = j
    from symex import core as C
    from symsc import variable as V
    from .symutil import fresh_run, sym_unit
    from .c04_gravity import _inputs

    sc, tof, bl, utils = _load()
    fresh_run()
    obs, cands = [], []
    tag = f'gravity[{ev_dtype}]'
    case = {'kind': 'gravity', 'dtype': ev_dtype}
    uL, uG, uW, b1, b2, g, lam = _inputs(True, 'float64')
    sizes = [2, 0]
    lb, contents = _binned('lam', uW, ev_dtype, sizes=sizes)
    import numpy as np
    # per-pixel scattered beams
    a = np.empty((2, 3), dtype=object)
    for i in range(2):
        for kx, c in enumerate('xyz'):
            a[i, kx] = C.sym_var(f'sb{i}_{c}')
    B2 = V.Variable(_arr=a, dims=('spectrum',), unit=uL, dtype=V.DType.vector3)
    from .symutil import vnorm2
    for i in range(2):
        nn = C.rsqrt(vnorm2([a[i, 0], a[i, 1], a[i, 2]]), nonneg=True)
        C.CTX.assume(nn > 0)
        C.CTX.assume_nonzero(nn)
    V.WRITE_LOG.clear()
    C.CTX.fork_timeout_ms = 3000
    paths = C.explore(lambda: bl.scattering_angles_with_gravity(incident_beam=b1, scattered_beam=B2, wavelength=lb, gravity=g), max_paths=20)
    n = 0
    for k, p in enumerate(paths):
        if p.inconclusive or p.exc is not None:
            if p.exc is not None and isinstance(p.exc, ValueError) and 'parallel' in str(p.exc):
                continue
            if p.inconclusive and (p.maybe_infeasible or 'non-finite' in p.inconclusive):
                continue
            obs.append({'name': f'{tag}:path{k}', 'status': 'inconclusive' if p.inconclusive else 'violated', 'detail': str(p.inconclusive or repr(p.exc))[:300], 't': 0})
            if p.exc is not None:
                cands.append(('C06:raises', case, repr(p.exc)[:100]))
            continue
        n += 1
        written = {b.id for b in V.WRITE_LOG}
        C.CTX.exploring = True
        C.CTX.reset_path(p.decisions)
        C.CTX.pc = list(p.pc)
        C.CTX.pos = len(p.decisions)
        try:
            dense = [bl.scattering_angles_with_gravity(incident_beam=b1, scattered_beam=B2['spectrum', b], wavelength=contents[b], gravity=g) for b in range(2)]
            pc2 = list(C.CTX.pc)
        except (C.HarnessError, C._Abort) as e:
            obs.append({'name': f'{tag}:path{k}:dense reference', 'status': 'inconclusive', 'detail': repr(e)[:200], 't': 0})
            continue
        finally:
            C.CTX.exploring = False
        C.CTX.assumptions.extend(pc2)
        try:
            for key in ('two_theta', 'phi'):
                _compare(C, V, f'{tag}:path{k}:{key}', obs, cands, case, p.value[key], [d[key] for d in dense], contents,
                         {lb._buf.id, b1._buf.id, B2._buf.id, g._buf.id, *[c._buf.id for c in contents]}, written)
        finally:
            del C.CTX.assumptions[-len(pc2):]
    if n == 0:
        obs.append({'name': f'{tag}:some path', 'status': 'inconclusive', 'detail': 'no returning path', 't': 0})
    return {'obligations': obs, 'candidates': cands, 'paths': len(paths)}


LAYOUTS = {
    'tiling': ([0, 2], [2, 5], 5),
    'gap': ([0, 3], [2, 5], 5),             # event 2 belongs to no bin
    'trailing': ([0, 2], [2, 4], 6),        # events 4, 5 unused at the end of the buffer
    'slice': ([1, 3], [3, 4], 7),           # a slice of a larger object: events before, between the end of the slice and the buffer end
    'empty-bin': ([0, 2, 2], [2, 2, 4], 5),
}


def job_convert_layout(j, seed):
    """convert() hands the caller's events to transform_coords unchanged: same bins (begin/end into the same event
    buffer, which need not be tiled by the bins), same weights, variances and event coordinates, same pixel coordinates
    and masks; it returns what transform_coords returns and does not write to its input."""
    layout, origin, target, tof_dtype = j
    import numpy as np
    from symex import core as C
    from symex import loader
    from symsc import variable as V
    from symsc.bins import make_binned_layout
    from .symutil import fresh_run, sym_vector

    sc = loader.install_shim()
    loader.load('conversion.graph.tof')
    loader.load('conversion.graph.beamline')
    conv = loader.load('core.conversions')
    fresh_run()
    obs, cands = [], []
    tag = f'convert[{layout},{origin}->{target},{tof_dtype}]'
    case = {'kind': 'convert-layout', 'layout': layout, 'origin': origin, 'target': target, 'dtype': tof_dtype}
    begin, end, nev = LAYOUTS[layout]

    def arr(name, n, sign=None):
        a = np.empty((n,), dtype=object)
        for i in range(n):
            a[i] = C.sym_var(f'{name}{i}', sign=sign)
        return a

    ev_coord = V.Variable(_arr=arr('t', nev, '+'), dims=('event',), unit=V.parse_unit('us' if origin == 'tof' else 'angstrom'), dtype=V.as_dtype(tof_dtype))
    weights = V.Variable(_arr=arr('w', nev), _var=arr('v', nev, '0+'), dims=('event',), unit=V.parse_unit('counts'), dtype=V.DType.float32)
    events = sc.DataArray(weights, coords={origin: ev_coord, 'pulse_time': V.Variable(_arr=arr('p', nev), dims=('event',), unit=V.parse_unit('ns'), dtype=V.DType.int64)})
    nb = len(begin)
    binned = make_binned_layout(events, begin, end, ('spectrum',))
    pos = np.empty((nb, 3), dtype=object)
    for i in range(nb):
        for k in range(3):
            pos[i, k] = C.sym_var(f'pos{i}_{k}')
    coords = {'position': V.Variable(_arr=pos, dims=('spectrum',), unit=V.parse_unit('m'), dtype=V.DType.vector3),
              'source_position': sym_vector('src', 'm'), 'sample_position': sym_vector('smp', 'm')}
    masks = {'m': sc.array(dims=['spectrum'], values=[False] * nb)}
    calls = []
    results = []
    if target == 'energy_transfer':
        coords['incident_energy' if layout in ('tiling', 'trailing', 'empty-bin') else 'final_energy'] = sc.scalar(C.sym_var('Efix', sign='+'), unit='meV')

    def _result(src):
        """What transform_coords hands back: the events (converted event coordinate) plus the accompanying dense bin-edge
        coordinate of the target, which for an unphysical edge is NaN (and may be infinite): convert() has to return this
        object as it is."""
        nan, inf = C.R(special='nan'), C.R(special='inf')
        ea = np.empty((3,), dtype=object)
        ea[0], ea[1], ea[2] = nan, C.sym_var('edge1'), (inf if target != 'energy_transfer' else C.sym_var('edge2'))
        edges = V.Variable(_arr=ea, dims=('tof_edge',), unit=V.parse_unit('meV'), dtype=V.DType.float64)
        res = sc.DataArray(src.data, coords={**{k_: v_ for k_, v_ in src.coords.items()}, target: edges}, masks=dict(src.masks))
        results.append((res, edges, [x for x in ea], {k_: v_ for k_, v_ in res.coords.items()}))
        return res

    class RecDA(sc.DataArray):
        def transform_coords(self, targets, graph=None, **kw):
            calls.append((self, targets, graph, kw))
            return _result(self)

        def copy(self, deep=True):
            c = super().copy(deep=deep)
            r = RecDA(c.data, coords=dict(c.coords), masks=dict(c.masks), name=c.name)
            return r

    da = RecDA(binned, coords=coords, masks=masks)
    snap = {'begin': list(begin), 'end': list(end), 'buffer': events, 'vals': [x for x in weights._a], 'vars': [x for x in weights._v], 'tof': [x for x in ev_coord._a]}
    V.WRITE_LOG.clear()
    paths = C.explore(lambda: conv.convert(da, origin=origin, target=target, scatter=True), max_paths=8)
    for k, p in enumerate(paths):
        P = f'path{k}'
        if p.inconclusive:
            obs.append({'name': f'{tag}:{P}', 'status': 'inconclusive', 'detail': p.inconclusive[:200], 't': 0})
            continue
        if p.exc is not None:
            obs.append({'name': f'{tag}:{P}:convert returns', 'status': 'violated', 'detail': repr(p.exc)[:200], 't': 0})
            cands.append(('C06:convert:raises', case, repr(p.exc)[:100]))
            continue

        def chk(name, ok, sig):
            ob = C.prove(f'{tag}:{P}:{name}', ok if isinstance(ok, C.B) else C.B.const(bool(ok)), pc=p.pc)
            obs.append(ob_dict(ob))
            if ob.status == 'violated':
                cands.append((sig, case, name))
            return ob.status == 'discharged'

        if not chk('transform_coords is applied exactly once and its result is returned', len(calls) >= 1 and len(results) >= 1 and p.value is results[-1][0] and calls[-1][1] == target, 'C06:convert:delegation'):
            continue
        res, edges, evals, rcoords = results[-1]

        def same_val(a_, b_):
            a_, b_ = C.R.lift(a_), C.R.lift(b_)
            if a_.special or b_.special:
                return C.B.const(a_.special == b_.special)
            return a_ == b_

        ok_keys = set(res.coords.keys()) == set(rcoords) and all(res.coords[k_] is rcoords[k_] for k_ in rcoords)
        chk('the result of transform_coords is returned as it is: same coordinates (objects), none added, dropped or replaced', ok_keys, 'C06:convert:result-edited')
        now = res.coords[target]
        chk('the accompanying bin-edge coordinate keeps the values the conversion function gave it (NaN stays NaN)',
            C.all_of([same_val(now.values[i_], evals[i_]) for i_ in range(3)]) if now.shape == (3,) else C.FALSE, 'C06:convert:result-edited')
        got = calls[-1][0]
        gb = got.data.bins
        if not chk('data handed on is binned', gb is not None, 'C06:convert:bins'):
            continue
        cons = gb.constituents
        gbeg = [int(C.R.lift(x).const_value()) for x in cons['begin']._a.reshape(-1)]
        gend = [int(C.R.lift(x).const_value()) for x in cons['end']._a.reshape(-1)]
        chk(f'bin ranges unchanged (begin {snap["begin"]}, end {snap["end"]}; got {gbeg}, {gend})', gbeg == snap['begin'] and gend == snap['end'], 'C06:convert:bin-membership')
        buf = cons['data']
        same_len = len(buf.data) == nev
        chk('event buffer has the same length', same_len, 'C06:convert:bin-membership')
        if same_len:
            chk('weights, variances and the event coordinate of every event unchanged',
                C.all_of([(buf.data.values[i] == snap['vals'][i]) & (buf.data.variances[i] == snap['vars'][i]) & (buf.coords[origin].values[i] == snap['tof'][i]) for i in range(nev)])
                & C.B.const(buf.data.dtype == weights.dtype and buf.data.unit == weights.unit and set(buf.coords.keys()) == {origin, 'pulse_time'}), 'C06:convert:events')
        chk('pixel coordinates and masks handed on', set(got.coords.keys()) == set(coords) and all(got.coords[c_] is coords[c_] for c_ in coords) and set(got.masks) == {'m'}, 'C06:convert:coords')
        written = {b.id for b in V.WRITE_LOG}
        chk('no buffer of the result is written after the conversion', edges._buf.id not in written, 'C06:convert:result-edited')
        argb = {weights._buf.id, ev_coord._buf.id, binned._buf.id, *[c_._buf.id for c_ in coords.values()]}
        chk('input not written', not (argb & written), 'C06:convert:mutation')
        chk('input bins untouched', da.data is binned and binned._bins._layout['begin'] == snap['begin'] and binned._bins._layout['end'] == snap['end'], 'C06:convert:mutation')
    return {'obligations': obs, 'candidates': cands, 'paths': len(paths)}


def run(chk):
    sc, tof, bl, utils = _load()
    from symex import loader

    chk.functions = loader.describe([getattr(tof, k) for k in kin.KERNELS]) + loader.describe_exprs(
        ['utils.elem_unit', 'utils.elem_dtype', 'utils.float_dtype', 'utils.as_float_type', 'tof.energy_transfer_direct_from_tof', 'tof.energy_transfer_indirect_from_tof',
         'bl.scattering_angles_with_gravity', 'bl._drop_due_to_gravity'], {**globals(), **locals()})
    dts = ['float64', 'float32', 'int64']
    jobs = [(k, d, None) for k in kin.KERNELS for d in dts]
    jobs += [(k, 'float64', (2, 2)) for k in ('wavelength_from_tof', 'dspacing_from_tof', 'energy_from_tof')]
    run_jobs(chk, job_kernel, jobs)
    run_jobs(chk, job_inelastic, [(m, d) for m in ('direct', 'indirect') for d in ('float64', 'float32')])
    run_jobs(chk, job_gravity, ['float64', 'float32'])
    conv = loader.load('core.conversions')
    chk.functions += loader.describe_exprs(['conv.convert', 'conv.deduce_conversion_graph', 'conv._deduce_energy_mode'], {**globals(), **locals()})
    lj = [(lay, 'tof', tgt, d) for lay in LAYOUTS for tgt, d in (('wavelength', 'float64'), ('dspacing', 'int64'), ('energy', 'float32'), ('energy_transfer', 'float64'))]
    if chk.tier == 'thorough':
        lj += [(lay, 'tof', tgt, d) for lay in LAYOUTS for tgt, d in (('Q', 'float32'), ('energy', 'int64'), ('wavelength', 'int32'))]
    run_jobs(chk, job_convert_layout, lj)
    # validation (not a solver result): scn.convert on random binned layouts vs the dense conversion of the same events,
    # incl. what is scipp's own contract (weights, variances, order, masks, unrelated coordinates, input untouched)
    import json, os, subprocess
    from .common import PY, VERIF

    path = os.path.join(VERIF, 'replay', 'C06-validate.json')
    os.makedirs(os.path.dirname(path), exist_ok=True)
    with open(path, 'w') as f:
        json.dump({'kind': 'validate', 'n': 40 if chk.tier == 'quick' else 200, 'seed': chk.seed}, f)
    r = subprocess.run([PY, os.path.join(VERIF, 'bin', 'check.py'), 'C06', '--replay', path], capture_output=True, text=True, timeout=1800)
    out = (r.stdout + r.stderr).strip().splitlines()[-1] if (r.stdout + r.stderr).strip() else ''
    if r.returncode == 0:
        chk.traces_validated += 40 if chk.tier == 'quick' else 200
    elif r.returncode == 10:
        chk.violations.append(('C06:convert', path, out))
    else:
        chk.harness_error('convert validation failed: ' + out[-300:])
    chk.bounds = {'layouts': '1-d grid of 3 bins with 2/0/1 events and a 2x2 grid', 'event dtypes': dts, 'geometry': 'per pixel (dense operand with the bin dimension)'}
    chk.stubs = ['scipp binned arithmetic -> symsc.bins (per-bin content variables, broadcasting of dense operands over bins)']
    chk.axioms = []
    chk.assumptions = ['preservation of weights, variances, masks, event order and unrelated coordinates by transform_coords / binned arithmetic is scipp\'s contract (outside the claim)',
                       'the bin-edge coordinate goes through the same function object (C02 model)']


def replay_real(case):
    import numpy as np
    import scipp as sc
    from scippneutron.conversion import tof as rt, beamline as rb

    rng = np.random.default_rng(12)
    bad = []
    dt = case.get('dtype', 'float64')

    def binned(vals, unit, sizes):
        begin = np.cumsum([0, *sizes[:-1]])
        ev = sc.array(dims=['event'], values=np.asarray(vals), unit=unit).astype(dt)
        return sc.bins(begin=sc.array(dims=['spectrum'], values=begin, unit=None), dim='event', data=ev), ev, begin

    sizes = [2, 0, 1]
    if case['kind'] == 'convert-layout':
        import scippneutron as scn

        begin, end, nev = LAYOUTS[case['layout']]
        origin, target = case['origin'], case['target']
        tv = np.sort(rng.uniform(1000.0, 9000.0, size=nev)).round(0)
        ev = sc.DataArray(sc.array(dims=['event'], values=rng.random(nev), variances=rng.random(nev), unit='counts', dtype='float32'),
                          coords={origin: sc.array(dims=['event'], values=tv, unit='us').astype(dt), 'pulse_time': sc.arange('event', nev, unit='ns')})
        nb = len(begin)
        b = sc.bins(begin=sc.array(dims=['spectrum'], values=begin, unit=None), end=sc.array(dims=['spectrum'], values=end, unit=None), dim='event', data=ev)
        pos = sc.vectors(dims=['spectrum'], values=rng.normal(size=(nb, 3)) + [0, 0, 2.0], unit='m')
        da = sc.DataArray(b, coords={'position': pos, 'source_position': sc.vector([0.0, 0.0, -10.0], unit='m'), 'sample_position': sc.vector([0.0, 0.0, 0.0], unit='m')},
                          masks={'m': sc.array(dims=['spectrum'], values=[False] * nb)})
        if target == 'energy_transfer':
            # events binned in (spectrum, tof) with a dense tof bin-edge coordinate whose first edge lies before t0
            b = sc.bins(begin=sc.array(dims=['spectrum', 'tof'], values=np.asarray(begin).reshape(nb, 1), unit=None), end=sc.array(dims=['spectrum', 'tof'], values=np.asarray(end).reshape(nb, 1), unit=None), dim='event', data=ev)
            ename = 'incident_energy' if case['layout'] in ('tiling', 'trailing', 'empty-bin') else 'final_energy'
            da = sc.DataArray(b, coords={**da.coords, 'tof': sc.array(dims=['tof'], values=[0.0, 20000.0], unit='us'), ename: sc.scalar(35.0, unit='meV')},
                              masks={'m': sc.array(dims=['spectrum'], values=[False] * nb)})
        keep = da.copy()
        try:
            out = scn.convert(da, origin=origin, target=target, scatter=True)
        except Exception as e:  # noqa: BLE001
            return {'reproduced': True, 'detail': f'convert raises {type(e).__name__}: {e}'[:300]}
        if not sc.identical(da, keep):
            bad.append('convert modified its input')
        if target == 'energy_transfer':
            out = out.squeeze()
            g = scn.conversion_graph('tof', 'energy_transfer', True, 'direct_inelastic' if ename == 'incident_energy' else 'indirect_inelastic')
            dense = sc.DataArray(sc.zeros(dims=['spectrum', 'tof'], shape=[nb, 1]), coords=dict(keep.coords)).transform_coords('energy_transfer', graph=g)
            full = scn.convert(keep, origin=origin, target=target, scatter=True)
            ge, de = full.coords['energy_transfer'], dense.coords['energy_transfer']
            if ge.dims != de.dims or not np.array_equal(ge.values, de.values, equal_nan=True):
                bad.append(f'bin-edge coordinate of event data {ge.values.tolist()} != the same edges converted as dense data {de.values.tolist()}')
        for i in range(nb):
            got = out['spectrum', i].values
            exp = ev['event', begin[i]:end[i]]
            if len(got) != len(exp) or not np.array_equal(got.values, exp.values) or not np.array_equal(got.variances, exp.variances) \
                    or not sc.identical(got.coords['pulse_time'], exp.coords['pulse_time']):
                bad.append(f'pixel {i} holds events {got.coords["pulse_time"].values.tolist()}, supplied {exp.coords["pulse_time"].values.tolist()} (layout begin={begin}, end={end}, {nev} events in the buffer)')
        return {'reproduced': bool(bad), 'detail': '; '.join(bad[:2])}
    if case['kind'] == 'validate':
        import scippneutron as scn

        rng = np.random.default_rng(case.get('seed', 0))
        for trial in range(case['n']):
            nspec = int(rng.integers(1, 5))
            two_d = bool(rng.integers(2))
            sizes_ = rng.integers(0, 4, size=nspec * (2 if two_d else 1))
            nev = int(sizes_.sum())
            edt = ['float64', 'float32', 'int64'][rng.integers(3)]
            tofv = rng.uniform(1000, 20000, size=nev).round(0 if edt == 'int64' else 3)
            ev = sc.DataArray(sc.array(dims=['event'], values=rng.uniform(size=nev), variances=rng.uniform(size=nev), unit='counts'),
                              coords={'tof': sc.array(dims=['event'], values=tofv, unit='us').astype(edt), 'pulse': sc.arange('event', nev, unit=None)})
            begin = np.cumsum([0, *sizes_[:-1]])
            if two_d:
                binned = sc.bins(begin=sc.array(dims=['spectrum', 'slab'], values=begin.reshape(nspec, 2), unit=None), dim='event', data=ev)
            else:
                binned = sc.bins(begin=sc.array(dims=['spectrum'], values=begin, unit=None), dim='event', data=ev)
            pos = sc.vectors(dims=['spectrum'], values=rng.normal(size=(nspec, 3)) + [0, 0, 2.0], unit='m')
            da = sc.DataArray(binned, coords={'position': pos, 'source_position': sc.vector([0.0, 0.0, -10.0], unit='m'), 'sample_position': sc.vector([0.0, 0.0, 0.0], unit='m'),
                                              'tag': sc.arange('spectrum', nspec, unit=None)},
                              masks={'m': sc.array(dims=['spectrum'], values=rng.random(nspec) < 0.3)})
            target = ['wavelength', 'dspacing', 'energy', 'Q'][rng.integers(4)]
            keep = da.copy()
            out = scn.convert(da, origin='tof', target=target, scatter=True)
            if not sc.identical(da, keep):
                bad.append('convert modified its input')
            g = scn.conversion_graph('tof', target, True, 'elastic')
            dense_in = sc.DataArray(sc.ones(dims=['spectrum', 'event'], shape=[nspec, max(nev, 1)]), coords={'position': pos, 'source_position': da.coords['source_position'],
                                    'sample_position': da.coords['sample_position'], 'tof': sc.array(dims=['event'], values=(tofv if nev else np.array([1000.0])), unit='us').astype(edt)})
            dense = dense_in.transform_coords(target, graph=g).coords[target]
            ob = out.bins.constituents
            oev = ob['data']
            if not np.array_equal(oev.values, ev.values) or not np.array_equal(oev.variances, ev.variances) or not sc.identical(oev.coords['pulse'], ev.coords['pulse']):
                bad.append('event weights / variances / order / unrelated event coordinate changed')
            if not sc.identical(out.masks['m'], da.masks['m']) or not sc.identical(out.coords['tag'], da.coords['tag']):
                bad.append('mask or unrelated coordinate changed')
            flat_sizes = sizes_
            k = 0
            for b_, n_ in enumerate(flat_sizes):
                spec = b_ // 2 if two_d else b_
                for e in range(n_):
                    got = oev.coords[target].values[k]
                    exp = dense['spectrum', spec]['event', k].value if nev else None
                    if exp is not None and not (got == exp or (np.isnan(got) and np.isnan(exp)) or abs(got - exp) <= 4 * np.spacing(abs(np.float32(exp) if edt == 'float32' else exp))):
                        bad.append(f'{target}: event {k} in pixel {spec}: {got!r} vs dense {exp!r} ({edt})')
                    k += 1
            if bad:
                break
        return {'reproduced': bool(bad), 'detail': '; '.join(bad[:2])}
    if case['kind'] == 'kernel' and case.get('signature', '').startswith('C06:formula'):
        # event values against the documented formula (mpmath), event coordinate in several units incl. the finest ones
        import mpmath as mp
        mp.mp.dps = 40
        kname = case['kernel']
        kinds, oracle, outunit, data_arg = kin.KERNELS[kname]
        f = getattr(rt, kname)
        o_ = kin.Ops(mp.sqrt, mp.sin, mp.pi, mp.mpf(float(sc.constants.h.value)), mp.mpf(float(sc.constants.m_n.value)))
        si_rng = {'time': (1e-3, 9e-3), 'length': (10.0, 20.0), 'energy': (1.6e-22, 8e-21), 'wavelength': (1e-10, 5e-10), 'invlength': (1e10, 5e10), 'angle': (0.2, 2.0)}
        fine = {'time': ['us', 'ns', 'ps'], 'length': ['m', 'mm', 'um'], 'energy': ['meV', 'ueV', 'neV'], 'wavelength': ['angstrom', 'pm', 'fm'], 'invlength': ['1/angstrom', '1/nm', '1/um'], 'angle': ['rad']}
        dkind = kinds[data_arg]
        for du in fine[dkind]:
            kw, si = {}, {}
            for a, k in kinds.items():
                lo, hi = si_rng[k]
                base_u = kin.KINDS[k][0]
                if a == data_arg:
                    v = sc.array(dims=['event'], values=rng.uniform(lo, hi, size=sum(sizes)), unit=base_u).to(unit=du)
                    v = sc.array(dims=['event'], values=np.round(v.values), unit=du, dtype=dt) if dt.startswith('int') else v.astype(dt)
                    begin = np.cumsum([0, *sizes[:-1]])
                    kw[a] = sc.bins(begin=sc.array(dims=['spectrum'], values=begin, unit=None), dim='event', data=v)
                    si[a] = [mp.mpf(float(x)) * mp.mpf(float(sc.scalar(1.0, unit=du).to(unit=base_u).value)) for x in v.values]
                else:
                    v = sc.array(dims=['spectrum'], values=rng.uniform(lo, hi, size=3), unit=base_u)
                    kw[a] = v
                    si[a] = [mp.mpf(float(x)) for x in v.values]
            try:
                out = f(**kw)
            except Exception as e:  # noqa: BLE001
                bad.append(f'{kname} on {dt} events in {du}: raises {type(e).__name__}')
                continue
            ev = 0
            for b_, n_ in enumerate(sizes):
                got = out['spectrum', b_].values
                for e_ in range(n_):
                    args_si = {a: (si[a][ev] if a == data_arg else si[a][b_]) for a in kinds}
                    expect = oracle(o_, **args_si)
                    base_out = {'angstrom': 'm', 'meV': 'J'}.get(outunit, '1/m') if isinstance(outunit, str) else '1/m'
                    g = mp.mpf(float(got.values[e_])) * mp.mpf(float(sc.scalar(1.0, unit=got.unit).to(unit=base_out).value))
                    if abs(g - expect) > abs(expect) * (1e-5 if dt == 'float32' else 1e-9):
                        bad.append(f'{kname}: {dt} event {float(kw[data_arg].bins.constituents["data"].values[ev])!r} {du} in pixel {b_} gives {float(got.values[e_])!r} {got.unit}, formula {mp.nstr(expect, 12)} (SI)')
                        break
                    ev += 1
                else:
                    continue
                break
        return {'reproduced': bool(bad), 'detail': '; '.join(bad[:2])[:500]}
    if case['kind'] == 'kernel':
        kname = case['kernel']
        kinds, oracle, outunit, data_arg = kin.KERNELS[kname]
        f = getattr(rt, kname)
        rngs = {'time': (1000.0, 9000.0, 'us'), 'length': (10.0, 20.0, 'm'), 'energy': (1.0, 50.0, 'meV'), 'wavelength': (1.0, 5.0, 'angstrom'), 'invlength': (1.0, 5.0, '1/angstrom'), 'angle': (0.2, 2.0, 'rad')}
        kw, kwd = {}, []
        evs = None
        for a, k in kinds.items():
            lo, hi, u = rngs[k]
            if a == data_arg:
                vals = rng.uniform(lo, hi, size=sum(sizes)).round(0 if dt.startswith('int') else 6)
                b, evs, begin = binned(vals, u, sizes)
                kw[a] = b
            else:
                kw[a] = sc.array(dims=['spectrum'], values=rng.uniform(lo, hi, size=3), unit=u)
        keep = {a: v.copy() for a, v in kw.items()}
        out = f(**kw)
        for a in kw:
            if not sc.identical(kw[a], keep[a]):
                bad.append(f'input {a} modified')
        for b in range(3):
            sub = {a: (evs[begin[b]:begin[b] + sizes[b]] if a == data_arg else v['spectrum', b]) for a, v in kw.items()}
            d = f(**sub)
            got = out['spectrum', b].values
            if got.unit != d.unit or got.dtype != d.dtype or len(got) != len(d) or not np.array_equal(got.values, d.values, equal_nan=True):
                bad.append(f'{kname} bin {b}: events {got.values} vs dense {d.values} ({got.unit},{got.dtype} vs {d.unit},{d.dtype})')
    elif case['kind'] == 'inelastic':
        f = rt.energy_transfer_direct_from_tof if case['mode'] == 'direct' else rt.energy_transfer_indirect_from_tof
        earg = 'incident_energy' if case['mode'] == 'direct' else 'final_energy'
        b, evs, begin = binned(rng.uniform(100.0, 20000.0, size=3), 'us', sizes)
        L1 = sc.scalar(10.0, unit='m')
        L2 = sc.array(dims=['spectrum'], values=[1.0, 1.5, 2.0], unit='m')
        E = sc.scalar(5.0, unit='meV')
        out = f(tof=b, L1=L1, L2=L2, **{earg: E})
        for k in range(3):
            d = f(tof=evs[begin[k]:begin[k] + sizes[k]], L1=L1, L2=L2['spectrum', k], **{earg: E})
            got = out['spectrum', k].values
            if got.unit != d.unit or got.dtype != d.dtype or not np.array_equal(got.values, d.values, equal_nan=True):
                bad.append(f'bin {k}: {got.values} vs {d.values}')
    elif case['kind'] == 'gravity':
        b, evs, begin = binned(rng.uniform(1.0, 10.0, size=3), 'angstrom', sizes)
        b1 = sc.vector([0.0, 0.0, 10.0], unit='m')
        B2 = sc.vectors(dims=['spectrum'], values=rng.normal(size=(3, 3)) + [0, 0, 3.0], unit='m')
        g = sc.vector([0.0, -9.81, 0.0], unit='m/s^2')
        out = rb.scattering_angles_with_gravity(incident_beam=b1, scattered_beam=B2, wavelength=b, gravity=g)
        for k in range(3):
            d = rb.scattering_angles_with_gravity(incident_beam=b1, scattered_beam=B2['spectrum', k], wavelength=evs[begin[k]:begin[k] + sizes[k]], gravity=g)
            for key in ('two_theta', 'phi'):
                got = out[key]['spectrum', k].values
                if got.dtype != d[key].dtype or not np.allclose(got.values, d[key].values, rtol=1e-13, equal_nan=True):
                    bad.append(f'{key} bin {k}: {got.values} vs {d[key].values}')
    return {'reproduced': bool(bad), 'detail': '; '.join(bad[:2])}
