"""C07 - kernels are unit-equivariant and keep the documented dtype contract.

Equivariance needs no oracle formula: the same real kernel is run on (x_i in unit u_i) and on
(x_i/sigma_i in unit sigma_i*u_i) with symbolic positive sigma_i; the physical results
(value * scale of the output unit) must be identical for all sigma."""
from __future__ import annotations

import sys

import itertools
from fractions import Fraction

from .common import ob_dict, run_jobs

BASE = {'time': 's', 'length': 'm', 'energy': 'J', 'wavelength': 'm', 'invlength': '1/m', 'angle': 'rad',
        'vlength': 'm', 'vaccel': 'm/s**2', 'abs_time': 's'}

# (module, function, {arg: kind}, documented output unit: str | ('arg', name) | ('inv', name) | None, data operand(s) for the dtype rule | None)
SPECS = [
    ('conversion.tof', 'wavelength_from_tof', {'tof': 'time', 'Ltotal': 'length'}, 'angstrom', ('tof',)),
    ('conversion.tof', 'dspacing_from_tof', {'tof': 'time', 'Ltotal': 'length', 'two_theta': 'angle'}, 'angstrom', ('tof',)),
    ('conversion.tof', 'energy_from_tof', {'tof': 'time', 'Ltotal': 'length'}, 'meV', ('tof',)),
    ('conversion.tof', 'energy_from_wavelength', {'wavelength': 'wavelength'}, 'meV', ('wavelength',)),
    ('conversion.tof', 'wavelength_from_energy', {'energy': 'energy'}, 'angstrom', ('energy',)),
    ('conversion.tof', 'Q_from_wavelength', {'wavelength': 'wavelength', 'two_theta': 'angle'}, ('inv', 'wavelength'), ('wavelength',)),
    ('conversion.tof', 'wavelength_from_Q', {'Q': 'invlength', 'two_theta': 'angle'}, 'angstrom', ('Q',)),
    ('conversion.tof', 'dspacing_from_wavelength', {'wavelength': 'wavelength', 'two_theta': 'angle'}, 'angstrom', ('wavelength',)),
    ('conversion.tof', 'dspacing_from_energy', {'energy': 'energy', 'two_theta': 'angle'}, 'angstrom', ('energy',)),
    ('conversion.tof', 'energy_transfer_direct_from_tof', {'tof': 'time', 'L1': 'length', 'L2': 'length', 'incident_energy': 'energy'}, ('arg', 'incident_energy'), ('tof', 'incident_energy')),
    ('conversion.tof', 'energy_transfer_indirect_from_tof', {'tof': 'time', 'L1': 'length', 'L2': 'length', 'final_energy': 'energy'}, ('arg', 'final_energy'), ('tof', 'final_energy')),
    ('conversion.tof', 'Q_elements_from_wavelength', {'wavelength': 'wavelength', 'incident_beam': 'vlength', 'scattered_beam': 'vlength'}, ('inv', 'wavelength'), None),
    ('conversion.tof', 'time_at_sample_from_tof', {'pulse_time': 'abs_time', 'tof': 'abs_time', 'L2': 'length', 'wavelength': 'wavelength'}, ('arg', 'tof'), None),
    ('conversion.beamline', 'L1', {'incident_beam': 'vlength'}, ('arg', 'incident_beam'), None),
    ('conversion.beamline', 'L2', {'scattered_beam': 'vlength'}, ('arg', 'scattered_beam'), None),
    ('conversion.beamline', 'two_theta', {'incident_beam': 'vlength', 'scattered_beam': 'vlength'}, 'rad', None),
    ('conversion.beamline', 'scattering_angles_with_gravity', {'incident_beam': 'vlength', 'scattered_beam': 'vlength', 'wavelength': 'wavelength', 'gravity': 'vaccel'}, 'rad', ('wavelength',)),
    ('tof.chopper_cascade', 'wavelength_to_inverse_velocity', {'wavelength': 'wavelength'}, 's/m', None),
    ('tof.chopper_cascade', 'propagate_times', {'time': 'time', 'wavelength': 'wavelength', 'distance': 'length'}, ('arg', 'time'), None),
]
SAME_UNIT_GROUPS = {'time_at_sample_from_tof': [('pulse_time', 'tof')]}
# arguments whose unit the kernel fixes (any other unit is refused with UnitError rather than converted)
FIXED_UNIT = {('time_at_sample_from_tof', 'wavelength'): 'angstrom'}
# equivariance of these follows from another check's oracle identity over symbolic units (and costs minutes here)
EQUIV_ELSEWHERE = {'scattering_angles_with_gravity': 'C04'}


def _load(mod):
    from symex import loader
    from symsc.npshim import NPShim

    loader.install_shim()
    m = loader.load(mod)
    if hasattr(m, 'np'):
        m.np = NPShim()
    return m


def _mk(arg, kind, unit, dtype, scaled):
    """Operand with physical SI value x_arg: value x/sigma in unit sigma*base (scaled) or x in base."""
    import numpy as np
    from symex import core as C
    from symex import terms as T
    from symsc import variable as V
    from symsc.units import Unit, parse_unit

    base = parse_unit(BASE[kind])
    if scaled:
        u = Unit.symbolic('sigma_' + arg, base) if not isinstance(scaled, str) else Unit.symbolic('sigma_' + scaled, base)
    else:
        u = base
    s = C.R(u.scale_rat())
    if kind in ('vlength', 'vaccel'):
        a = np.empty((3,), dtype=object)
        for k, c in enumerate('xyz'):
            with C.oracle():
                a[k] = C.sym_var(f'{arg}_{c}') / s
        v = V.Variable(_arr=a, dims=(), unit=u, dtype=V.DType.vector3)
        n = C.rsqrt(a[0] * a[0] + a[1] * a[1] + a[2] * a[2], nonneg=True)
        C.CTX.assume(n > 0)
        C.CTX.assume_nonzero(n)
        return v
    sign = '+' if kind != 'abs_time' else None
    x = C.sym_var(arg, sign=sign)
    if kind == 'angle':
        sn = C.rfn('sin', x / 2)
        at = T.fn_atom_of(sn.t)
        if at is not None:
            at.sign = '+'
        if scaled:
            u = parse_unit('deg')
            s = C.R(u.scale_rat())
    with C.oracle():
        val = x / s
    return V.Variable(dims=(), values=val, unit=u, dtype=dtype)


def _phys(out):
    """Flatten an output (Variable | dict) to {key: [R in SI]} and {key: unit}."""
    from symex import core as C

    items = out.items() if isinstance(out, dict) else [('', out)]
    vals, units, dts = {}, {}, {}
    for k, v in items:
        s = C.R(v.unit.scale_rat())
        vals[k] = [e * s for e in v.values.flat]
        units[k] = v.unit
        dts[k] = v.dtype.name
    return vals, units, dts


def job_equiv(job, seed):
    si, dts = job
    from symex import core as C
    from symsc.units import Unit, parse_unit
    from .symutil import fresh_run

    mod, fname, args, outunit, data = SPECS[si]
    m = _load(mod)
    fresh_run()
    f = getattr(m, fname)
    obs, cands = [], []
    tag = f'{fname}[{",".join(dts)}]'
    case = {'kind': 'equiv', 'spec': si, 'fname': fname, 'dtypes': list(dts)}
    same = {}
    for grp in SAME_UNIT_GROUPS.get(fname, []):
        for a in grp:
            same[a] = grp[0]

    def build(scaled):
        out = {}
        for (a, k), dt in zip(args.items(), dts, strict=True):
            v = _mk(a, k, None, dt, (same.get(a, True) if scaled else False))
            fx = FIXED_UNIT.get((fname, a))
            if fx is not None:
                from symsc.api import to_unit
                v = to_unit(_mk(a, k, None, dt, False), fx)
            out[a] = v
        return out

    C.CTX.fork_timeout_ms = 4000
    kw1, kw2 = build(False), build(True)
    p1 = C.explore(lambda: f(**kw1))
    p2 = C.explore(lambda: f(**kw2))

    def key(p):
        return tuple(p.decisions)

    ok1 = [p for p in p1 if p.exc is None and not p.inconclusive]
    ok2 = [p for p in p2 if p.exc is None and not p.inconclusive]
    if not ok1 or not ok2:
        st = 'inconclusive' if any(p.inconclusive for p in p1 + p2) else 'violated'
        det = '; '.join(str(p.inconclusive or repr(p.exc))[:80] for p in (p1 + p2)[:2])
        obs.append({'name': f'{tag}:runs', 'status': st, 'detail': det, 't': 0})
        if st == 'violated':
            cands.append((f'C07:{fname}:raises', case, det))
        return {'obligations': obs, 'candidates': cands, 'paths': len(p1) + len(p2)}
    npairs = 0
    for a in ok1:
        va, ua, da = _phys(a.value)
        for b in ok2:
            # same branch of the kernel: the path conditions must be compatible
            if len(ok1) > 1 or len(ok2) > 1:
                if C.reachable(pc=[*a.pc, *b.pc]) == 'unsat':
                    continue
            npairs += 1
            vb, ub, db = _phys(b.value)
            for k in va:
                if ua[k].dim != ub[k].dim or len(va[k]) != len(vb[k]):
                    obs.append({'name': f'{tag}:{k}:dimension', 'status': 'violated', 't': 0, 'detail': f'{ua[k]} vs {ub[k]}'})
                    cands.append((f'C07:{fname}:unit', case, 'output dimension depends on input units'))
                    continue
                for i, (x, y) in enumerate(zip(va[k], vb[k], strict=True)):
                    if x.special or y.special:
                        goal = C.B.const(x.special == y.special)
                    else:
                        goal = x == y
                    ob = C.prove(f'{tag}:{k}[{i}]:physical result independent of unit scales', goal, pc=[*a.pc, *b.pc], timeout_ms=30000)
                    obs.append(ob_dict(ob))
                    if ob.status == 'violated':
                        cands.append((f'C07:{fname}:equivariance', case, 'result depends on the unit of an input'))
                # documented output unit, regardless of input units
                if outunit is not None:
                    for run_units, kw in ((ua, kw1), (ub, kw2)):
                        if isinstance(outunit, str):
                            exp = parse_unit(outunit)
                        elif outunit[0] == 'arg':
                            exp = kw[outunit[1]].unit
                        else:
                            exp = Unit() / kw[outunit[1]].unit
                        ob = C.prove(f'{tag}:{k}:output unit is the documented one', C.B.const(run_units[k] == exp))
                        obs.append(ob_dict(ob))
                        if ob.status != 'discharged':
                            cands.append((f'C07:{fname}:unit', case, f'unit {run_units[k]} != {exp}'))
            # rounding budget incl. the extra conversion steps
            items = b.value.items() if isinstance(b.value, dict) else [('', b.value)]
            for k, v in items:
                n64, n32 = v._rnd
                budget = C.R.lift(n64 * 2 * Fraction(1, 2**53) + n32 * 2 * Fraction(1, 2**24))
                bound = Fraction(1, 10**5) if 'float32' in dts else Fraction(1, 10**11)
                eps = C.sym_var('relerr')
                ob = C.prove(f'{tag}:{k}:rounding(n64={n64},n32={n32})', eps < bound, assumptions=[eps >= 0, eps <= budget * (1 + budget)])
                obs.append(ob_dict(ob))
                if ob.status != 'discharged':
                    cands.append((f'C07:{fname}:rounding', case, f'n64={n64} n32={n32}'))
    ob = C.prove(f'{tag}:some-path-pair-compared', C.B.const(npairs >= 1))
    obs.append(ob_dict(ob))
    return {'obligations': obs, 'candidates': cands, 'paths': len(p1) + len(p2)}


def job_dtype(job, seed):
    si, dts = job
    from symex import core as C
    from .symutil import fresh_run

    mod, fname, args, outunit, data = SPECS[si]
    m = _load(mod)
    fresh_run()
    f = getattr(m, fname)
    obs, cands = [], []
    tag = f'{fname}[{",".join(dts)}]'
    case = {'kind': 'dtype', 'spec': si, 'fname': fname, 'dtypes': list(dts)}
    kw = {a: _mk(a, k, None, dt, False) for (a, k), dt in zip(args.items(), dts, strict=True)}
    C.CTX.fork_timeout_ms = 3000
    paths = C.explore(lambda: f(**kw))
    names = list(args)
    exp = 'float32' if all(dts[names.index(d)] == 'float32' for d in data) else 'float64'
    n = 0
    for p in paths:
        if p.inconclusive:
            continue
        if p.exc is not None and isinstance(p.exc, ValueError) and 'parallel' in str(p.exc):
            continue
        if p.exc is not None:
            obs.append({'name': f'{tag}:dtype:raises', 'status': 'violated', 'detail': repr(p.exc)[:200], 't': 0})
            cands.append((f'C07:{fname}:dtype', case, repr(p.exc)[:200]))
            continue
        n += 1
        items = p.value.items() if isinstance(p.value, dict) else [('', p.value)]
        for k, v in items:
            ob = C.prove(f'{tag}:{k}:dtype={exp}', C.B.const(v.dtype.name == exp))
            obs.append(ob_dict(ob))
            if ob.status != 'discharged':
                cands.append((f'C07:{fname}:dtype', case, f'dtype {v.dtype.name} != {exp}'))
    if n == 0:
        obs.append({'name': f'{tag}:dtype:runs', 'status': 'inconclusive', 'detail': 'no returning path', 't': 0})
    return {'obligations': obs, 'candidates': cands, 'paths': len(paths)}


F32_RANGES = {'time': (Fraction(1, 10**6), Fraction(1, 10)), 'length': (Fraction(1, 10), Fraction(1000)), 'energy': (Fraction(1602176634, 10**34), Fraction(1602176634, 10**27)),
              'wavelength': (Fraction(1, 10**11), Fraction(2, 10**9)), 'invlength': (Fraction(10**8), Fraction(10**11)), 'angle': (Fraction(1, 100), Fraction(31, 10))}

# C01 quantifies over 1e-9..1e9 SI; these sub-ranges keep every exact result a normal float32 number in the documented output unit, so any
# single-precision intermediate that leaves the float32 range loses the result although it is representable
F32_RANGES_WIDE = {'time': (Fraction(1, 10**9), Fraction(1, 10)), 'length': (Fraction(1, 100), Fraction(1000)), 'energy': (Fraction(1602176634, 10**35), Fraction(1602176634, 10**24)),
                   'wavelength': (Fraction(1, 10**12), Fraction(1, 10**8)), 'invlength': (Fraction(10**7), Fraction(10**12)), 'angle': (Fraction(1, 100), Fraction(31, 10))}


def job_f32range(job, seed):
    """All-single-precision operands in symbolic units: every value the kernel materialises in float32 from a wider
    intermediate (unit-scaled physical constants above all) is zero or a NORMAL float32 number for every unit choice of the
    quantifier grid (ns..s, angstrom..km, micro-eV..J) and inputs in their ranges; otherwise re-expressing an input in
    another unit changes the result by far more than rounding."""
    si, dts = job[:2]
    wide = len(job) > 2  # (si, dts, 'wide', property id): C01's value ranges, every single-precision product / quotient / power as well
    prop = job[3] if wide else 'C07'
    from symex import core as C
    from symsc import variable as V
    from .symutil import f32_range_obligations, fresh_run

    mod, fname, args, outunit, data = SPECS[si]
    m = _load(mod)
    fresh_run()
    f = getattr(m, fname)
    obs, cands = [], []
    tag = f'{fname}[{",".join(dts)}]'
    case = {'kind': 'f32range', 'spec': si, 'fname': fname, 'dtypes': list(dts)}
    kw = {a: _mk(a, k, None, dt, True) for (a, k), dt in zip(args.items(), dts, strict=True)}
    V.F32_LOG.clear()
    V.F32_RES_LOG.clear()
    C.CTX.fork_timeout_ms = 3000
    paths = C.explore(lambda: f(**kw))
    terms = list(V.F32_LOG) + (list(V.F32_RES_LOG) if wide else [])
    sig = {f'sigma_{a}': k for a, k in args.items() if k != 'angle'}
    rng = {a: (*(F32_RANGES_WIDE if wide else F32_RANGES)[k], None) for a, k in args.items() if k != 'angle'}
    if wide:
        case['wide'] = True
    o2, bad, notes = f32_range_obligations(f'{tag}:f32range', terms, sig, rng)
    obs += [ob_dict(o) for o in o2]
    ob = C.prove(f'{tag}:f32range:explored ({len(paths)} paths, {len(terms)} single-precision materialisations, {len(o2)} range-checked)', C.B.const(any(p.exc is None and not p.inconclusive for p in paths)))
    obs.append(ob_dict(ob))
    for term, units in bad:
        cands.append((f'{prop}:{fname}:float32-range', {**case, 'units': {k[len("sigma_"):]: v for k, v in units.items()}}, f'{term} is subnormal / zero / out of range in float32 for units {units}'))
    return {'obligations': obs, 'candidates': cands, 'paths': len(paths), 'notes': notes}


def job_dtype_shapes(job, seed):
    """The dtype contract of the gravity kernels does not depend on how the operands broadcast: a single-precision
    wavelength gives single-precision angles also when the scattered beam carries a dimension the wavelength lacks
    (per-pixel beams against a wavelength axis), for the perpendicular and for the tilted incident beam."""
    fname, wdt, geometry = job
    from symex import core as C
    from .symutil import fresh_run

    m = _load('conversion.beamline')
    fresh_run()
    sc = sys.modules['scipp']
    f = getattr(m, fname)
    obs, cands = [], []
    tag = f'{fname}[wavelength {wdt}(wavelength) x beams(det), {geometry} incident beam]'
    case = {'kind': 'dtype-shapes', 'fname': fname, 'wavelength_dtype': wdt, 'geometry': geometry}
    inc = sc.vector([0.0, 0.0, 10.0], unit='m') if geometry == 'perpendicular' else sc.vector([0.0, 0.5, 10.0], unit='m')
    kw = dict(incident_beam=inc, scattered_beam=sc.vectors(dims=['det'], values=[[0.1, 0.2, 3.0], [-0.3, 0.1, 2.5]], unit='m'),
              wavelength=sc.array(dims=['wavelength'], values=[1.5, 4.25], unit='angstrom', dtype=wdt), gravity=sc.vector([0.0, -9.80665, 0.0], unit='m/s**2'))
    C.CTX.concrete_env = {'h_planck': 6.62607015e-34, 'm_neutron': 1.67492749804e-27, 'g_std': 9.80665}
    try:
        paths = C.explore(lambda: f(**kw), max_paths=8)
    finally:
        C.CTX.concrete_env = None
    n = 0
    for p in paths:
        if p.inconclusive:
            obs.append({'name': f'{tag}:runs', 'status': 'inconclusive', 'detail': p.inconclusive[:200], 't': 0})
            continue
        if p.exc is not None:
            if isinstance(p.exc, ValueError) and 'orthogonal' in str(p.exc):
                n += 1
                continue  # the yz-plane angle refuses a tilted beam
            obs.append({'name': f'{tag}:raises', 'status': 'violated', 'detail': repr(p.exc)[:200], 't': 0})
            cands.append((f'C07:{fname}:dtype', case, repr(p.exc)[:200]))
            continue
        n += 1
        items = p.value.items() if isinstance(p.value, dict) else [('angle', p.value)]
        for k, v in items:
            ob = C.prove(f'{tag}:{k}:dtype={wdt}', C.B.const(v.dtype.name == wdt))
            obs.append(ob_dict(ob))
            if ob.status != 'discharged':
                cands.append((f'C07:{fname}:dtype', case, f'{k}: dtype {v.dtype.name} != {wdt} when the beams carry a dimension the wavelength lacks'))
    if n == 0:
        obs.append({'name': f'{tag}:runs', 'status': 'inconclusive', 'detail': 'no returning path', 't': 0})
    return {'obligations': obs, 'candidates': cands, 'paths': len(paths)}


ALT_UNIT = {'time': 'ms', 'length': 'mm', 'energy': 'ueV', 'wavelength': 'nm', 'invlength': '1/nm', 'abs_time': 'ms'}


def job_int(job, seed):
    """An integer operand in a non-default unit gives the same physical result as the same number as float64."""
    si, which = job
    from symex import core as C
    from symsc import variable as V
    from symsc.units import parse_unit
    from .symutil import fresh_run

    mod, fname, args, outunit, data = SPECS[si]
    m = _load(mod)
    fresh_run()
    f = getattr(m, fname)
    obs, cands = [], []
    tag = f'{fname}[int64 {which} in {ALT_UNIT[args[which]]}]'
    case = {'kind': 'int', 'spec': si, 'fname': fname, 'which': which}
    n = C.sym_var('n_int', sign='+', is_int=True)
    C.CTX.assume(n >= 1)
    C.CTX.assume(n <= 10**6)

    def build(dt):
        kw = {}
        for a, k in args.items():
            if a == which:
                kw[a] = V.Variable(dims=(), values=n, unit=parse_unit(ALT_UNIT[k]), dtype=dt)
            else:
                kw[a] = _mk(a, k, None, 'float64', False)
                fx = FIXED_UNIT.get((fname, a))
                if fx is not None:
                    from symsc.api import to_unit
                    kw[a] = to_unit(kw[a], fx)
        return kw

    C.CTX.fork_timeout_ms = 3000
    pi_ = C.explore(lambda: f(**build('int64')))
    pf_ = C.explore(lambda: f(**build('float64')))
    oki = [p for p in pi_ if p.exc is None and not p.inconclusive]
    okf = [p for p in pf_ if p.exc is None and not p.inconclusive]
    if not okf or not oki:
        # integer operands are legitimately refused by some kernels (DTypeError): then nothing to compare
        refused = all(p.exc is not None and type(p.exc).__name__ in ('DTypeError', 'UnitError') for p in pi_)
        st = 'discharged' if (refused and okf) else 'inconclusive'
        obs.append({'name': f'{tag}:integer operand refused or comparable', 'status': st, 'detail': '; '.join(str(p.inconclusive or repr(p.exc))[:80] for p in (pi_ + pf_)[:2]), 't': 0})
        return {'obligations': obs, 'candidates': cands, 'paths': len(pi_) + len(pf_)}
    for a in oki:
        va, ua, da = _phys(a.value)
        for b in okf:
            if (len(oki) > 1 or len(okf) > 1) and C.reachable(pc=[*a.pc, *b.pc]) == 'unsat':
                continue
            vb, ub, db = _phys(b.value)
            for k in va:
                for i, (x, y) in enumerate(zip(va[k], vb[k], strict=True)):
                    goal = C.B.const(x.special == y.special) if (x.special or y.special) else (x == y)
                    ob = C.prove(f'{tag}:{k}[{i}]:same physical result as the float64 operand', goal, pc=[*a.pc, *b.pc], timeout_ms=30000)
                    obs.append(ob_dict(ob))
                    if ob.status == 'violated':
                        c = dict(case)
                        c['n'] = int((ob.model or {}).get('n_int', 3))
                        cands.append((f'C07:{fname}:integer-operand', c, 'integer operand handled differently from the same float value'))
                ob = C.prove(f'{tag}:{k}:result is floating point', C.B.const(da[k] in ('float64', 'float32')))
                obs.append(ob_dict(ob))
    return {'obligations': obs, 'candidates': cands, 'paths': len(pi_) + len(pf_)}


def run(chk):
    from symex import loader

    loader.install_shim()
    fl = []
    for mod, fname, *_ in SPECS:
        fl.append(getattr(loader.load(mod), fname))
    utils = loader.load('_utils')
    tof = loader.load('conversion.tof')
    bl = loader.load('conversion.beamline')
    chk.functions = loader.describe(fl) + loader.describe_exprs(['utils.as_float_type', 'utils.float_dtype', 'utils.elem_unit', 'utils.elem_dtype', 'tof._common_dtype',
                                                                 'tof._energy_constant', 'bl._drop_due_to_gravity'], {**globals(), **locals()})
    ejobs = []
    djobs = []
    for si, (mod, fname, args, outunit, data) in enumerate(SPECS):
        n = len(args)
        if fname not in EQUIV_ELSEWHERE:
            ejobs.append((si, ('float64',) * n))
            if data is not None or chk.tier == 'thorough':
                ejobs.append((si, ('float32',) * n))
        if data is not None:
            scal = [k for k in args.values()]
            choices = []
            for a, k in args.items():
                if k in ('vlength', 'vaccel'):
                    choices.append(['float64'])
                elif k == 'angle' or fname in EQUIV_ELSEWHERE:
                    choices.append(['float64', 'float32'])
                else:
                    choices.append(['float64', 'float32', 'int64'] if chk.tier == 'thorough' or a in data else ['float64', 'float32'])
            for combo in itertools.product(*choices):
                djobs.append((si, combo))
    run_jobs(chk, job_equiv, ejobs)
    run_jobs(chk, job_dtype, djobs)
    ijobs = [(si, a) for si, (mod, fname, args, outunit, data) in enumerate(SPECS) if data is not None and fname not in EQUIV_ELSEWHERE
             for a in args if args[a] in ALT_UNIT and (a in data or chk.tier == 'thorough')]
    run_jobs(chk, job_int, ijobs)
    scalar_kinds = {'time', 'length', 'energy', 'wavelength', 'invlength', 'angle'}
    fjobs = []
    for si, (mod, fname, args, outunit, data) in enumerate(SPECS):
        if data is None or not set(args.values()) <= scalar_kinds:
            continue
        fjobs.append((si, ('float32',) * len(args)))
        # single-precision data operand(s) next to double-precision geometry / parameters
        fjobs.append((si, tuple('float32' if a in data else 'float64' for a in args)))
    run_jobs(chk, job_f32range, fjobs)
    run_jobs(chk, job_dtype_shapes, [(fn_, dt_, g_) for fn_ in ('scattering_angles_with_gravity', 'scattering_angle_in_yz_plane') for dt_ in ('float32', 'float64') for g_ in ('perpendicular', 'tilted')])
    from . import shimval
    shimval.validate(chk, 'kinematics-dtypes', 60 if chk.tier == 'quick' else 300)
    shimval.validate(chk, 'inelastic-dtypes', 30 if chk.tier == 'quick' else 150)
    chk.bounds = {'units': 'one symbolic positive scale factor per argument (covers every unit of the right dimension, not only the ns..s / mm..km grid); deg vs rad for angles',
                  'dtypes': 'float64/float32/int64 grid for the kernels that select a precision themselves', 'shapes': 'scalar operands'}
    chk.stubs = ['scipp -> symsc (unit algebra with symbolic scale monomials, to_unit, dtype promotion rules measured on scipp 25.4)']
    chk.axioms = ['exact reals + (1+delta) rounding budget per recorded operation']
    chk.assumptions = ['int32 and integer unit conversion (truncating) outside the claim', 'dtype clause only for kernels using as_float_type/_common_dtype/elem_dtype(wavelength) (DESIGN 4.2)']


def replay_real(case):
    import itertools as it

    import numpy as np
    import scipp as sc

    if case.get('kind') == 'dtype-shapes':
        from scippneutron.conversion import beamline as rb

        f = getattr(rb, case['fname'])
        wdt = case['wavelength_dtype']
        bad = []
        for inc in ([0.0, 0.0, 10.0], [0.0, 0.5, 10.0]):
            kw = dict(incident_beam=sc.vector(inc, unit='m'), scattered_beam=sc.vectors(dims=['det'], values=[[0.1, 0.2, 3.0], [-0.3, 0.1, 2.5]], unit='m'),
                      wavelength=sc.array(dims=['wavelength'], values=[1.5, 4.25], unit='angstrom', dtype=wdt), gravity=sc.vector([0.0, -9.80665, 0.0], unit='m/s**2'))
            try:
                out = f(**kw)
            except ValueError:
                continue
            for k, v in (out.items() if isinstance(out, dict) else [('angle', out)]):
                if str(v.dtype) != wdt:
                    bad.append(f'{case["fname"]}: {k} has dtype {v.dtype} for a {wdt} wavelength of dims {kw["wavelength"].dims} and per-pixel beams (incident beam {inc})')
        return {'reproduced': bool(bad), 'detail': '; '.join(bad[:2])}
    mod, fname, args, outunit, data = SPECS[case['spec']]
    import importlib

    m = importlib.import_module('scippneutron.' + mod)
    f = getattr(m, fname)
    if case.get('kind') == 'int':
        which = case['which']
        bad = []
        base = {'time': 5.0, 'length': 20.0, 'energy': 2.0e-21, 'wavelength': 2e-10, 'invlength': 2e10, 'angle': 1.0, 'abs_time': 0.01}
        for nval in sorted({3, 7, 15, 25, max(1, int(case.get('n', 3)))}):
            def call(dt):
                kw = {}
                for a, k in args.items():
                    if a == which:
                        kw[a] = sc.scalar(nval, unit=ALT_UNIT[k], dtype=dt)
                    else:
                        u = FIXED_UNIT.get((fname, a), BASE[k])
                        kw[a] = sc.scalar(base[k], unit=BASE[k]).to(unit=u)
                return f(**kw)
            try:
                a_, b_ = call('int64'), call('float64')
            except Exception as e:  # noqa: BLE001
                continue
            ra = a_.items() if isinstance(a_, dict) else [('', a_)]
            rb = dict(b_.items()) if isinstance(b_, dict) else {'': b_}
            for k, va in ra:
                x, y = float(va.value), float(rb[k].to(unit=va.unit).value)
                if not (x == y or abs(x - y) <= 1e-10 * abs(y)):
                    bad.append(f'{fname}({which}={nval} {ALT_UNIT[args[which]]}): int64 gives {x!r}, float64 gives {y!r}')
        return {'reproduced': bool(bad), 'detail': '; '.join(bad[:2])}
    if case.get('kind') == 'f32range' and 'energy_transfer' in fname:
        from . import c05_inelastic
        u = case.get('units', {})
        mode = 'direct' if 'direct' in fname else 'indirect'
        earg = 'incident_energy' if mode == 'direct' else 'final_energy'
        d = case['dtypes']
        names_ = list(args)
        c5 = {'mode': mode, 'dtypes': [d[names_.index('tof')], d[names_.index('L1')], d[names_.index('L2')], d[names_.index(earg)]], 'via_graph': False,
              'units': {'sigma_E': u.get(earg, 'J'), 'sigma_t': u.get('tof', 's'), 'sigma_L1': u.get('L1', 'm'), 'sigma_L2': u.get('L2', 'm')}}
        return c05_inelastic.replay_real(c5)
    rng = np.random.default_rng(3)
    dts = case['dtypes']
    alts = {'time': ['s', 'ms', 'us', 'ns'], 'length': ['m', 'mm', 'km'], 'energy': ['J', 'meV', 'eV', 'ueV'], 'wavelength': ['m', 'angstrom', 'nm'],
            'invlength': ['1/m', '1/angstrom'], 'angle': ['rad', 'deg'], 'vlength': ['m', 'mm'], 'vaccel': ['m/s^2', 'cm/s^2'], 'abs_time': ['s', 'us']}
    rng_si = {'time': (1e-5, 1e-1), 'length': (1.0, 100.0), 'energy': (1.6e-23, 1.6e-20), 'wavelength': (5e-11, 2e-9), 'invlength': (1e8, 1e11),
              'angle': (0.05, 3.0), 'abs_time': (1e-3, 1e-1)}
    if case.get('kind') == 'f32range':
        alts['length'] = ['m', 'mm', 'km', 'cm', 'nm', 'angstrom']
        alts['invlength'] = ['1/m', '1/angstrom', '1/nm']
    bad = []
    same = {}
    for grp in SAME_UNIT_GROUPS.get(fname, []):
        for a in grp:
            same[a] = grp[0]
    for trial in range(8):
        phys = {}
        for a, k in args.items():
            if k in ('vlength', 'vaccel'):
                phys[a] = rng.normal(size=3) * (10 if k == 'vaccel' else 5)
                if fname.startswith('scattering') and a == 'gravity':
                    phys[a] = np.array([0, -9.81, 0.0])
                if fname.startswith('scattering') and a == 'incident_beam':
                    phys[a] = np.array([0.0, 0.0, 10.0])
            else:
                lo, hi = rng_si[k]
                phys[a] = float(np.exp(rng.uniform(np.log(lo), np.log(hi))))
        near = None
        if 'energy_transfer' in fname:
            phys['tof'] = 1.0  # well above t0
            if trial >= 4 and all(d == 'float64' for d in dts):
                # arrival shortly after the flight time of the fixed-energy leg: whether the result is NaN must not depend on
                # the unit the time is written in (values are compared with a tolerance that follows the cancellation in t - t0)
                fixed = 'L1' if 'direct' in fname else 'L2'
                en_ = phys['incident_energy' if 'direct' in fname else 'final_energy']
                t0_ = phys[fixed] * (float(sc.constants.m_n.value) / (2 * en_)) ** 0.5  # the constant the kernel uses
                near = [6e-10, 2e-11, 1e-7, 3e-5][trial - 4]
                phys['tof'] = t0_ + near
                near = near / t0_

        def call(units):
            kw = {}
            for (a, k), dt, u in zip(args.items(), dts, units, strict=True):
                if k in ('vlength', 'vaccel'):
                    kw[a] = sc.vector(phys[a], unit=BASE[k].replace('**', '^')).to(unit=u)
                else:
                    v = sc.scalar(phys[a], unit=BASE[k]).to(unit=u)
                    kw[a] = v.astype(dt) if dt != 'int64' else sc.scalar(max(1, int(round(v.value))), unit=u)
            return kw, f(**kw)

        base_units = [alts[k][0] for k in args.values()]
        try:
            kw0, ref = call(base_units)
        except Exception as e:  # noqa: BLE001
            bad.append(f'raises {type(e).__name__}: {e}')
            break
        names = list(args)
        for units in it.islice(it.product(*[alts[k] for k in args.values()]), 0, 200 if case.get('kind') != 'f32range' else 2000):
            units = list(units)
            for a, b in same.items():
                units[names.index(a)] = units[names.index(b)]
            if any(dt == 'int64' for dt in dts) and units != base_units:
                continue
            try:
                kw, out = call(units)
            except Exception as e:  # noqa: BLE001
                bad.append(f'{units}: raises {type(e).__name__}: {e}')
                continue
            ro = ref.items() if isinstance(ref, dict) else [('', ref)]
            oo = dict(out.items()) if isinstance(out, dict) else {'': out}
            for k, rv in ro:
                ov = oo[k]
                if outunit is not None:
                    exp = sc.Unit(outunit) if isinstance(outunit, str) else (kw[outunit[1]].unit if outunit[0] == 'arg' else sc.Unit('dimensionless') / kw[outunit[1]].unit)
                    if ov.unit != exp:
                        bad.append(f'{units}: unit {ov.unit} != {exp}')
                        continue
                try:
                    a = np.asarray(ov.to(unit=rv.unit, dtype='float64').values, dtype=float)
                except Exception as e:  # noqa: BLE001
                    bad.append(f'{units}: output unit {ov.unit} not convertible to {rv.unit}')
                    continue
                b = np.asarray(rv.values, dtype=float)
                tol = 3e-5 if 'float32' in dts else 1e-10
                if near is not None:
                    tol = max(tol, 1e-12 / near)  # scipp's unit conversions agree to about 4e-14 between unit systems
                    if not np.array_equal(np.isnan(a), np.isnan(b)):
                        bad.append(f'{units}: NaN for tof = t0 (1 + {near:.3g}) in one unit system, a number in the other: {a} vs {b}')
                        continue
                if not np.allclose(a, b, rtol=tol, atol=tol * max(1e-300, float(np.max(np.abs(b)))), equal_nan=True):
                    bad.append(f'{units}: {a} vs {b}')
                if data is not None and case['kind'] == 'dtype':
                    expdt = 'float32' if all(dts[names.index(d)] == 'float32' for d in data) else 'float64'
                    if str(ov.dtype) != expdt:
                        bad.append(f'{units}: dtype {ov.dtype} != {expdt}')
            if len(bad) > 4:
                break
        if len(bad) > 4:
            break
    return {'reproduced': bool(bad), 'detail': '; '.join(bad[:3])}
