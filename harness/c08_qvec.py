"""C08 - Q vector and hkl conversions satisfy their defining algebra."""
from __future__ import annotations

from .common import ob_dict, run_jobs


def _load():
    from symex import loader
    from symsc.npshim import NPShim

    sc = loader.install_shim()
    tof = loader.load('conversion.tof')
    tof.np = NPShim()
    return sc, tof


def _beams(unit2=None):
    from symex import core as C
    from .symutil import sym_unit, sym_vector, vec, vnorm2

    uL = sym_unit('L', 'm')
    b1 = sym_vector('b1', uL)
    b2 = sym_vector('b2', unit2 or uL)
    for v in (b1, b2):
        n = C.rsqrt(vnorm2(vec(v)), nonneg=True)
        C.CTX.assume(n > 0)
        C.CTX.assume_nonzero(n)
    return uL, b1, b2


def _mkvec(w, unit):
    import numpy as np
    from symsc import variable as V

    a = np.empty((3,), dtype=object)
    for i in range(3):
        a[i] = w[i]
    return V.Variable(_arr=a, dims=(), unit=unit, dtype=V.DType.vector3)


def _mkmat(m, unit, dtype='linear_transform3'):
    import numpy as np
    from symsc import variable as V

    a = np.empty((3, 3), dtype=object)
    for i in range(3):
        for j in range(3):
            a[i, j] = m[i][j]
    return V.Variable(_arr=a, dims=(), unit=V.parse_unit(unit) if isinstance(unit, str) else unit, dtype=getattr(V.DType, dtype))


def _single(paths, obs, cands, tag, case):
    p = paths[0]
    if len(paths) != 1 or p.exc is not None or p.inconclusive:
        st = 'inconclusive' if p.inconclusive else 'violated'
        obs.append({'name': f'{tag}:runs', 'status': st, 'detail': str(p.inconclusive or repr(p.exc))[:200], 't': 0})
        if st == 'violated':
            cands.append((f'C08:{tag}:raises', case, repr(p.exc)[:200]))
        return None
    return p.value


def job_q(job, seed):
    what = job
    from symex import core as C
    from symex import terms as T
    from symsc import variable as V
    from .symutil import fresh_run, sym_scalar, sym_unit, vec, vdot, vnorm2, vscale, vsub, PI, si_value

    sc, tof = _load()
    fresh_run()
    obs, cands = [], []
    what, _, lam_dtype = what.partition(':')
    lam_dtype = lam_dtype or 'float64'
    case = {'kind': 'Q', 'what': what, 'wavelength_dtype': lam_dtype}
    uL, b1, b2 = _beams(sym_unit('L2', 'm') if what == 'units' else None)
    uW = sym_unit('W', 'm')
    lam = sym_scalar('lam', uW, lam_dtype)
    what = what if lam_dtype == 'float64' else f'{what}[{lam_dtype} wavelength]'

    def chk(name, goal, assumptions=(), sig='C08:Q'):
        ob = C.prove(f'Q:{what}:{name}', goal, assumptions=assumptions, timeout_ms=30000)
        obs.append(ob_dict(ob))
        if ob.status == 'violated':
            cands.append((sig, case, name))

    def qel(x1, x2, lm=lam):
        return _single(C.explore(lambda: tof.Q_elements_from_wavelength(wavelength=lm, incident_beam=x1, scattered_beam=x2)), obs, cands, f'Q:{what}', case)

    q = qel(b1, b2)
    if q is None:
        return {'obligations': obs, 'candidates': cands, 'paths': 1}
    with C.oracle():
        n1 = C.rsqrt(vnorm2(vec(b1)), nonneg=True)
        n2 = C.rsqrt(vnorm2(vec(b2)), nonneg=True)
        ei = vscale(vec(b1), 1 / n1)
        ef = vscale(vec(b2), 1 / n2)
        k_si = 2 * PI() / si_value(lam)
        expect = vscale(vsub(ei, ef), k_si)
    comps = [q['Qx'], q['Qy'], q['Qz']]
    if what.startswith(('definition', 'units')):
        for nm, cv, ev in zip('xyz', comps, expect, strict=True):
            chk(f'Q{nm}=(2pi/lambda)(e_i-e_f).{nm}', si_value(cv) == ev)
            chk(f'unit(Q{nm})=1/unit(lambda)', C.B.const(cv.unit == V.Unit() / uW))
        # reassembly is lossless
        qv = _single(C.explore(lambda: tof.Q_vec_from_Q_elements(Qx=q['Qx'], Qy=q['Qy'], Qz=q['Qz'])), obs, cands, 'Q_vec', case)
        if qv is not None:
            chk('Q_vec=(Qx,Qy,Qz)', C.all_of([a == b.value for a, b in zip(vec(qv), comps, strict=True)]))
            chk('unit(Q_vec)', C.B.const(qv.unit == comps[0].unit))
            # (ii) |Q_vec|^2 = Q^2 with sin^2(theta) = (1-c)/2   [half-angle of C03's cos(2theta)=c]
            tt = sc.scalar(C.sym_var('tt', sign='+'), unit='rad')
            Q = _single(C.explore(lambda: tof.Q_from_wavelength(wavelength=lam, two_theta=tt)), obs, cands, 'Q_from_wavelength', case)
            if Q is not None:
                s = C.rfn('sin', tt.value / 2)
                with C.oracle():
                    c = vdot(vec(b1), vec(b2)) / (n1 * n2)
                chk('|Q_vec|^2=Q^2', vnorm2(vec(qv)) == Q.value * Q.value, assumptions=[s * s == (1 - c) / 2])
                chk('unit(Q)=unit(Q_vec)', C.B.const(Q.unit == qv.unit))
    if what == 'rescale':
        k = C.sym_var('k', sign='+')
        for nm, (x1, x2) in (('incident', (_mkvec(vscale(vec(b1), k), uL), b2)), ('scattered', (b1, _mkvec(vscale(vec(b2), k), uL)))):
            q2 = qel(x1, x2)
            if q2 is None:
                continue
            for c_ in ('Qx', 'Qy', 'Qz'):
                chk(f'{nm}-beam-length-independent:{c_}', q2[c_].value == q[c_].value)
    if what == 'rotation':
        ca, sa = C.rfn('cos', C.sym_var('alpha')), C.rfn('sin', C.sym_var('alpha'))
        rot = lambda w: [ca * w[0] - sa * w[1], sa * w[0] + ca * w[1], w[2]]  # noqa: E731
        rb1, rb2 = _mkvec(rot(vec(b1)), uL), _mkvec(rot(vec(b2)), uL)
        for w in (rb1, rb2):
            C.CTX.assume_nonzero(C.rsqrt(vnorm2(vec(w)), nonneg=True))
        q2 = qel(rb1, rb2)
        if q2 is not None:
            rq = rot([c_.value for c_ in comps])
            for nm, a, b in zip('xyz', [q2['Qx'], q2['Qy'], q2['Qz']], rq, strict=True):
                chk(f'Q(Rb1,Rb2)=R Q(b1,b2) [rotation about z]:{nm}', a.value == b)
        # abstraction lemma for arbitrary R
        Rm = [[C.sym_var(f'R{i}{j}') for j in range(3)] for i in range(3)]
        u = vec(b1)
        Ru = [sum((Rm[i][j] * u[j] for j in range(3)), C.R.lift(0)) for i in range(3)]
        G = [[sum((Rm[k][i] * Rm[k][j] for k in range(3)), C.R.lift(0)) for j in range(3)] for i in range(3)]
        chk('|Ru|^2=u^T(R^T R)u', vnorm2(Ru) == sum((u[i] * G[i][j] * u[j] for i in range(3) for j in range(3)), C.R.lift(0)))
    return {'obligations': obs, 'candidates': cands, 'paths': 1}


def job_hkl(job, seed):
    variant = job  # 'scalar' | 'array' (one sample rotation per scan point)
    import numpy as np
    from symex import core as C
    from symsc import api
    from symsc import variable as V
    from .symutil import fresh_run, vec, PI

    sc, tof = _load()
    fresh_run()
    obs, cands = [], []
    case = {'kind': 'hkl', 'variant': variant}
    tagp = f'hkl[{variant} rotation]'

    def chk(name, goal, assumptions=(), sig='C08:hkl', record=True):
        ob = C.prove(f'{tagp}:{name}', goal, assumptions=assumptions, timeout_ms=30000)
        if record:
            obs.append(ob_dict(ob))
            if ob.status == 'violated':
                cands.append((sig, case, name))
        return ob

    def M(name):
        return [[C.sym_var(f'{name}{i}{j}') for j in range(3)] for i in range(3)]

    def mm(a, b):
        return [[sum((a[i][k] * b[k][j] for k in range(3)), C.R.lift(0)) for j in range(3)] for i in range(3)]

    def mv(a, v):
        return [sum((a[i][k] * v[k] for k in range(3)), C.R.lift(0)) for i in range(3)]

    Um, Bm, Rm = M('U'), M('B'), M('R')
    U = _mkmat(Um, 'dimensionless', 'rotation3')
    Bv = _mkmat(Bm, '1/angstrom')
    Rv = _mkmat(Rm, 'dimensionless', 'rotation3')
    if variant == 'array':
        Rv = V.Variable(_arr=Rv._a.reshape((1, 3, 3)).copy(), dims=('scan',), unit=Rv.unit, dtype=Rv.dtype)
    if variant == 'grains':
        # one orientation matrix per grain / twin / scan point: UB[g] = U[g].B for every g
        Ums = [M(f'U{g}_') for g in range(2)]
        ua = np.empty((2, 3, 3), dtype=object)
        for g in range(2):
            for i in range(3):
                for j_ in range(3):
                    ua[g, i, j_] = Ums[g][i][j_]
        Ug = V.Variable(_arr=ua, dims=('grain',), unit=U.unit, dtype=U.dtype)
        ubg = _single(C.explore(lambda: tof.ub_matrix_from_u_and_b(u_matrix=Ug, b_matrix=Bv)), obs, cands, 'ub', case)
        if ubg is not None:
            ok = C.B.const(ubg.dims == ('grain',) and ubg.unit == Bv.unit)
            if ubg.dims == ('grain',):
                for g in range(2):
                    UBg = mm(Ums[g], Bm)
                    ok = ok & C.all_of([ubg.values[g, i, j_] == UBg[i][j_] for i in range(3) for j_ in range(3)])
            chk('UB[g] = U[g].B for an array of orientation matrices (entry-wise), unit of B', ok, sig='C08:ub')
        return {'obligations': obs, 'candidates': cands, 'paths': 1}
    ub = _single(C.explore(lambda: tof.ub_matrix_from_u_and_b(u_matrix=U, b_matrix=Bv)), obs, cands, 'ub', case)
    if ub is None:
        return {'obligations': obs, 'candidates': cands, 'paths': 1}
    UB = mm(Um, Bm)
    chk('UB=U.B (entry-wise)', C.all_of([ub.values[i, j] == UB[i][j] for i in range(3) for j in range(3)]))
    chk('unit(UB)=unit(B)', C.B.const(ub.unit == Bv.unit))
    Qv = [C.sym_var(f'Q{c}') for c in 'xyz']
    Q = _mkvec(Qv, V.parse_unit('1/angstrom'))
    calls = []

    def inv_hook(var):
        k = len(calls)
        Wm = M(f'W{k}_')
        w = _mkmat(Wm, V.Unit() / var.unit, var.dtype.name)
        if var.dims:
            w = V.Variable(_arr=np.broadcast_to(w._a, var._a.shape).copy(), dims=var.dims, unit=w.unit, dtype=w.dtype)
        calls.append((var.copy(), Wm))
        return w

    api.INV_HOOK[0] = inv_hook
    try:
        hkl = _single(C.explore(lambda: tof.hkl_vec_from_Q_vec(Q_vec=Q, ub_matrix=ub, sample_rotation=Rv)), obs, cands, 'hkl', case)
    finally:
        api.INV_HOOK[0] = None
    if hkl is None:
        return {'obligations': obs, 'candidates': cands, 'paths': 1}
    chk('unit(hkl) dimensionless', C.B.const(hkl.unit == V.Unit()))
    h = [hkl.values.reshape(-1)[i] for i in range(3)]
    Mo = mm(Rm, UB)
    # contract of every inverse taken by the code: M_k W_k = W_k M_k = I
    contracts = []
    for var, Wm in calls:
        Mk = [[var.values.reshape(-1, 3, 3)[0][i][j] for j in range(3)] for i in range(3)]
        for P_ in (mm(Mk, Wm), mm(Wm, Mk)):
            contracts += [P_[i][j] == (1 if i == j else 0) for i in range(3) for j in range(3)]
    structural = len(calls) == 1 and chk('structural', C.all_of([calls[0][0].values.reshape(-1, 3, 3)[0][i][j] == Mo[i][j] for i in range(3) for j in range(3)]), record=False).status == 'discharged'
    if structural:
        Wm = calls[0][1]
        chk('inverted matrix = R.(U.B)', C.TRUE)
        WQ = mv(Wm, Qv)
        chk('2pi*hkl = W.Q (W = inv(R.UB))', C.all_of([2 * PI() * h[i] == WQ[i] for i in range(3)]))
        MW = mm(Mo, Wm)
        lhs = mv(Mo, WQ)
        rhs = mv(MW, Qv)
        chk('M(WQ)=(MW)Q', C.all_of([lhs[i] == rhs[i] for i in range(3)]))
        P = M('P')
        chk('(MW=I) => (MW)Q=Q', C.all_of([mv(P, Qv)[i] == Qv[i] for i in range(3)]),
            assumptions=[P[i][j] == (1 if i == j else 0) for i in range(3) for j in range(3)])
    else:
        # another decomposition of the inverse: decide 2 pi R UB hkl = Q directly under the inverse contracts
        back = mv(Mo, [2 * PI() * x for x in h])
        ob = chk(f'2 pi R UB hkl = Q under the contracts of the {len(calls)} inverse(s) taken', C.all_of([back[i] == Qv[i] for i in range(3)]), assumptions=contracts, record=False)
        if ob.status == 'discharged':
            obs.append(ob_dict(ob))
        else:
            obs.append({'name': f'{tagp}:2 pi R UB hkl = Q', 'status': 'violated' if ob.status == 'violated' else 'inconclusive', 't': ob.t,
                        'detail': f'inverse taken of {len(calls)} matrices; the product does not reduce to Q'})
            cands.append(('C08:hkl', case, 'hkl does not satisfy 2 pi R UB hkl = Q'))
    el = _single(C.explore(lambda: tof.hkl_elements_from_hkl_vec(hkl_vec=hkl)), obs, cands, 'hkl-elements', case)
    if el is not None:
        chk('(h,k,l) = components of hkl_vec', C.all_of([el[k].values.reshape(-1)[0] == h[i] for i, k in enumerate('hkl')]))
    if structural and variant == 'scalar':
        Mr = mm(UB, Rm)
        ob = C.prove('canary', C.all_of([calls[0][0].values[i, j] == Mr[i][j] for i in range(3) for j in range(3)]), timeout_ms=20000)
        obs.append({'name': 'hkl:canary:inverted matrix = UB.R (must be refuted)', 'status': 'discharged' if ob.status == 'violated' else 'inconclusive', 't': ob.t})
    return {'obligations': obs, 'candidates': cands, 'paths': 1}


def job_hkl_elements(job, seed):
    """Splitting hkl_vec into h, k, l is lossless whatever (dimensionless) scale its unit carries - Q in 1/nm with UB in
    1/angstrom leaves hkl_vec with the unit angstrom/nm: value x unit of each index = value x unit of the component."""
    from symex import core as C
    from symsc import variable as V
    from .symutil import fresh_run

    sc, tof = _load()
    fresh_run()
    obs, cands = [], []
    case = {'kind': 'hkl-elements'}
    hv = [C.sym_var(f'h{i}') for i in range(3)]
    for tag, unit in (('dimensionless', V.Unit()), ('angstrom/nm', V.parse_unit('angstrom') / V.parse_unit('nm')), ('symbolic scale', V.Unit.symbolic('s_hkl', V.Unit()))):
        hkl = _mkvec(hv, unit)
        el = _single(C.explore(lambda hkl=hkl: tof.hkl_elements_from_hkl_vec(hkl_vec=hkl)), obs, cands, f'hkl-elements[{tag}]', case)
        if el is None:
            continue
        good = C.B.const(set(el) == {'h', 'k', 'l'})
        if set(el) == {'h', 'k', 'l'}:
            for i, k in enumerate('hkl'):
                v = el[k]
                good = good & C.B.const(v.unit is not None and v.unit.dim == unit.dim) & (v.values.reshape(-1)[0] * C.R(v.unit.scale_rat()) == hv[i] * C.R(unit.scale_rat()))
        ob = C.prove(f'hkl-elements[{tag}]:h, k, l carry the same physical numbers as the components of hkl_vec', good)
        obs.append(ob_dict(ob))
        if ob.status == 'violated':
            cands.append(('C08:hkl-elements', case, f'components of an hkl_vec with unit {tag} are not handed out unchanged'))
    return {'obligations': obs, 'candidates': cands, 'paths': 1}


def job_qvec_layout(job, seed):
    """Reassembling components is lossless label by label: the components are 2-d arrays over the same labelled dims, but one
    of them is stored with its dims in the other order (the result of a transpose) - scipp operations align by dim label."""
    which = job
    import numpy as np
    from symex import core as C
    from symsc import variable as V
    from .symutil import fresh_run

    sc, tof = _load()
    fresh_run()
    obs, cands = [], []
    case = {'kind': 'qvec-layout', 'transposed': which}
    n = 2
    vals = {c: [[C.sym_var(f'{c}_{i}{j}') for j in range(n)] for i in range(n)] for c in 'xyz'}
    unit = V.Unit() / V.parse_unit('angstrom')

    def mk(c, transposed):
        a = np.empty((n, n), dtype=object)
        for i in range(n):
            for j in range(n):
                if transposed:
                    a[j, i] = vals[c][i][j]
                else:
                    a[i, j] = vals[c][i][j]
        return V.Variable(_arr=a, dims=('b', 'a') if transposed else ('a', 'b'), unit=unit, dtype=V.DType.float64)

    comps = {c: mk(c, c in which) for c in 'xyz'}
    tag = f'Q_vec[2-d components, {which or "none"} stored transposed]'
    qv = _single(C.explore(lambda: tof.Q_vec_from_Q_elements(Qx=comps['x'], Qy=comps['y'], Qz=comps['z'])), obs, cands, tag, case)
    if qv is not None:
        good = C.B.const(set(qv.dims) == {'a', 'b'} and qv.unit == unit)
        if set(qv.dims) == {'a', 'b'}:
            for i in range(n):
                for j in range(n):
                    el = qv['a', i]['b', j]
                    ev = list(np.asarray(el._a, dtype=object).reshape(-1))
                    good = good & C.all_of([ev[k] == vals[c][i][j] for k, c in enumerate('xyz')])
        ob = C.prove(f'{tag}:Q_vec[a=i, b=j] = (Qx[a=i, b=j], Qy[a=i, b=j], Qz[a=i, b=j])', good)
        obs.append(ob_dict(ob))
        if ob.status == 'violated':
            cands.append(('C08:Q_vec:layout', case, 'components paired by storage position instead of by dim label'))
    return {'obligations': obs, 'candidates': cands, 'paths': 1}


def job_inv_model(job, seed):
    """The adjugate model of spatial.inv satisfies M.inv(M) = I (so the hook's contract is what the shim itself provides)."""
    from symex import core as C
    from symsc import api
    from .symutil import fresh_run

    sc, tof = _load()
    fresh_run()
    Mm = [[C.sym_var(f'M{i}{j}') for j in range(3)] for i in range(3)]
    Mv = _mkmat(Mm, 'dimensionless')
    det = (Mm[0][0] * (Mm[1][1] * Mm[2][2] - Mm[1][2] * Mm[2][1]) - Mm[0][1] * (Mm[1][0] * Mm[2][2] - Mm[1][2] * Mm[2][0])
           + Mm[0][2] * (Mm[1][0] * Mm[2][1] - Mm[1][1] * Mm[2][0]))
    C.CTX.assume_nonzero(det)
    C.CTX.assume(det != 0)
    p = C.explore(lambda: Mv * sc.spatial.inv(Mv))
    obs = []
    if p and p[0].value is not None:
        prod = p[0].value
        ob = C.prove('inv-model: M.inv(M)=I', C.all_of([prod.values[i, j] == (1 if i == j else 0) for i in range(3) for j in range(3)]))
        obs.append(ob_dict(ob))
    return {'obligations': obs, 'candidates': [], 'paths': 1}


def run(chk):
    sc, tof = _load()
    from symex import loader

    chk.functions = loader.describe_exprs(['tof.Q_elements_from_wavelength', 'tof.Q_vec_from_Q_elements', 'tof.hkl_vec_from_Q_vec', 'tof.ub_matrix_from_u_and_b', 'tof.hkl_elements_from_hkl_vec', 'tof.Q_from_wavelength'], {**globals(), **locals()})
    run_jobs(chk, job_q, ['definition', 'units', 'rescale', 'rotation', 'definition:int64', 'definition:float32', 'units:int64'] + ([f'{w}:{d}' for w in ('units', 'rescale', 'rotation') for d in ('float32', 'int64') if (w, d) != ('units', 'int64')] if chk.tier == 'thorough' else []))
    run_jobs(chk, job_hkl, ['scalar', 'array', 'grains'])
    run_jobs(chk, job_inv_model, [0])
    run_jobs(chk, job_hkl_elements, [0])
    run_jobs(chk, job_qvec_layout, ['', 'y', 'xz'])
    from . import shimval
    shimval.validate(chk, 'qvec', 40 if chk.tier == 'quick' else 1000)
    chk.bounds = {'shapes': 'scalar operands', 'matrices': 'U, B, R arbitrary real 3x3 (non-singular R.UB); W = inv(R.UB) as 9 fresh variables with M.W = I'}
    chk.stubs = ['scipp -> symsc', 'numpy pi -> symbolic pi', 'spatial.inv -> fresh matrix W with contract M.W = I (lemma chain)']
    chk.axioms = ['sin^2(theta) = (1-c)/2 (half-angle, from C03 cos(two_theta)=c)', 'rotation: abstraction lemma + rotation about z']
    chk.assumptions = ['conditioning (kappa <= 1e6) and rounding are outside: exact reals', '|b1|,|b2| > 0']


def replay_real(case):
    import numpy as np
    import scipp as sc
    from scipy.spatial.transform import Rotation
    from scippneutron.conversion import tof as rt

    rng = np.random.default_rng(2)
    bad = []
    if case.get('kind') == 'qvec-layout':
        for trial in range(20):
            n_ = 4 if trial % 2 == 0 else 3
            full = {c: sc.array(dims=['a', 'b'], values=rng.normal(size=(n_, n_)), unit='1/angstrom') for c in 'xyz'}
            arg = {c: (full[c].transpose(['b', 'a']).copy() if c in case.get('transposed', 'y') else full[c]) for c in 'xyz'}
            try:
                qv = rt.Q_vec_from_Q_elements(Qx=arg['x'], Qy=arg['y'], Qz=arg['z'])
            except Exception as e:  # noqa: BLE001
                bad.append(f'components over the same labelled dims, {case.get("transposed")} stored transposed: {type(e).__name__}: {e}'[:200])
                break
            for i in range(n_):
                for j in range(n_):
                    got = list(qv['a', i]['b', j].value)
                    exp = [full[c]['a', i]['b', j].value for c in 'xyz']
                    if got != exp:
                        bad.append(f'Q_vec[a={i}, b={j}] = {got}, components there are {exp} ({case.get("transposed")} stored with dims (b, a))')
                        break
                if bad:
                    break
            if bad:
                break
        return {'reproduced': bool(bad), 'detail': '; '.join(bad[:3])}
    ldt = case.get('wavelength_dtype', 'float64')
    for _ in range(100):
        b1, b2 = rng.normal(size=3) * 10 ** rng.uniform(-2, 2), rng.normal(size=3) * 10 ** rng.uniform(-2, 2)
        lam = 10 ** rng.uniform(-2, 2)
        if ldt == 'int64':
            lam = int(rng.integers(1, 20))
        elif ldt == 'float32':
            lam = float(np.float32(lam))
        q = rt.Q_elements_from_wavelength(wavelength=sc.scalar(lam, unit='angstrom', dtype=ldt), incident_beam=sc.vector(b1, unit='m'), scattered_beam=sc.vector(b2, unit='mm'))
        exp = 2 * np.pi / lam * (b1 / np.linalg.norm(b1) - b2 / np.linalg.norm(b2))
        got = np.array([q['Qx'].value, q['Qy'].value, q['Qz'].value])
        if not np.allclose(got, exp, rtol=1e-12 if ldt != 'float32' else 1e-6, atol=(1e-13 if ldt != 'float32' else 1e-7) * np.linalg.norm(exp)):
            bad.append(f'Q {got} vs {exp}')
        if q['Qx'].unit != sc.Unit('1/angstrom'):
            bad.append(f'unit {q["Qx"].unit}')
        qv = rt.Q_vec_from_Q_elements(Qx=q['Qx'], Qy=q['Qy'], Qz=q['Qz'])
        if not np.array_equal(qv.value, got):
            bad.append('Q_vec reassembly')
        R = Rotation.random(random_state=rng.integers(1 << 30)).as_matrix()
        U = Rotation.random(random_state=rng.integers(1 << 30)).as_matrix()
        B = rng.normal(size=(3, 3)) + 3 * np.eye(3)
        ub = rt.ub_matrix_from_u_and_b(u_matrix=sc.spatial.rotations_from_rotvecs(sc.vector(Rotation.from_matrix(U).as_rotvec(), unit='rad')),
                                       b_matrix=sc.spatial.linear_transform(value=B, unit='1/angstrom'))
        if not np.allclose(ub.value, U @ B, rtol=1e-12, atol=1e-12):
            bad.append('UB != U.B')
        # one orientation matrix per grain (array-valued u_matrix)
        Us = [Rotation.random(random_state=rng.integers(1 << 30)) for _ in range(3)]
        Uarr = sc.spatial.rotations_from_rotvecs(sc.vectors(dims=['grain'], values=[u_.as_rotvec() for u_ in Us], unit='rad'))
        ubs = rt.ub_matrix_from_u_and_b(u_matrix=Uarr, b_matrix=sc.spatial.linear_transform(value=B, unit='1/angstrom'))
        if ubs.dims != ('grain',) or any(not np.allclose(ubs.values[g_], u_.as_matrix() @ B, rtol=1e-12, atol=1e-12) for g_, u_ in enumerate(Us)):
            bad.append(f'UB[g] != U[g].B for an array of {len(Us)} orientation matrices')
        Rv = sc.spatial.rotations_from_rotvecs(sc.vector(Rotation.from_matrix(R).as_rotvec(), unit='rad'))
        hkl = rt.hkl_vec_from_Q_vec(Q_vec=qv, ub_matrix=ub, sample_rotation=Rv)
        back = 2 * np.pi * R @ U @ B @ hkl.value
        if not np.allclose(back, got, rtol=1e-9, atol=1e-9 * np.linalg.norm(got)):
            bad.append(f'2pi R UB hkl = {back} vs Q = {got}')
        # rotations given as explicit quaternions, incl. exact half turns (real part exactly 0) and a negative real part
        s_ = 2 ** -0.5
        for quat in ([0.0, 1.0, 0.0, 0.0], [0.0, 0.0, 1.0, 0.0], [s_, s_, 0.0, 0.0], [0.5, -0.5, 0.5, -0.5], [0.0, 0.6, 0.0, 0.8]):
            Rq = sc.spatial.rotation(value=quat)
            Rm = Rotation.from_quat(quat).as_matrix()
            hq = rt.hkl_vec_from_Q_vec(Q_vec=qv, ub_matrix=ub, sample_rotation=Rq)
            back = 2 * np.pi * Rm @ U @ B @ hq.value
            if not np.allclose(back, got, rtol=1e-9, atol=1e-9 * np.linalg.norm(got)):
                bad.append(f'sample rotation given as the quaternion {quat}: 2pi R UB hkl = {back} vs Q = {got}')
                break
        # one rotation per scan point (array-valued sample_rotation)
        Rs = [Rotation.random(random_state=rng.integers(1 << 30)) for _ in range(3)]
        Rarr = sc.spatial.rotations_from_rotvecs(sc.vectors(dims=['scan'], values=[r_.as_rotvec() for r_ in Rs], unit='rad'))
        hk = rt.hkl_vec_from_Q_vec(Q_vec=qv, ub_matrix=ub, sample_rotation=Rarr)
        for i_, r_ in enumerate(Rs):
            back = 2 * np.pi * r_.as_matrix() @ U @ B @ hk.values[i_]
            if not np.allclose(back, got, rtol=1e-9, atol=1e-9 * np.linalg.norm(got)):
                bad.append(f'array sample_rotation: 2pi R UB hkl = {back} vs Q = {got}')
                break
        el = rt.hkl_elements_from_hkl_vec(hkl_vec=hkl)
        if [el['h'].value, el['k'].value, el['l'].value] != list(hkl.value) or any(el[k_].unit != hkl.unit for k_ in 'hkl'):
            bad.append('hkl split')
        # Q in 1/nm with UB in 1/angstrom: hkl_vec carries the unit angstrom/nm; the indices are the same physical numbers
        q_nm = sc.vector(got * 10.0, unit='1/nm')
        hkl_nm = rt.hkl_vec_from_Q_vec(Q_vec=q_nm, ub_matrix=ub, sample_rotation=Rv)
        el_nm = rt.hkl_elements_from_hkl_vec(hkl_vec=hkl_nm)
        idx = np.array([el_nm[k_].to(unit='one', copy=False).value if el_nm[k_].unit != sc.units.one else el_nm[k_].value for k_ in 'hkl'])
        if not np.allclose(idx, hkl.value, rtol=1e-9, atol=1e-12 * np.linalg.norm(hkl.value)):
            bad.append(f'h, k, l for Q given in 1/nm: {idx.tolist()} (unit {el_nm["h"].unit}), for the same Q in 1/angstrom: {list(hkl.value)}')
    return {'reproduced': bool(bad), 'detail': '; '.join(bad[:3])}
