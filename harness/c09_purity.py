"""C09 - computations never modify their arguments; results do not depend on call history."""
from __future__ import annotations

from fractions import Fraction

from .common import ob_dict, run_jobs
from . import c07_units as c07

# additional entry points (module, function, {arg: kind}) beyond the C07 table
EXTRA = [
    ('conversion.beamline', 'straight_incident_beam', {'source_position': 'vlength', 'sample_position': 'vlength'}),
    ('conversion.beamline', 'straight_scattered_beam', {'position': 'vlength', 'sample_position': 'vlength'}),
    ('conversion.beamline', 'total_beam_length', {'L1': 'length', 'L2': 'length'}),
    ('conversion.beamline', 'total_straight_beam_length_no_scatter', {'source_position': 'vlength', 'position': 'vlength'}),
    ('conversion.beamline', 'beam_aligned_unit_vectors', {'incident_beam': 'vlength', 'gravity': 'vaccel'}),
    ('conversion.beamline', 'scattering_angle_in_yz_plane', {'incident_beam': 'vlength', 'scattered_beam': 'vlength', 'wavelength': 'wavelength', 'gravity': 'vaccel'}),
    ('conversion.tof', 'Q_vec_from_Q_elements', {'Qx': 'invlength', 'Qy': 'invlength', 'Qz': 'invlength'}),
]


def _entries():
    out = []
    for mod, fn, args, _u, _d in c07.SPECS:
        out.append((mod, fn, args))
    out += EXTRA
    return out


def _buffers_of(x):
    from symsc.variable import Variable

    if isinstance(x, Variable):
        return {x._buf.id}
    return set()


def job_args(j, seed):
    """Phase 1: generic units; phase 2: every argument re-presented in exactly the unit/dtype an internal
    copy=False conversion targets, so that the conversion aliases the caller's buffer."""
    ei = j
    from symex import core as C
    from symsc import variable as V
    from symsc.units import parse_unit
    from .symutil import fresh_run

    mod, fname, args = _entries()[ei]
    m = c07._load(mod)
    fresh_run()
    f = getattr(m, fname)
    obs, cands = [], []
    case = {'kind': 'args', 'entry': ei, 'mod': mod, 'fname': fname}
    C.CTX.fork_timeout_ms = 2000

    def build(overrides):
        kw = {}
        for a, k in args.items():
            v = c07._mk(a, k, None, 'float64', True if k not in ('vaccel',) else False)
            if fname in ('total_beam_length',) and a == 'L2':
                v = c07._mk(a, k, None, 'float64', 'L1')
            if fname in ('straight_incident_beam', 'straight_scattered_beam', 'total_straight_beam_length_no_scatter') and a != list(args)[0]:
                v = c07._mk(a, k, None, 'float64', list(args)[0])
            if fname == 'time_at_sample_from_tof' and a == 'tof':
                v = c07._mk(a, k, None, 'float64', 'pulse_time')
            if fname == 'time_at_sample_from_tof' and a == 'wavelength':
                from symsc.api import to_unit
                v = to_unit(c07._mk(a, k, None, 'float64', False), 'angstrom')
            if fname == 'Q_vec_from_Q_elements' and a != 'Qx':
                v = c07._mk(a, k, None, 'float64', 'Qx')
            if a in overrides:
                unit, dt = overrides[a]
                base = c07._mk(a, k, None, 'float64', False)
                if unit is not None and base.unit.dim == unit.dim:
                    from symsc.api import to_unit
                    base = to_unit(base, unit)
                if dt is not None and dt.name in ('float32', 'float64') and not base.elem:
                    base = base.astype(dt)
                v = base
            kw[a] = v
        return kw

    def run_once(overrides):
        kw = build(overrides)
        V.WRITE_LOG.clear()
        V.CONV_LOG.clear()
        argb = {}
        for a, v in kw.items():
            argb[v._buf.id] = a
        snapshot = {a: (v._a.copy(), v.unit) for a, v in kw.items()}
        paths = C.explore(lambda: (f(**kw), [(b.id) for b in V.WRITE_LOG], [(b.id, u, d) for b, u, d in V.CONV_LOG]), max_paths=24)
        return kw, argb, snapshot, paths

    phases = [('generic units', {})]
    targets = {}
    done = set()
    total_paths = 0
    while phases:
        pname, ov = phases.pop(0)
        kw, argb, snap, paths = run_once(ov)
        total_paths += len(paths)
        for k, p in enumerate(paths):
            if p.inconclusive or p.exc is not None:
                continue
            res, written, convs = p.value
            hit = sorted({argb[w] for w in written if w in argb})
            # values really unchanged (in-place writes through views change the caller's array)
            changed = [a for a, v in kw.items() if any((x is not y) for x, y in zip(v._a.flat, snap[a][0].flat)) or v.unit != snap[a][1]]
            ob = C.prove(f'{fname}[{pname}]:path{k}:no argument buffer written', C.B.const(not hit and not changed), pc=p.pc)
            obs.append(ob_dict(ob))
            if hit or changed:
                cands.append((f'C09:args:{fname}', {**case, 'phase': pname, 'args': hit or changed}, f'writes to {hit or changed}'))
            for bid, u, d in convs:
                if bid in argb:
                    a = argb[bid]
                    key = (a, str(u), str(d))
                    if key not in done and pname == 'generic units':
                        done.add(key)
                        targets.setdefault(a, []).append((u, d))
        if pname == 'generic units':
            # phase 2: one run per recorded target, and one with all first targets at once
            for a, lst in targets.items():
                for (u, d) in lst[:3]:
                    phases.append((f'{a} already in {u or ""}{"/" + d.name if d is not None else ""}', {a: (u, d)}))
            if len(targets) > 1:
                phases.append(('all conversion targets at once', {a: lst[0] for a, lst in targets.items()}))
    if not obs:
        obs.append({'name': f'{fname}:runs', 'status': 'inconclusive', 'detail': 'no returning path', 't': 0})
    return {'obligations': obs, 'candidates': cands, 'paths': total_paths}


def job_factories(j, seed):
    """Factories / combinators / lookups: call, mutate everything reachable from the result, call again: same as the first time."""
    which = j
    import copy
    from symex import core as C
    from symex import loader
    from .symutil import fresh_run

    sc = loader.install_shim()
    fresh_run()
    obs, cands = [], []
    case = {'kind': 'factory', 'which': which}

    def chk(name, ok):
        ob = C.prove(f'{which}:{name}', C.B.const(bool(ok)))
        obs.append(ob_dict(ob))
        if not ok:
            cands.append((f'C09:factory:{which}', case, name))

    if which == 'graphs':
        gt = loader.load('conversion.graph.tof')
        gb = loader.load('conversion.graph.beamline')
        conv = loader.load('core.conversions')
        facts = [(f'tof.{n}({o!r})', (lambda n=n, o=o: getattr(gt, n)(o))) for n in ('elastic', 'kinematic', 'elastic_dspacing', 'elastic_energy', 'elastic_Q', 'elastic_Q_vec', 'elastic_hkl', 'elastic_wavelength') for o in ('tof', 'wavelength')]
        facts += [(f'tof.{n}(tof)', (lambda n=n: getattr(gt, n)('tof'))) for n in ('direct_inelastic', 'indirect_inelastic')]
        facts += [(f'beamline.beamline({s})', (lambda s=s: gb.beamline(scatter=s))) for s in (True, False)]
        facts += [(f'beamline.{n}()', (lambda n=n: getattr(gb, n)())) for n in ('incident_beam', 'scattered_beam', 'two_theta', 'L1', 'L2')]
        facts += [(f'beamline.Ltotal({s})', (lambda s=s: gb.Ltotal(scatter=s))) for s in (True, False)]
        facts += [(f'conversion_graph({o},{t},{s},{m})', (lambda o=o, t=t, s=s, m=m: conv.conversion_graph(o, t, s, m)))
                  for o, t, s, m in (('tof', 'dspacing', True, 'elastic'), ('tof', 'L1', True, 'elastic'), ('tof', 'energy_transfer', True, 'direct_inelastic'), ('tof', 'wavelength', False, 'elastic'))]
        for name, fct in facts:
            a = fct()
            before = dict(a)
            a['__poison__'] = None
            for k_ in list(a):
                if k_ != '__poison__':
                    a[k_] = None
                    break
            b = fct()
            chk(f'{name}: second call unaffected by mutation of the first result', b == before and b is not a)
    elif which == 'models':
        mod = loader.load('peaks.model')
        g = mod.GaussianModel(prefix='a_')
        names = g.param_names
        names.add('poison')
        chk('param_names returns a copy', g.param_names == {'a_amplitude', 'a_loc', 'a_scale'})
        h = g.with_prefix('b_')
        h._param_names.add('poison')
        chk('with_prefix: independent copy', g._param_names == {'amplitude', 'loc', 'scale'} and g.prefix == 'a_' and h.prefix == 'b_')
        comp = g + mod.PolynomialModel(degree=1, prefix='p_')
        comp._left._param_names.add('zzz') if False else None
        comp2 = g + mod.PolynomialModel(degree=1, prefix='p_')
        chk('__add__: fresh composite each time', comp is not comp2 and comp.param_names == comp2.param_names)
        cw = comp.with_prefix('x')
        cw._left._prefix = 'MUT'
        chk('with_prefix of a composite deep-copies its parts', comp._left.prefix == 'a_')
    elif which == 'cif':
        import sys, types
        from . import c14_cif
        sc_, cif = c14_cif._load()
        cif.str = str
        c0 = cif.CIF('blk', comment='c')
        c1 = c0.with_reducers('prog')
        c2 = c0.with_authors(cif.Person(name='N', corresponding=True, role='r'))
        chk('with_reducers / with_authors do not modify the original', c0._reducers == [] and c0._authors == [] and c1._reducers == ['prog'] and len(c2._authors) == 1)
        c3 = c1.copy()
        c3._reducers.append('x')
        c3._content.append('y')
        c3._authors.append('z')
        chk('CIF.copy: independent lists', c1._reducers == ['prog'] and c1._content == [] and c1._authors == [])
        # every public attribute a caller can assign on a derived builder leaves the template and its other descendants alone
        t = cif.CIF('tmpl', comment='tc')
        a_ = t.with_reducers('r1')
        b_ = t.with_reducers('r2')
        cpy = t.copy()
        a_.name = 'run_1'
        a_.comment = 'ca'
        chk('renaming / re-commenting a derived builder does not rename the template, a sibling or a copy',
            t.name == 'tmpl' and b_.name == 'tmpl' and cpy.name == 'tmpl' and t.comment == 'tc' and b_.comment == 'tc' and a_.name == 'run_1')
        cpy.name = 'copy'
        chk('renaming a copy does not rename the original', t.name == 'tmpl' and a_.name == 'run_1')
        # writers leave the builder they are given as it was: saving (with or without a one-off comment) neither re-comments
        # the builder nor accumulates content in it, so a second save writes the same document as the first
        import io as _io
        if not hasattr(sys.modules['scippneutron'], '__version__'):
            sys.modules['scippneutron'].__version__ = '0.0.0'
        wb = cif.CIF('wb', comment='original comment').with_reducers('prog').with_authors(cif.Person(name='N', corresponding=True, role='r'))
        state = lambda b: (b.name, b.comment, list(b._reducers), len(b._authors), len(b._content), len(b._block._content) if hasattr(b, '_block') and hasattr(b._block, '_content') else None)  # noqa: E731
        st0 = state(wb)
        f1, f2, f3 = _io.StringIO(), _io.StringIO(), _io.StringIO()
        wb.save(f1)
        cif.save_cif(f2, wb, comment='one-off comment')
        st1 = state(wb)
        wb.save(f3)
        chk('CIF.save / save_cif(builder, comment=...) leave the builder unchanged (name, comment, reducers, authors, content)', st0 == st1)
        import re as _re
        norm = lambda t_: _re.sub(r'[0-9]+', 'N', t_)  # noqa: E731  (time stamp and generated author ids differ between saves)
        chk('a second save of the same builder writes the same document as the first (up to the time stamp and generated ids)', norm(f1.getvalue()) == norm(f3.getvalue()) and len(f1.getvalue()) > 0)
        chk('the one-off comment of save_cif goes into that file only', 'one-off comment' in f2.getvalue() and 'one-off comment' not in f3.getvalue())
        b0 = cif.Block('n', [{'a.x': 1}])
        b1 = b0.copy()
        b1.add({'a.y': 2})
        b1.name = 'other'
        chk('Block.copy: independent content list and name', len(b0._content) == 1 and b0.name == 'n')
    elif which == 'tof':
        # container arguments: the list of choppers handed to FrameSequence.chop is the caller's (its order may carry meaning,
        # e.g. a parallel list of names) and stays as it was, whatever order the choppers are applied in
        import sys
        cc = loader.load('tof.chopper_cascade')
        sc_ = sys.modules['scipp']
        mk = lambda d, o, c: cc.Chopper(distance=sc_.scalar(d, unit='m'), time_open=sc_.array(dims=['slit'], values=[o], unit='s'), time_close=sc_.array(dims=['slit'], values=[c], unit='s'))  # noqa: E731
        far, near, mid = mk(2.5, 0.002, 0.006), mk(1.5, 0.001, 0.004), mk(2.0, 0.0015, 0.005)
        for order in ([far, near], [far, near, mid], [near, far]):
            lst = list(order)
            seq = cc.FrameSequence.from_source_pulse(sc_.scalar(0.0, unit='s'), sc_.scalar(0.003, unit='s'), sc_.scalar(1.0, unit='angstrom'), sc_.scalar(10.0, unit='angstrom'))
            C.CTX.concrete_env = {'h_planck': 6.62607015e-34, 'm_neutron': 1.67492749804e-27}  # what is clipped is C11's subject: numbers here
            try:
                seq.chop(lst)
            finally:
                C.CTX.concrete_env = None
            chk(f'FrameSequence.chop leaves the caller\'s list of {len(order)} choppers in its order', len(lst) == len(order) and all(a_ is b_ for a_, b_ in zip(lst, order, strict=True)))
    elif which == 'atoms':
        atoms = loader.load('atoms')
        a = atoms.Atom.for_isotope('3He')
        w0, m0 = a.atomic_weight.value, a.atomic_mass.value
        x = a.atomic_weight
        x.value = 123.0
        y = a.atomic_mass
        y.value = 456.0
        b = atoms.Atom.for_isotope('3He')
        chk('Atom.for_isotope: later lookups unaffected by writes to earlier results', bool(b.atomic_weight.value == w0) and bool(b.atomic_mass.value == m0))
        sp = atoms.ScatteringParams.for_isotope('V')
        keep = {k_: (None if getattr(sp, k_) is None else (getattr(sp, k_).value, getattr(sp, k_).variance, getattr(sp, k_).unit)) for k_ in ('total_scattering_cross_section', 'absorption_cross_section', 'coherent_scattering_length_re')}
        for k_ in keep:
            v = getattr(sp, k_)
            if v is not None:
                v.value = 123.0
                v.unit = 'm'
        sp2 = atoms.ScatteringParams.for_isotope('V')
        same = all((getattr(sp2, k_) is None and keep[k_] is None) or (bool(getattr(sp2, k_).value == keep[k_][0]) and getattr(sp2, k_).unit == keep[k_][2]) for k_ in keep)
        chk('ScatteringParams.for_isotope: later lookups unaffected by writes to earlier results', same)
    return {'obligations': obs, 'candidates': cands, 'paths': 1}


def job_absorption(j, seed):
    """Public entry points of the absorption module: building a Cylinder from caller-owned variables and asking it for its
    centre, volume, path lengths and integration points leaves every one of those variables as it was (buffers not written,
    values unchanged) - for ANY axis vector, not only for axes whose computed norm happens to be exactly 1."""
    what, budget = j
    import numpy as np
    from symex import core as C
    from symsc import variable as V
    from . import c18_cylinder as c18
    from .symutil import fresh_run, sym_unit

    sc, cyl, base = c18._load()
    fresh_run()
    obs, cands = [], []
    case = {'kind': 'absorption', 'what': what}
    uL = sym_unit('L', 'm')
    comps = lambda nm: [C.sym_var(f'{nm}_{x}') for x in 'xyz']  # noqa: E731
    if what == 'unit-axis':
        a = c18._unit_vec(C, 'a')
    else:
        a = comps('a')  # a direction given un-normalised
        n_ = C.rsqrt(a[0] * a[0] + a[1] * a[1] + a[2] * a[2], nonneg=True)
        C.CTX.assume(n_ > 0)
        C.CTX.assume_nonzero(n_)
    args = {'symmetry_line': c18._vecvar(sc, a, 'dimensionless'), 'center_of_base': c18._vecvar(sc, comps('c'), uL),
            'radius': sc.scalar(C.sym_var('r', sign='+'), unit=uL), 'height': sc.scalar(C.sym_var('h', sign='+'), unit=uL)}
    start, direction = c18._vecvar(sc, comps('p'), uL), c18._vecvar(sc, comps('n'), 'dimensionless')
    tracked = {**args, 'start': start, 'direction': direction}
    snap = {k: [x for x in v._a.reshape(-1)] for k, v in tracked.items()}
    V.WRITE_LOG.clear()
    C.CTX.fork_timeout_ms = 2000
    steps = {}

    def run_():
        shape = cyl.Cylinder(**args)
        steps['constructed'] = {b.id for b in V.WRITE_LOG}
        shape.center, shape.volume  # noqa: B018
        try:
            shape.beam_intersection(start, direction)
        except C.HarnessError:
            raise
        return True

    paths = C.explore(run_, max_paths=budget)
    written = {b.id for b in V.WRITE_LOG}
    ok_paths = [p for p in paths if not p.inconclusive]
    for k, v in tracked.items():
        ob = C.prove(f'absorption[{what}]: Cylinder(...), center, volume, beam_intersection do not write to the caller\'s {k}', C.B.const(v._buf.id not in written))
        obs.append(ob_dict(ob))
        if ob.status != 'discharged':
            cands.append((f'C09:absorption:{k}', case, f'the caller\'s {k} is written'))
        now = [x for x in v._a.reshape(-1)]
        same = C.all_of([C.R.lift(x) == C.R.lift(y) for x, y in zip(now, snap[k], strict=True)])
        ob = C.prove(f'absorption[{what}]: value of the caller\'s {k} unchanged', same)
        obs.append(ob_dict(ob))
        if ob.status == 'violated':
            cands.append((f'C09:absorption:{k}', case, f'the caller\'s {k} holds another value afterwards'))
    ob = C.prove(f'absorption[{what}]: some path completes ({len(ok_paths)} followed to the end; path budget {budget}; the arithmetic of the remaining where-branches is C18\'s subject)', C.B.const(len(ok_paths) >= 1))
    obs.append(ob_dict(ob))
    return {'obligations': obs, 'candidates': cands, 'paths': len(paths)}


def run(chk):
    from symex import loader

    loader.install_shim()
    ents = _entries()
    fl = []
    for mod, fn, _a in ents:
        fl.append(getattr(loader.load(mod), fn))
    chk.functions = loader.describe(fl)
    run_jobs(chk, job_args, list(range(len(ents))))
    run_jobs(chk, job_factories, ['graphs', 'models', 'cif', 'atoms', 'tof'])
    run_jobs(chk, job_absorption, [('any-axis', 5)] if chk.tier == 'quick' else [('any-axis', 16), ('unit-axis', 16)])
    chk.bounds = {'entry points': len(ents), 'aliasing': 'phase 1 records every copy=False conversion of an argument buffer; phase 2 re-runs with the argument already in that unit/dtype (single targets and all at once)',
                  'factories': 'one call-mutate-call step from arbitrary earlier history (inductive); containers are plain dict/list/set so aliasing is concrete'}
    chk.stubs = ['scipp -> symsc with buffer identities, a write log (in-place operators, out=, setitem, value/values/unit setters) and a conversion log']
    chk.axioms = []
    chk.assumptions = ['models, fitting, chopper and io entry points are covered by the no-write obligations of C16, C17, C11, C13; absorption: constructor, center, volume, beam_intersection here, quadrature and transmission map in C18',
                       'factory obligations are decided on concrete object graphs (trivial for the solver)']


def replay_real(case):
    import numpy as np
    import scipp as sc

    bad = []
    if case['kind'] == 'absorption':
        from scippneutron.absorption import Cylinder

        rng = np.random.default_rng(5)
        axes = [[0.0, 3.0, 4.0], [1.0, 1.0, 0.0], [0.0, 0.0, 1.0], [2 ** -0.5, 0.0, 2 ** -0.5]] + [list(rng.normal(size=3)) for _ in range(6)]
        for ax in axes:
            args = {'symmetry_line': sc.vector(ax), 'center_of_base': sc.vector(rng.normal(size=3), unit='mm'), 'radius': sc.scalar(2.0, unit='mm'), 'height': sc.scalar(7.0, unit='mm')}
            start, direction = sc.vector(rng.normal(size=3), unit='mm'), sc.vector([0.0, 0.6, 0.8])
            keep = {k: v.copy() for k, v in {**args, 'start': start, 'direction': direction}.items()}
            for round_ in range(2):
                try:
                    shape = Cylinder(**args)
                    shape.center, shape.volume  # noqa: B018
                    shape.beam_intersection(start, direction)
                    shape.quadrature('cheap')
                except Exception as e:  # noqa: BLE001
                    break
                for k, v in {**args, 'start': start, 'direction': direction}.items():
                    if not sc.identical(v, keep[k]):
                        bad.append(f'Cylinder(symmetry_line={ax}) / its methods changed the caller\'s {k}: {keep[k].values.tolist()} -> {v.values.tolist()} (round {round_ + 1})')
            if bad:
                break
        return {'reproduced': bool(bad), 'detail': '; '.join(bad[:2])}
    if case['kind'] == 'args':
        import importlib

        from . import c07_units

        m = importlib.import_module('scippneutron.' + case['mod'])
        f = getattr(m, case['fname'])
        ents = {(a, b): c for a, b, c in _entries()}
        args = ents[(case['mod'], case['fname'])]
        rng = np.random.default_rng(11)
        unit_choices = {'time': ['s', 'us', 'ms'], 'length': ['m', 'mm'], 'energy': ['meV', 'J'], 'wavelength': ['angstrom', 'm', 'nm'], 'invlength': ['1/angstrom', '1/m'],
                        'angle': ['rad', 'deg'], 'vlength': ['m', 'mm'], 'vaccel': ['m/s^2'], 'abs_time': ['s', 'us']}
        import itertools as it
        for units in it.islice(it.product(*[unit_choices[k] for k in args.values()]), 0, 64):
            for dt in ('float64', 'float32'):
                kw = {}
                for (a, k), u in zip(args.items(), units, strict=True):
                    if k in ('vlength', 'vaccel'):
                        kw[a] = sc.vector(rng.normal(size=3) + np.array([0, 0, 3.0]), unit=u)
                        if case['fname'].startswith('scattering') or case['fname'] == 'beam_aligned_unit_vectors':
                            kw[a] = sc.vector([0.0, -9.81, 0.0], unit=u) if k == 'vaccel' else (sc.vector([0.0, 0.0, 10.0], unit=u) if a == 'incident_beam' else kw[a])
                    else:
                        kw[a] = sc.array(dims=['x'], values=rng.uniform(1.0, 2.0, size=3), unit=u).astype(dt)
                keep = {a: v.copy() for a, v in kw.items()}
                try:
                    f(**kw)
                except Exception:  # noqa: BLE001
                    continue
                for a in kw:
                    if not sc.identical(kw[a], keep[a]):
                        bad.append(f'{case["fname"]}: argument {a} ({units}, {dt}) was modified')
                if bad:
                    break
            if bad:
                break
    else:
        which = case['which']
        if which == 'atoms':
            from scippneutron import atoms

            sp = atoms.ScatteringParams.for_isotope('V')
            orig = sp.absorption_cross_section.copy()
            sp.absorption_cross_section.value = 123.0
            sp2 = atoms.ScatteringParams.for_isotope('V')
            if not sc.identical(sp2.absorption_cross_section, orig):
                bad.append(f'ScatteringParams.for_isotope("V").absorption_cross_section is {sp2.absorption_cross_section.value} after a caller modified an earlier result (table: {orig.value})')
            sp2.absorption_cross_section.value = orig.value
            a = atoms.Atom.for_isotope('3He')
            w = a.atomic_weight.copy()
            x = a.atomic_weight
            x.value = 1.0
            if not sc.identical(atoms.Atom.for_isotope('3He').atomic_weight, w):
                bad.append('Atom weight changed')
        elif which == 'graphs':
            from scippneutron.conversion.graph import beamline, tof
            from scippneutron import conversion_graph

            for fct in (lambda: tof.elastic('tof'), lambda: beamline.beamline(scatter=True), lambda: conversion_graph('tof', 'dspacing', True, 'elastic')):
                a = fct()
                before = dict(a)
                a.clear()
                if fct() != before:
                    bad.append('graph factory returns shared state')
        elif which == 'cif':
            import io as _io
            from scippneutron.io import cif

            t = cif.CIF('tmpl', comment='tc')
            a_ = t.with_reducers('r1')
            b_ = t.with_reducers('r2')
            cpy = t.copy()
            a_.name = 'run_1'
            a_.comment = 'ca'
            if (t.name, b_.name, cpy.name) != ('tmpl', 'tmpl', 'tmpl') or t.comment != 'tc' or b_.comment != 'tc':
                bad.append(f'after renaming one derived builder: template {t.name!r}, sibling {b_.name!r}, copy {cpy.name!r}')
            f = _io.StringIO()
            b_.save(f)
            if 'data_tmpl' not in f.getvalue():
                bad.append('a sibling is saved under the name given to another builder')
            c3 = a_.copy()
            c3._reducers.append('x')
            if a_._reducers != ['r1']:
                bad.append('copy shares the reducer list')
            wb = cif.CIF('wb', comment='original comment').with_reducers('prog').with_authors(cif.Person(name='N', corresponding=True, role='r'))
            f1, f2, f3 = _io.StringIO(), _io.StringIO(), _io.StringIO()
            wb.save(f1)
            cif.save_cif(f2, wb, comment='one-off comment')
            if wb.comment != 'original comment':
                bad.append(f'save_cif(f, builder, comment=...) changed the builder\'s comment to {wb.comment!r}')
            wb.save(f3)
            import re as _re
            if _re.sub(r'[0-9]+', 'N', f1.getvalue()) != _re.sub(r'[0-9]+', 'N', f3.getvalue()):
                bad.append(f'a second save of the same builder writes another document ({len(f1.getvalue().splitlines())} vs {len(f3.getvalue().splitlines())} lines)')
            if 'one-off comment' not in f2.getvalue():
                bad.append('comment= of save_cif missing from the file it was given for')
        elif which == 'tof':
            from scippneutron.tof import chopper_cascade as cc
            mk = lambda d, o, c: cc.Chopper(distance=sc.scalar(d, unit='m'), time_open=sc.array(dims=['slit'], values=[o], unit='s'), time_close=sc.array(dims=['slit'], values=[c], unit='s'))  # noqa: E731
            far, near, mid = mk(2.5, 0.002, 0.006), mk(1.5, 0.001, 0.004), mk(2.0, 0.0015, 0.005)
            for order in ([far, near], [far, near, mid]):
                lst = list(order)
                seq = cc.FrameSequence.from_source_pulse(sc.scalar(0.0, unit='s'), sc.scalar(0.003, unit='s'), sc.scalar(1.0, unit='angstrom'), sc.scalar(10.0, unit='angstrom'))
                seq.chop(lst)
                if len(lst) != len(order) or any(a_ is not b_ for a_, b_ in zip(lst, order, strict=True)):
                    bad.append(f'FrameSequence.chop reordered the caller\'s list of choppers: distances {[float(c_.distance.value) for c_ in order]} -> {[float(c_.distance.value) for c_ in lst]}')
        elif which == 'models':
            from scippneutron.peaks import model as M

            g = M.GaussianModel(prefix='a_')
            g.param_names.add('x')
            h = g.with_prefix('b_')
            if g.param_names != {'a_amplitude', 'a_loc', 'a_scale'} or g.prefix != 'a_' or h.prefix != 'b_':
                bad.append('model combinators share state')
    return {'reproduced': bool(bad), 'detail': '; '.join(bad[:2])}
