"""C10 - disk-chopper open/close times are exactly the openings of the rotating disk."""
from __future__ import annotations

from fractions import Fraction

from .common import ob_dict, run_jobs


def _load():
    from symex import loader
    from symsc.npshim import NPShim

    sc = loader.install_shim()
    dc = loader.load('chopper.disk_chopper')
    dc.np = NPShim()
    cc = loader.load('tof.chopper_cascade')
    return sc, dc, cc


def _arr(vals, unit):
    import numpy as np
    from symsc import variable as V

    a = np.empty((len(vals),), dtype=object)
    for i, v in enumerate(vals):
        a[i] = v
    return V.Variable(_arr=a, dims=('slit',), unit=V.parse_unit(unit), dtype=V.DType.float64)


def _mk_chopper(sc, dc, ratio, sign, begins, ends, beam, phase, fp, angle_unit='rad', freq_unit='Hz', beam_int_deg=False):
    """Angles are given in turns (symbolic); presented in rad or deg.  frequency = sign*ratio*fp.
    beam_int_deg: the beam position is an INTEGER number of degrees (int64) while the other angles are in `angle_unit`."""
    from symex import core as C
    from .symutil import PI

    k = 2 * PI() if angle_unit == 'rad' else C.R.lift(360)
    fs = {'Hz': 1, 'kHz': Fraction(1, 1000)}[freq_unit]
    if beam_int_deg:
        from symsc import variable as V
        beam_var = V.Variable(dims=(), values=beam * 360, unit=V.parse_unit('deg'), dtype=V.DType.int64)
    else:
        beam_var = sc.scalar(beam * k, unit=angle_unit)
    return dc.DiskChopper(
        axle_position=sc.vector([0.0, 0.0, 8.0], unit='m'),
        frequency=sc.scalar(sign * ratio * fp * fs, unit=freq_unit),
        beam_position=beam_var,
        phase=sc.scalar(phase * k, unit=angle_unit),
        slit_begin=_arr([b * k for b in begins], angle_unit),
        slit_end=_arr([e * k for e in ends], angle_unit))


def _valid_slits(C, begins, ends):
    """b_i < e_i, sorted, disjoint, all inside one turn (also across top-dead-centre)."""
    cs = [b < e for b, e in zip(begins, ends, strict=True)]
    for i in range(len(begins) - 1):
        cs.append(ends[i] < begins[i + 1])
    cs.append(ends[-1] < begins[0] + 1)
    return cs


def _openings_obligations(C, tag, obs, cands, case, opens, closes, begins, ends, ratio, sign, beam, phase, assumptions, expect_count=None,
                          sig_prefix='C10:disk', check_disjoint=True, check_complete=True):
    """opens/closes: lists of linear terms in *scaled time* s = t*fp."""
    n = len(opens)

    def a_of(s):  # disk angle (turns) under the beam at scaled time s
        return beam + phase - sign * ratio * s

    def chk(name, goal, sig, extra=()):
        ob = C.prove(f'{tag}:{name}', goal, assumptions=[*assumptions, *extra], timeout_ms=30000)
        obs.append(ob_dict(ob))
        if ob.status == 'violated':
            cands.append((sig, case, name))
        return ob

    if expect_count is not None:
        chk(f'{expect_count} openings reported (one per slit per rotation in the covered span)', C.B.const(n == expect_count and len(closes) == n), f'{sig_prefix}:count')
    edge_open = begins if sign < 0 else ends  # clockwise (f<0): begin <-> open
    nsl = len(begins)
    unsound = 0
    for j in range(n):
        chk(f'opening {j}: open < close', opens[j] < closes[j], f'{sig_prefix}:order')
        # which slit and which turn: a(open_j) - edge_i must be an integer constant for some i
        who = None
        for i in range(nsl):
            d = (a_of(opens[j]) - edge_open[i]).t
            if d.is_const() and d.const_value().denominator == 1:
                who = (i, d.const_value())
                break
        if who is None:
            unsound += 1
            obs.append({'name': f'{tag}:opening {j}: the opening edge of some slit is under the beam at the reported open time', 'status': 'violated', 't': 0,
                        'detail': f'a(open_{j}) - edge is not an integer number of turns for any slit'})
            cands.append((f'{sig_prefix}:spurious-openings', case, f'opening {j} is not an opening of the disk'))
            continue
        i, kturn = who
        s = C.sym_var('s')
        inside = (begins[i] <= a_of(s) - kturn) & (a_of(s) - kturn <= ends[i])
        chk(f'opening {j}: open throughout [open, close] (slit {i}, turn {kturn})', inside, f'{sig_prefix}:soundness', extra=[opens[j] <= s, s <= closes[j]])
        chk(f'opening {j}: duration = slit width / |angular speed|', closes[j] - opens[j] == (ends[i] - begins[i]) / ratio, f'{sig_prefix}:duration')
    if check_disjoint:
        dis = C.TRUE
        for j in range(n):
            for j2 in range(j + 1, n):
                dis = dis & ((closes[j] < opens[j2]) | (closes[j2] < opens[j]))
        chk('reported intervals pairwise disjoint (no duplicates, maximal)', dis, f'{sig_prefix}:duplicate-openings')
    if check_complete and n:
        # every open time inside the covered span lies in some reported interval
        s = C.sym_var('s')
        k = C.sym_var('kturn', is_int=True)
        in_span = C.any_of([opens[j] <= s for j in range(n)]) & C.any_of([s <= closes[j] for j in range(n)])
        is_open = C.any_of([(begins[i] <= a_of(s) + k) & (a_of(s) + k <= ends[i]) for i in range(nsl)])
        covered = C.any_of([(opens[j] <= s) & (s <= closes[j]) for j in range(n)])
        chk('no opening inside the covered time span is missing', covered, f'{sig_prefix}:completeness', extra=[in_span, is_open])
    return unsound


def job_disk(j, seed):
    ratio, sign, nsl, angle_unit, freq_unit, *rest = j
    beam_int = bool(rest and rest[0] == 'beam-int-deg')
    from symex import core as C
    from .symutil import fresh_run

    sc, dc, cc = _load()
    fresh_run()
    ratio = Fraction(ratio)
    obs, cands = [], []
    tag = f'disk[ratio={ratio},sense={"cw" if sign < 0 else "acw"},slits={nsl},{angle_unit},{freq_unit}{",beam position int64 deg" if beam_int else ""}]'
    case = {'kind': 'disk', 'ratio': str(ratio), 'sign': sign, 'nslits': nsl, 'angle_unit': angle_unit, 'freq_unit': freq_unit, 'beam_int_deg': beam_int}
    begins = [C.sym_var(f'b{i}') for i in range(nsl)]
    ends = [C.sym_var(f'e{i}') for i in range(nsl)]
    beam, phase = C.sym_var('beam'), C.sym_var('phase')
    if beam_int:
        # a whole number of degrees: beam (in turns) = B / 360 with B a symbolic integer
        beam = C.sym_var('beamdeg', is_int=True) / 360
    fp = C.sym_var('fp', sign='+')
    ass = _valid_slits(C, begins, ends)
    for a in ass:
        C.CTX.assume(a)
    C.CTX.fork_timeout_ms = 3000

    def run():
        ch = _mk_chopper(sc, dc, ratio, sign, begins, ends, beam, phase, fp, angle_unit, freq_unit, beam_int_deg=beam_int)
        pf = sc.scalar(fp, unit='Hz')
        return ch.time_offset_open(pulse_frequency=pf), ch.time_offset_close(pulse_frequency=pf), ch.open_duration(pulse_frequency=pf)

    paths = C.explore(run)
    good = [p for p in paths if p.exc is None and not p.inconclusive]
    if len(good) != 1 or len(paths) != 1:
        for p in paths:
            if p.exc is not None:
                obs.append({'name': f'{tag}:valid chopper accepted', 'status': 'violated', 'detail': repr(p.exc)[:200], 't': 0})
                cands.append(('C10:disk:raises', case, repr(p.exc)[:100]))
            elif p.inconclusive:
                obs.append({'name': f'{tag}:runs', 'status': 'inconclusive', 'detail': p.inconclusive[:200], 't': 0})
    for p in good[:1]:
        o, c, d = p.value
        ok_unit = o.unit.dim == sc.Unit('s').dim and c.unit.dim == sc.Unit('s').dim
        ob = C.prove(f'{tag}:results are times', C.B.const(ok_unit))
        obs.append(ob_dict(ob))
        so, sc_ = C.R(o.unit.scale_rat()), C.R(c.unit.scale_rat())
        opens = [x * so * fp for x in o.values]
        closes = [x * sc_ * fp for x in c.values]
        nrep = max(int(ratio), 1) + 1
        _openings_obligations(C, tag, obs, cands, case, opens, closes, begins, ends, ratio, sign, beam, phase, [], expect_count=nrep * nsl)
        ob = C.prove(f'{tag}:open_duration = close - open', C.all_of([dd == cc_ - oo for dd, cc_, oo in zip(d.values, c.values, o.values, strict=True)]) & C.B.const(d.unit == o.unit))
        obs.append(ob_dict(ob))
    return {'obligations': obs, 'candidates': cands, 'paths': len(paths)}


def job_cascade(j, seed):
    ratio, sign, nsl, npulses, *more = j
    freq_unit = more[0] if more else 'Hz'  # unit the chopper frequency is written in (the pulse frequency is in Hz)
    from symex import core as C
    from .symutil import fresh_run

    sc, dc, cc = _load()
    fresh_run()
    ratio = Fraction(ratio)
    obs, cands = [], []
    tag = f'cascade[ratio={ratio},sense={"cw" if sign < 0 else "acw"},slits={nsl},pulses={npulses}' + ('' if freq_unit == 'Hz' else f',chopper in {freq_unit}') + ']'
    case = {'kind': 'cascade', 'ratio': str(ratio), 'sign': sign, 'nslits': nsl, 'npulses': npulses, 'freq_unit': freq_unit}
    begins = [C.sym_var(f'b{i}') for i in range(nsl)]
    ends = [C.sym_var(f'e{i}') for i in range(nsl)]
    beam, phase = C.sym_var('beam'), C.sym_var('phase')
    fp = C.sym_var('fp', sign='+')
    for a in _valid_slits(C, begins, ends):
        C.CTX.assume(a)
    C.CTX.fork_timeout_ms = 3000

    def run():
        ch = _mk_chopper(sc, dc, ratio, sign, begins, ends, beam, phase, fp, freq_unit=freq_unit)
        return cc.Chopper.from_disk_chopper(ch, pulse_frequency=sc.scalar(fp, unit='Hz'), npulses=npulses)

    paths = C.explore(run)
    good = [p for p in paths if p.exc is None and not p.inconclusive]
    for p in paths:
        if p.exc is not None:
            obs.append({'name': f'{tag}:runs', 'status': 'violated', 'detail': repr(p.exc)[:200], 't': 0})
            cands.append(('C10:cascade:raises', case, repr(p.exc)[:100]))
        elif p.inconclusive:
            obs.append({'name': f'{tag}:runs', 'status': 'inconclusive', 'detail': p.inconclusive[:200], 't': 0})
    for p in good[:1]:
        ch = p.value
        so = C.R(ch.time_open.unit.scale_rat())
        opens = [x * so * fp for x in ch.time_open.values]
        closes = [x * so * fp for x in ch.time_close.values]
        # the finding recorded for this call site concerns npulses >= 2 only: a single pulse must be exact
        region = 'cascade-multipulse' if npulses >= 2 else 'cascade-singlepulse'
        _openings_obligations(C, tag, obs, cands, case, opens, closes, begins, ends, ratio, sign, beam, phase, [], sig_prefix=f'C10:{region}')
        ob = C.prove(f'{tag}:distance = |axle position|', ch.distance.value == 8)
        obs.append(ob_dict(ob))
    return {'obligations': obs, 'candidates': cands, 'paths': len(paths)}


def job_validation(j, seed):
    """Slit sets are accepted iff begin <= end and the slits are pairwise disjoint on the disk (modulo one turn)."""
    from symex import core as C
    from .symutil import fresh_run

    sc, dc, cc = _load()
    fresh_run()
    obs, cands = [], []
    case = {'kind': 'validation'}
    b = [C.sym_var(f'b{i}') for i in range(2)]
    e = [C.sym_var(f'e{i}') for i in range(2)]
    fp = C.sym_var('fp', sign='+')
    # quantifier: edges within [0, 2) turns, slit widths below one turn
    ass = []
    for x in (*b, *e):
        ass += [x >= 0, x < 2]
    ass += [e[0] - b[0] < 1, e[1] - b[1] < 1]
    for a in ass:
        C.CTX.assume(a)
    C.CTX.fork_timeout_ms = 3000
    paths = C.explore(lambda: _mk_chopper(sc, dc, Fraction(1), -1, b, e, C.R.lift(0), C.R.lift(0), fp, 'deg'))

    def overlap(k):
        return (b[0] <= e[1] + k) & (b[1] + k <= e[0])

    ordered = (b[0] <= e[0]) & (b[1] <= e[1])
    acc = rej = 0
    for k, p in enumerate(paths):
        if p.inconclusive:
            obs.append({'name': f'validation:path{k}', 'status': 'inconclusive', 'detail': p.inconclusive[:200], 't': 0})
            continue
        if p.exc is None:
            acc += 1
            ob = C.prove(f'validation:path{k}:accepted => begin <= end', ordered, pc=p.pc)
            obs.append(ob_dict(ob))
            if ob.status == 'violated':
                cands.append(('C10:validation:order', case, 'begin > end accepted'))
            ob = C.prove(f'validation:path{k}:accepted => slits do not overlap (same turn)', ~overlap(0), pc=p.pc)
            obs.append(ob_dict(ob))
            if ob.status == 'violated':
                cands.append(('C10:validation:overlap', {**case, 'model': {n: float(v) for n, v in (ob.model or {}).items()}}, 'overlapping slits accepted'))
            for kk in (-1, 1):
                ob = C.prove(f'validation:path{k}:accepted => slits do not overlap across top-dead-centre (shift {kk} turn)', ~overlap(kk), pc=p.pc)
                obs.append(ob_dict(ob))
                if ob.status == 'violated':
                    m = {n: float(v) for n, v in (ob.model or {}).items()}
                    cands.append(('C10:validation:overlap-across-tdc', {**case, 'model': m}, f'accepted slits overlapping across TDC: {m}'))
        elif isinstance(p.exc, ValueError):
            rej += 1
            ob = C.prove(f'validation:path{k}:rejected => begin > end or overlapping', ~ordered | overlap(0) | overlap(1) | overlap(-1), pc=p.pc)
            obs.append(ob_dict(ob))
            if ob.status == 'violated':
                cands.append(('C10:validation:false-rejection', {**case, 'model': {n: float(v) for n, v in (ob.model or {}).items()}}, 'valid slits rejected'))
        else:
            obs.append({'name': f'validation:path{k}:raises', 'status': 'violated', 'detail': repr(p.exc)[:200], 't': 0})
            cands.append(('C10:validation:raises', case, repr(p.exc)[:100]))
    ob = C.prove('validation:both outcomes reachable', C.B.const(acc >= 1 and rej >= 1))
    obs.append(ob_dict(ob))
    return {'obligations': obs, 'candidates': cands, 'paths': len(paths)}


def job_detuned(j, seed):
    """A frequency inside the accepted tolerance but not exactly N * pulse frequency (quotient N + eps resp. 1/(M + eps),
    |eps| <= 5e-9, eps symbolic): the number of rotations expanded per pulse period is N (resp. 1 for divisors) for every such eps, so
    each slit still appears once per rotation and no opening of the covered span is missing."""
    N, sign, nsl = j
    from symex import core as C
    from .symutil import fresh_run

    sc, dc, cc = _load()
    fresh_run()
    N = Fraction(N)
    obs, cands = [], []
    tag = f'detuned[ratio~{N},sense={"cw" if sign < 0 else "acw"},slits={nsl}]'
    case = {'kind': 'detuned', 'ratio': str(N), 'sign': sign, 'nslits': nsl}
    eps = C.sym_var('eps')
    C.CTX.assume(eps >= -Fraction(5, 10**9))
    C.CTX.assume(eps <= Fraction(5, 10**9))
    # the acceptance test is |round(q) - q| < 1e-8 on the quotient q (or on 1/q): detune the quotient additively
    with C.oracle():
        ratio = (N + eps) if N >= 1 else 1 / (1 / N + eps)
    begins = [C.sym_var(f'b{i}') for i in range(nsl)]
    ends = [C.sym_var(f'e{i}') for i in range(nsl)]
    beam, phase = C.sym_var('beam'), C.sym_var('phase')
    fp = C.sym_var('fp', sign='+')
    for a in _valid_slits(C, begins, ends):
        C.CTX.assume(a)
    C.CTX.fork_timeout_ms = 5000

    def run():
        ch = _mk_chopper(sc, dc, ratio, sign, begins, ends, beam, phase, fp)
        pf = sc.scalar(fp, unit='Hz')
        o_ = ch.time_offset_open(pulse_frequency=pf)
        # rotations expanded per pulse period, read off the public result: (n + 1) * slits openings are reported
        return C.R.lift(len(o_.values)) / nsl - 1, o_

    paths = C.explore(run, max_paths=64)
    want = max(int(N), 1)
    nret = 0
    for k, p in enumerate(paths):
        if p.inconclusive:
            obs.append({'name': f'{tag}:path{k}', 'status': 'inconclusive', 'detail': p.inconclusive[:200], 't': 0})
            continue
        if p.exc is not None and p.maybe_infeasible:
            # a fork on this path could not be decided within its budget (solver 'unknown'): the path may not exist at all
            obs.append({'name': f'{tag}:path{k}:frequency inside the tolerance accepted', 'status': 'inconclusive', 'detail': 'path of undecided feasibility ends in ' + repr(p.exc)[:120], 't': 0})
            continue
        if p.exc is not None:
            obs.append({'name': f'{tag}:path{k}:frequency inside the tolerance accepted', 'status': 'violated', 'detail': repr(p.exc)[:200], 't': 0})
            m = C.solve([*C.CTX.assumptions, *p.pc])
            cands.append(('C10:detuned:raises', {**case, 'eps': float((m.model or {}).get('eps', 0))}, repr(p.exc)[:100]))
            continue
        nret += 1
        nrot, o = p.value
        c = o
        ob = C.prove(f'{tag}:path{k}:{want} rotation(s) per pulse period', C.R.lift(nrot) == want, pc=p.pc)
        obs.append(ob_dict(ob))
        if ob.status == 'violated':
            cands.append(('C10:detuned:rotations', {**case, 'eps': float((ob.model or {}).get('eps', 0))}, f'{nrot} rotations expanded instead of {want}'))
        ob = C.prove(f'{tag}:path{k}:{(want + 1) * nsl} openings reported (one per slit per rotation in the covered span)', C.B.const(len(o.values) == (want + 1) * nsl and len(c.values) == len(o.values)), pc=p.pc)
        obs.append(ob_dict(ob))
        if ob.status == 'violated':
            m = C.solve([*C.CTX.assumptions, *p.pc])
            cands.append(('C10:detuned:count', {**case, 'eps': float((m.model or {}).get('eps', 0))}, f'{len(o.values)} openings instead of {(want + 1) * nsl}'))
    ob = C.prove(f'{tag}:some path returns', C.B.const(nret >= 1))
    obs.append(ob_dict(ob))
    return {'obligations': obs, 'candidates': cands, 'paths': len(paths)}


def job_frequency(j, seed):
    """Accepted iff the ratio is within 1e-8 of an integer (>= 1) or of the reciprocal of one."""
    from symex import core as C
    from .symutil import fresh_run

    sc, dc, cc = _load()
    fresh_run()
    obs, cands = [], []
    case = {'kind': 'frequency'}
    q = C.sym_var('q', sign='+')
    C.CTX.assume(q >= Fraction(1, 8))
    C.CTX.assume(q <= 16)
    C.CTX.fork_timeout_ms = 5000
    tol = Fraction(1e-8)  # the float literal the code passes
    x = sc.scalar(q, unit='dimensionless')
    paths = C.explore(lambda: dc._is_int_or_inverse_int(x, rtol=sc.scalar(1e-8)))
    m = C.sym_var('m', is_int=True)
    with C.oracle():
        near = (m >= 1) & ((abs(q - m) < tol) | (abs(1 / q - m) < tol))
    t = f = 0
    for k, p in enumerate(paths):
        if p.exc is not None or p.inconclusive:
            obs.append({'name': f'frequency:path{k}', 'status': 'inconclusive' if p.inconclusive else 'violated', 'detail': str(p.inconclusive or repr(p.exc))[:200], 't': 0})
            continue
        if p.value:
            t += 1
            # accepted => exists m: witness is one of round(q), round(1/q) -- stated as: not (forall m: far)
            r = C.solve([*C.CTX.assumptions, *p.pc, *[~near_k for near_k in _near_all(C, q, tol)]], timeout_ms=20000)
            st = 'discharged' if r.status == 'unsat' else ('violated' if r.status == 'sat' else 'inconclusive')
            obs.append({'name': f'frequency:path{k}:accepted => within 1e-8 of an integer multiple or divisor', 'status': st, 't': r.t})
            if st == 'violated':
                cands.append(('C10:frequency:accepts', {**case, 'q': float(r.model.get('q', 0))}, 'accepted ratio is not near an integer or inverse integer'))
        else:
            f += 1
            ob = C.prove(f'frequency:path{k}:rejected => not within 1e-8 of any integer multiple or divisor', ~near, pc=p.pc, timeout_ms=20000)
            obs.append(ob_dict(ob))
            if ob.status == 'violated':
                cands.append(('C10:frequency:rejects', {**case, 'q': float((ob.model or {}).get('q', 0))}, 'valid ratio rejected'))
    ob = C.prove('frequency:both outcomes reachable', C.B.const(t >= 1 and f >= 1))
    obs.append(ob_dict(ob))
    return {'obligations': obs, 'candidates': cands, 'paths': len(paths)}


def _near_all(C, q, tol):
    """For q in [1/8, 16] the candidate integers are 1..17 (for q) and 1..9 (for 1/q)."""
    out = []
    for m in range(0, 18):
        out.append(abs(q - m) < tol if m >= 1 else C.FALSE)
    with C.oracle():
        for m in range(1, 10):
            out.append(abs(1 / q - m) < tol)
    return out


def run(chk):
    sc, dc, cc = _load()
    from symex import loader

    chk.functions = loader.describe_exprs(['dc.DiskChopper.__post_init__', 'dc._check_edges', 'dc._check_edge_overlap', 'dc.DiskChopper.time_offset_open', 'dc.DiskChopper.time_offset_close', 'dc.DiskChopper.time_offset_angle_at_beam', 'dc.DiskChopper._apply_angle_repetitions', 'dc.DiskChopper._source_phase_factor', 'dc._is_int_or_inverse_int', 'dc.DiskChopper.open_duration', 'cc.Chopper.from_disk_chopper'], {**globals(), **locals()})
    ratios = [1, 2, 3, Fraction(1, 2), Fraction(1, 3)] if chk.tier == 'quick' else [1, 2, 3, 4, 5, 8, Fraction(1, 2), Fraction(1, 3), Fraction(1, 4)]
    slits = [1, 2] if chk.tier == 'quick' else [1, 2, 3]
    jobs = [(r, s, n, 'rad', 'Hz') for r in ratios for s in (-1, 1) for n in slits]
    jobs += [(1, 1, 1, 'rad', 'Hz', 'beam-int-deg'), (2, -1, 1, 'rad', 'Hz', 'beam-int-deg'), (1, -1, 1, 'deg', 'Hz', 'beam-int-deg')]
    run_jobs(chk, job_detuned, [(3, -1, 1), (2, 1, 1), ('1/2', 1, 1)] if chk.tier == 'quick' else [(n_, s_, 1) for n_ in (1, 2, 3, 5, '1/2', '1/3') for s_ in (-1, 1)] + [(2, 1, 2)])
    jobs += [(2, -1, 2, 'deg', 'kHz'), (1, 1, 1, 'deg', 'Hz')]
    run_jobs(chk, job_disk, jobs)
    pulses = [1, 2] if chk.tier == 'quick' else [1, 2, 3]
    cratios = [1, 2, 3, Fraction(1, 2), Fraction(1, 3)] if chk.tier == 'quick' else [1, 2, 3, 4, Fraction(1, 2), Fraction(1, 3), Fraction(1, 4)]
    cj = [(r, s, n, p) for r in cratios for s in (-1, 1) for n in slits[:2] for p in pulses]
    cj += [(2, 1, 1, 1, 'kHz'), (Fraction(1, 2), -1, 2, 1, 'kHz')]  # chopper and source frequencies in different units
    run_jobs(chk, job_cascade, cj)
    run_jobs(chk, job_validation, [0])
    run_jobs(chk, job_frequency, [0])
    chk.bounds = {'detuned': 'quotient N + eps or 1/(M + eps), |eps| <= 5e-9 symbolic, N in {1,2,3,5}, M in {2,3}', 'ratios': [str(r) for r in ratios], 'slits': slits, 'pulses': pulses, 'angles': 'beam position, phase, slit edges: arbitrary reals (turns), slits valid',
                  'validation': '2 slits with edges in [0, 2) turns and widths below one turn', 'frequency ratio': 'q in [1/8, 16]'}
    chk.stubs = ['scipp -> symsc (arange, flatten, transpose, sort by key with forking)', 'numpy pi symbolic; uuid4 real']
    chk.axioms = ['rotating disk: angle under the beam at time t is beam_position + phase - omega*t (mod one turn), from the documented time formula',
                  'round half-to-even as an integer-valued term']
    chk.assumptions = ['maximality = soundness + completeness in the covered span + pairwise disjointness', 'time scaled by the pulse frequency (linear arithmetic)']


def replay_real(case):
    import numpy as np
    import scipp as sc
    from scippneutron.chopper import DiskChopper
    from scippneutron.tof.chopper_cascade import Chopper

    bad = []
    rng = np.random.default_rng(4)
    kind = case['kind']

    def disk_open(ch, t):
        # independent disk simulation: angle under the beam at time t (rad)
        # (dtype first: scipp converts integer variables in integer arithmetic)
        w = 2 * np.pi * ch.frequency.to(dtype='float64', copy=False).to(unit='Hz').value
        a = ch.beam_position.to(dtype='float64', copy=False).to(unit='rad').value + ch.phase.to(dtype='float64', copy=False).to(unit='rad').value - w * t
        b = ch.slit_begin.to(dtype='float64', copy=False).to(unit='rad').values
        e = ch.slit_end.to(dtype='float64', copy=False).to(unit='rad').values
        for bi, ei in zip(b, e, strict=True):
            k = np.ceil((bi - a) / (2 * np.pi))
            if bi - 1e-9 <= a + 2 * np.pi * k <= ei + 1e-9:
                return True
        return False

    if kind == 'detuned':
        N = Fraction(case['ratio'])
        eps = case.get('eps', 0.0)
        q = float(N) + eps if N >= 1 else 1.0 / (float(1 / N) + eps)
        want = max(int(N), 1)
        nsl = case['nslits']
        for fp in (14.0, 50.0, 25.0):
            edges = np.sort(rng.uniform(0, 2 * np.pi, size=2 * nsl))
            ch = DiskChopper(axle_position=sc.vector([0.0, 0.0, 8.0], unit='m'), frequency=sc.scalar(case['sign'] * q * fp, unit='Hz'),
                             beam_position=sc.scalar(0.3, unit='rad'), phase=sc.scalar(1.1, unit='rad'),
                             slit_begin=sc.array(dims=['slit'], values=edges[0::2], unit='rad'), slit_end=sc.array(dims=['slit'], values=edges[1::2], unit='rad'))
            pf = sc.scalar(fp, unit='Hz')
            try:
                n = len(ch.time_offset_open(pulse_frequency=pf))
                if n != (want + 1) * nsl:
                    bad.append(f'frequency {case["sign"] * q * fp!r} Hz at pulse frequency {fp} Hz (quotient {q!r}): {n} openings reported, {(want + 1) * nsl} expected ({want} rotation(s) per pulse period)')
            except ValueError as e:
                bad.append(f'frequency {case["sign"] * q * fp!r} Hz (quotient {q!r}, inside the 1e-8 tolerance) rejected: {str(e)[:60]}')
        return {'reproduced': bool(bad), 'detail': '; '.join(bad[:2])}
    if kind in ('disk', 'cascade'):
        ratio = float(Fraction(case['ratio']))
        sign = case['sign']
        nsl = case['nslits']
        for trial in range(20):
            fp = 14.0
            edges = np.sort(rng.uniform(0, 2 * np.pi, size=2 * nsl))
            off = rng.uniform(0, 1.0)
            bp = sc.scalar(rng.uniform(0, 6), unit='rad')
            if case.get('beam_int_deg'):
                bp = sc.scalar(int(rng.integers(1, 359)), unit='deg')
            fu = case.get('freq_unit', 'Hz')
            ch = DiskChopper(axle_position=sc.vector([0.0, 0.0, 8.0], unit='m'), frequency=sc.scalar(sign * ratio * fp, unit='Hz').to(unit=fu),
                             beam_position=bp, phase=sc.scalar(rng.uniform(-20, 20), unit='rad'),
                             slit_begin=sc.array(dims=['slit'], values=edges[0::2] + off, unit='rad'), slit_end=sc.array(dims=['slit'], values=edges[1::2] + off, unit='rad'))
            pf = sc.scalar(fp, unit='Hz')
            if kind == 'disk':
                o = ch.time_offset_open(pulse_frequency=pf).to(unit='s').values
                c = ch.time_offset_close(pulse_frequency=pf).to(unit='s').values
            else:
                try:
                    cas = Chopper.from_disk_chopper(ch, pulse_frequency=pf, npulses=case['npulses'])
                except Exception as e:  # noqa: BLE001
                    bad.append(f'from_disk_chopper raises {type(e).__name__}: {e} for a {fu} chopper and a Hz source')
                    break
                o, c = cas.time_open.to(unit='s').values, cas.time_close.to(unit='s').values
            if kind == 'disk' and len(o) != (round(max(ratio, 1)) + 1) * nsl:
                bad.append(f'{len(o)} openings reported for |f|/f_pulse = {ratio} ({fu} chopper, Hz source), {(round(max(ratio, 1)) + 1) * nsl} expected ({round(max(ratio, 1))} rotation(s) per pulse period plus one, {nsl} slits)')
            if np.any(o >= c):
                bad.append('open >= close')
            order = np.argsort(o)
            for a, b in zip(order, order[1:]):
                if c[a] >= o[b] - 1e-12:
                    bad.append(f'duplicate/overlapping openings [{o[a]:.6g},{c[a]:.6g}] and [{o[b]:.6g},{c[b]:.6g}]')
                    break
            for oj, cj in zip(o, c, strict=True):
                mid = 0.5 * (oj + cj)
                if not disk_open(ch, mid):
                    bad.append(f'spurious opening [{oj:.6g},{cj:.6g}]: the disk is closed at {mid:.6g} s')
                    break
            lo, hi = o.min(), c.max()
            for t in rng.uniform(lo, hi, size=200):
                if disk_open(ch, t) and not np.any((o - 1e-9 <= t) & (t <= c + 1e-9)):
                    bad.append(f'missing opening at t={t:.6g} s')
                    break
        sig = case.get('signature', '')
        if sig.endswith('duplicate-openings'):
            bad = [b_ for b_ in bad if b_.startswith('duplicate')]
        elif sig.endswith(('spurious-openings', 'soundness')):
            bad = [b_ for b_ in bad if b_.startswith('spurious')]
        elif sig.endswith('completeness'):
            bad = [b_ for b_ in bad if b_.startswith('missing')]
        elif sig.endswith('disk:count'):
            bad = [b_ for b_ in bad if 'openings reported' in b_]
        elif sig.endswith('cascade:raises'):
            bad = [b_ for b_ in bad if 'raises' in b_]
    elif kind == 'validation':
        m = case.get('model', {})
        if m:
            try:
                DiskChopper(axle_position=sc.vector([0.0, 0.0, 8.0], unit='m'), frequency=sc.scalar(-14.0, unit='Hz'), beam_position=sc.scalar(0.0, unit='deg'),
                            phase=sc.scalar(0.0, unit='deg'), slit_begin=sc.array(dims=['slit'], values=[m['b0'] * 360, m['b1'] * 360], unit='deg'),
                            slit_end=sc.array(dims=['slit'], values=[m['e0'] * 360, m['e1'] * 360], unit='deg'))
                accepted = True
            except ValueError:
                accepted = False
            b0, e0, b1, e1 = m['b0'], m['e0'], m['b1'], m['e1']
            valid = b0 <= e0 and b1 <= e1 and not any(b0 <= e1 + k and b1 + k <= e0 for k in (-1, 0, 1))
            if accepted != valid:
                bad.append(f'slits {[b0 * 360, e0 * 360]} and {[b1 * 360, e1 * 360]} deg: accepted={accepted}, valid={valid}')
    elif kind == 'frequency':
        q = case.get('q', 1.0)
        ch = DiskChopper(axle_position=sc.vector([0.0, 0.0, 8.0], unit='m'), frequency=sc.scalar(14.0 * q, unit='Hz'), beam_position=sc.scalar(0.0, unit='deg'),
                         phase=sc.scalar(0.0, unit='deg'), slit_begin=sc.array(dims=['slit'], values=[0.0], unit='deg'), slit_end=sc.array(dims=['slit'], values=[10.0], unit='deg'))
        try:
            ch.time_offset_open(pulse_frequency=sc.scalar(14.0, unit='Hz'))
            accepted = True
        except ValueError:
            accepted = False
        near = any(abs(q - m_) < 1e-8 or abs(1 / q - m_) < 1e-8 for m_ in range(1, 20))
        if accepted != near:
            bad.append(f'ratio {q!r}: accepted={accepted}')
    return {'reproduced': bool(bad), 'detail': '; '.join(bad[:2])}
