"""C11 - chopper-cascade frames are exactly the set of transmitted neutrons."""
from __future__ import annotations

from fractions import Fraction

from .common import ob_dict, run_jobs


def _load():
    from symex import loader
    from symsc.npshim import NPShim

    sc = loader.install_shim()
    dc = loader.load('chopper.disk_chopper')
    dc.np = NPShim()
    cc = loader.load('tof.chopper_cascade')
    return sc, cc


def _var(vals, dim, unit):
    import numpy as np
    from symsc import variable as V

    a = np.empty((len(vals),), dtype=object)
    for i, v in enumerate(vals):
        a[i] = v
    return V.Variable(_arr=a, dims=(dim,), unit=V.parse_unit(unit), dtype=V.DType.float64)


def _clip(cc, sc, sub, Tv, close_to_open, other):
    """One half-plane clip of a subframe through the PUBLIC API: a frame at the chopper's own distance (no shear) chopped by
    a single opening whose other edge (`other`) lies beyond every vertex, so that only the edge at T cuts.
    -> clipped Subframe or None."""
    d0 = sc.scalar(0.0, unit='m')
    fr = cc.Frame(distance=d0, subframes=[sub])
    if close_to_open:
        ch = cc.Chopper(distance=d0, time_open=_wrap1(Tv), time_close=_wrap1(other))
    else:
        ch = cc.Chopper(distance=d0, time_open=_wrap1(other), time_close=_wrap1(Tv))
    out = fr.chop(ch).subframes
    if len(out) > 1:
        raise AssertionError('one subframe and one opening gave several subframes')
    return out[0] if out else None


def _wrap1(v):
    import numpy as np
    from symsc import variable as V

    a = np.empty((1,), dtype=object)
    a[0] = v.value
    return V.Variable(_arr=a, dims=('slit',), unit=v.unit, dtype=V.DType.float64)


def job_clip(j, seed):
    """One clipping step from an arbitrary polygon (inductive step for any chop history)."""
    n, close_to_open = j
    from symex import core as C
    from .symutil import fresh_run

    sc, cc = _load()
    fresh_run()
    obs, cands = [], []
    tag = f'clip[n={n},{"t>=open" if close_to_open else "t<=close"}]'
    case = {'kind': 'clip', 'n': n, 'close_to_open': close_to_open}
    t = [C.sym_var(f't{i}') for i in range(n)]
    w = [C.sym_var(f'w{i}', sign='+') for i in range(n)]
    T = C.sym_var('T')
    frame = cc.Subframe(time=_var(t, 'vertex', 's'), wavelength=_var(w, 'vertex', 'angstrom'))
    Tv = sc.scalar(T, unit='s')
    # the opening's other edge: beyond every vertex and beyond the cut, so that it removes nothing
    Tfar = C.sym_var('Tfar')
    for x in (*t, T):
        C.CTX.assume(Tfar > x if close_to_open else Tfar < x)
    far = sc.scalar(Tfar, unit='s')
    C.CTX.fork_timeout_ms = 3000
    paths = C.explore(lambda: _clip(cc, sc, frame, Tv, close_to_open, far), max_paths=200)

    def inside(x):
        return (x >= T) if close_to_open else (x <= T)

    def chk(name, goal, pc, sig):
        ob = C.prove(f'{tag}:{name}', goal, pc=pc, timeout_ms=20000)
        obs.append(ob_dict(ob))
        if ob.status == 'violated':
            m = {k_: str(v) for k_, v in (ob.model or {}).items()}
            cands.append((sig, {**case, 'model': m}, name))
        return ob

    for k, p in enumerate(paths):
        P = f'path{k}'
        if p.inconclusive:
            obs.append({'name': f'{tag}:{P}', 'status': 'inconclusive', 'detail': p.inconclusive[:200], 't': 0})
            continue
        if p.exc is not None:
            obs.append({'name': f'{tag}:{P}:raises', 'status': 'violated', 'detail': repr(p.exc)[:200], 't': 0})
            cands.append(('C11:clip:raises', case, repr(p.exc)[:100]))
            continue
        # the inside pattern of this path (decided by the path condition)
        pat = []
        ok = True
        for i in range(n):
            a = C.solve([*p.pc, inside(t[i])], want_model=False).status
            b = C.solve([*p.pc, ~inside(t[i])], want_model=False).status
            if a == 'unsat':
                pat.append(False)
            elif b == 'unsat':
                pat.append(True)
            else:
                ok = False
        if not ok:
            obs.append({'name': f'{tag}:{P}:inside pattern determined', 'status': 'inconclusive', 't': 0})
            continue
        # oracle: Sutherland-Hodgman against the half-plane, written with the two-point line formula
        expect = []
        for i in range(n):
            jn = (i + 1) % n
            if pat[i]:
                expect.append((t[i], w[i], 'vertex', i))
            if pat[i] != pat[jn]:
                with C.oracle():
                    lam = w[i] + (T - t[i]) * (w[jn] - w[i]) / (t[jn] - t[i])
                expect.append((T, lam, 'cross', i))
        out = p.value
        if not expect:
            chk(f'{P}:nothing inside => no subframe', C.B.const(out is None), p.pc, 'C11:clip:empty')
            continue
        if out is None:
            # no subframe although vertices lie inside the window: only acceptable when what is inside has no area
            # (a neutron of the open set is then not lost); shoelace formula over the expected polygon
            with C.oracle():
                area2 = C.R.lift(0)
                for m_ in range(len(expect)):
                    a_, b_ = expect[m_], expect[(m_ + 1) % len(expect)]
                    area2 = area2 + a_[0] * b_[1] - b_[0] * a_[1]
            chk(f'{P}:no subframe only when the part inside the window has zero area', area2 == 0, p.pc, 'C11:clip:empty')
            continue
        ot, ow = list(out.time.values), list(out.wavelength.values)
        chk(f'{P}:vertex count {len(expect)}', C.B.const(len(ot) == len(expect) and len(ow) == len(expect)), p.pc, 'C11:clip:count')
        if len(ot) != len(expect):
            continue
        for m_, (et, ew, kind, i) in enumerate(expect):
            chk(f'{P}:out[{m_}] = {"input vertex " + str(i) if kind == "vertex" else "crossing of edge " + str(i) + " with the cut"} (cyclic order kept)',
                (ot[m_] == et) & (ow[m_] == ew), p.pc, 'C11:clip:vertex')
            # (a) every output vertex satisfies the window inequality
            chk(f'{P}:out[{m_}] satisfies the window inequality', inside(ot[m_]), p.pc, 'C11:clip:window')
            if kind == 'cross':
                jn = (i + 1) % n
                lo = (ow[m_] >= w[i]) & (ow[m_] <= w[jn])
                hi = (ow[m_] >= w[jn]) & (ow[m_] <= w[i])
                chk(f'{P}:out[{m_}] wavelength between the edge end points (stays inside the source band)', lo | hi, p.pc, 'C11:clip:band')
        chk(f'{P}:units', C.B.const(out.time.unit == sc.Unit('s') and out.wavelength.unit == sc.Unit('angstrom')), p.pc, 'C11:clip:unit')
    return {'obligations': obs, 'candidates': cands, 'paths': len(paths)}


def job_propagate(j, seed):
    from symex import core as C
    from .symutil import fresh_run, H, MN, si_value, sym_unit

    sc, cc = _load()
    fresh_run()
    obs, cands = [], []
    case = {'kind': 'propagate'}
    t = [C.sym_var(f't{i}') for i in range(3)]
    w = [C.sym_var(f'w{i}', sign='+') for i in range(3)]
    d1, d2 = C.sym_var('d1', sign='+'), C.sym_var('d2', sign='+')
    uD = sym_unit('D', 'm')
    frame = cc.Frame(distance=sc.scalar(0.0, unit='m'), subframes=[cc.Subframe(time=_var(t, 'vertex', 's'), wavelength=_var(w, 'vertex', 'angstrom'))])

    def run():
        a = frame.propagate_to(sc.scalar(d1, unit='m'))
        b = a.propagate_to(sc.scalar(d1 + d2, unit='m'))
        c = frame.propagate_to(sc.scalar(d1 + d2, unit='m'))
        e = frame.propagate_to(sc.scalar(d1, unit=uD))
        return a, b, c, e

    paths = C.explore(run)
    p = paths[0]
    if p.exc is not None or p.inconclusive or len(paths) != 1:
        obs.append({'name': 'propagate:runs', 'status': 'inconclusive' if p.inconclusive else 'violated', 'detail': str(p.inconclusive or repr(p.exc))[:200], 't': 0})
        if p.exc is not None:
            cands.append(('C11:propagate:raises', case, repr(p.exc)[:100]))
        return {'obligations': obs, 'candidates': cands, 'paths': len(paths)}
    a, b, c, e = p.value

    def chk(name, goal, sig):
        ob = C.prove(f'propagate:{name}', goal)
        obs.append(ob_dict(ob))
        if ob.status == 'violated':
            cands.append((sig, case, name))

    ang = Fraction(1, 10**10)
    for i in range(3):
        with C.oracle():
            exp = t[i] + d1 * (w[i] * ang) * MN() / H()
        chk(f'vertex {i}: t + d*lambda*m_n/h', a.subframes[0].time.values[i] == exp, 'C11:propagate:shear')
        chk(f'vertex {i}: wavelength unchanged', a.subframes[0].wavelength.values[i] == w[i], 'C11:propagate:wavelength')
        chk(f'vertex {i}: two steps = one step', b.subframes[0].time.values[i] == c.subframes[0].time.values[i], 'C11:propagate:compose')
        with C.oracle():
            exp_u = t[i] + d1 * C.R(uD.scale_rat()) * (w[i] * ang) * MN() / H()
        chk(f'vertex {i}: distance in any length unit', e.subframes[0].time.values[i] == exp_u, 'C11:propagate:unit')
    chk('units (s, angstrom)', C.B.const(a.subframes[0].time.unit == sc.Unit('s') and a.subframes[0].wavelength.unit == sc.Unit('angstrom')), 'C11:propagate:unit')
    return {'obligations': obs, 'candidates': cands, 'paths': 1}


def job_propagate_array(j, seed):
    """propagate_to with a range of distances (several detector / monitor positions at once), one of which may be the
    frame's own distance: for every position k and vertex i the arrival time is t_i + (D_k - D_frame) lambda_i m_n / h and the
    wavelength is unchanged; the frame reports the distances it was asked for."""
    own_first = j
    from symex import core as C
    from .symutil import fresh_run, H, MN

    sc, cc = _load()
    fresh_run()
    obs, cands = [], []
    case = {'kind': 'propagate-array', 'own_first': own_first}
    tag = f'propagate-array[{"own distance among the targets" if own_first else "all targets further away"}]'
    t = [C.sym_var(f't{i}') for i in range(3)]
    w = [C.sym_var(f'w{i}', sign='+') for i in range(3)]
    D0 = C.sym_var('D0', sign='+')
    d1, d2 = C.sym_var('d1', sign='+'), C.sym_var('d2', sign='+')
    frame = cc.Frame(distance=sc.scalar(D0, unit='m'), subframes=[cc.Subframe(time=_var(t, 'vertex', 's'), wavelength=_var(w, 'vertex', 'angstrom'))])
    dist = [D0, D0 + d1, D0 + d1 + d2] if own_first else [D0 + d1, D0 + d1 + d2]
    C.CTX.fork_timeout_ms = 3000
    paths = C.explore(lambda: frame.propagate_to(_var(dist, 'distance', 'm')), max_paths=16)
    ang = Fraction(1, 10**10)
    nret = 0
    for k_, p in enumerate(paths):
        if p.exc is not None or p.inconclusive:
            obs.append({'name': f'{tag}:path{k_}:runs', 'status': 'inconclusive' if p.inconclusive else 'violated', 'detail': str(p.inconclusive or repr(p.exc))[:200], 't': 0})
            if p.exc is not None:
                cands.append(('C11:propagate:raises', case, repr(p.exc)[:100]))
            continue
        nret += 1
        out = p.value
        sub = out.subframes[0] if len(out.subframes) == 1 else None
        good = C.B.const(sub is not None and set(sub.time.dims) == {'distance', 'vertex'} and sub.time.unit == sc.Unit('s') and sub.wavelength.unit == sc.Unit('angstrom')
                         and out.distance.dims == ('distance',) and len(out.distance) == len(dist))
        if sub is not None and set(sub.time.dims) == {'distance', 'vertex'}:
            for kd, Dk in enumerate(dist):
                good = good & (out.distance.values[kd] == Dk)
                tk = sub.time['distance', kd]
                wk = sub.wavelength['distance', kd] if 'distance' in sub.wavelength.dims else sub.wavelength
                for i in range(3):
                    with C.oracle():
                        exp = t[i] + (Dk - D0) * (w[i] * ang) * MN() / H()
                    good = good & (tk.values[i] == exp) & (wk.values[i] == w[i])
        ob = C.prove(f'{tag}:path{k_}: arrival time t + (D_k - D) lambda m_n/h at every requested position, wavelength unchanged', good, pc=p.pc)
        obs.append(ob_dict(ob))
        if ob.status == 'violated':
            cands.append(('C11:propagate:array', case, 'a frame propagated to a range of distances is not sheared per distance'))
    ob = C.prove(f'{tag}:some path returns', C.B.const(nret >= 1))
    obs.append(ob_dict(ob))
    return {'obligations': obs, 'candidates': cands, 'paths': len(paths)}


def _frame_terms(frame):
    return [(list(s.time.values), list(s.wavelength.values)) for s in frame.subframes]


def job_order(j, seed):
    """Choppers are sorted by distance: the result does not depend on the listing order (d1 != d2 symbolic)."""
    from symex import core as C
    from .symutil import fresh_run

    sc, cc = _load()
    fresh_run()
    obs, cands = [], []
    case = {'kind': 'order'}
    d1, d2 = C.sym_var('d1', sign='+'), C.sym_var('d2', sign='+')
    C.CTX.assume(d1 != d2)
    # concrete pulse and windows keep the clip pattern concrete; only the order decision is symbolic
    seq = cc.FrameSequence.from_source_pulse(sc.scalar(0.0, unit='ms'), sc.scalar(3.0, unit='ms'), sc.scalar(1.0, unit='angstrom'), sc.scalar(10.0, unit='angstrom'))
    c1 = cc.Chopper(distance=sc.scalar(d1, unit='m'), time_open=sc.array(dims=['slit'], values=[0.002], unit='s'), time_close=sc.array(dims=['slit'], values=[0.004], unit='s'))
    c2 = cc.Chopper(distance=sc.scalar(d2, unit='m'), time_open=sc.array(dims=['slit'], values=[0.003], unit='s'), time_close=sc.array(dims=['slit'], values=[0.006], unit='s'))
    C.CTX.fork_timeout_ms = 3000
    # Frame.chop is replaced by a recorder: the clipping step is the subject of the clip obligations;
    # here only the order in which FrameSequence.chop applies the choppers matters.
    applied = []
    real_chop = cc.Frame.chop

    def rec(self, chopper):
        applied.append(chopper)
        return cc.Frame(distance=chopper.distance, subframes=list(self.subframes))

    cc.Frame.chop = rec
    got = {}
    try:
        for name, lst in (('12', [c1, c2]), ('21', [c2, c1])):
            def run(lst=lst):
                applied.clear()
                seq.chop(lst)
                return list(applied)
            got[name] = C.explore(run, max_paths=16)
    finally:
        cc.Frame.chop = real_chop
    npaths = len(got['12']) + len(got['21'])
    for name in ('12', '21'):
        for k, p in enumerate(got[name]):
            if p.value is None:
                obs.append({'name': f'order[{name}]:path{k}', 'status': 'inconclusive', 'detail': str(p.inconclusive or repr(p.exc))[:200], 't': 0})
                continue
            ds = [c_.distance.value for c_ in p.value]
            ob = C.prove(f'order[listing {name}]:path{k}:choppers applied in ascending distance', C.all_of([a <= b for a, b in zip(ds, ds[1:])]) & C.B.const(len(ds) == 2), pc=p.pc)
            obs.append(ob_dict(ob))
            if ob.status == 'violated':
                cands.append(('C11:order', case, 'choppers not applied in order of distance'))
            # same chopper objects in the same order as the other listing under the same condition
            for p2 in got['21' if name == '12' else '12']:
                if p2.value is not None and C.reachable(pc=[*p.pc, *p2.pc]) != 'unsat':
                    same = [x is y for x, y in zip(p.value, p2.value)]
                    ob = C.prove(f'order[listing {name}]:path{k}:same application order as the other listing', C.B.const(all(same)), pc=[*p.pc, *p2.pc])
                    obs.append(ob_dict(ob))
                    if ob.status == 'violated':
                        cands.append(('C11:order', case, 'result depends on the listing order'))
    return {'obligations': obs, 'candidates': cands, 'paths': npaths}


def job_framechop(j, seed):
    """Frame.chop = union over (subframe, opening) pairs: with the clipping step replaced by a recorder whose
    emptiness answers are symbolic, every pair of a subframe with an opening is clipped (open side, then close side)
    unless their intersection is provably empty; openings are listed in no particular order."""
    nsub, nopen = j
    import z3
    from symex import core as C
    from .symutil import fresh_run

    sc, cc = _load()
    fresh_run()
    obs, cands = [], []
    tag = f'framechop[{nsub} subframes x {nopen} openings]'
    case = {'kind': 'framechop', 'nsub': nsub, 'nopen': nopen}
    nv = 3
    ts = [[C.sym_var(f's{q}t{i}') for i in range(nv)] for q in range(nsub)]
    ws = [[C.sym_var(f's{q}w{i}', sign='+') for i in range(nv)] for q in range(nsub)]
    op = [C.sym_var(f'open{k}') for k in range(nopen)]
    cl = [C.sym_var(f'close{k}') for k in range(nopen)]
    d0 = C.sym_var('d0', sign='0+')
    dd = C.sym_var('dd', sign='0+')
    for q in range(nsub):
        # triangles of non-zero area (a degenerate polygon carries no neutrons)
        C.CTX.assume((ts[q][1] - ts[q][0]) * (ws[q][2] - ws[q][0]) - (ts[q][2] - ts[q][0]) * (ws[q][1] - ws[q][0]) != 0)
    frame = cc.Frame(distance=sc.scalar(d0, unit='m'), subframes=[cc.Subframe(time=_var(ts[q], 'vertex', 's'), wavelength=_var(ws[q], 'vertex', 'angstrom')) for q in range(nsub)])
    chopper = cc.Chopper(distance=sc.scalar(d0 + dd, unit='m'), time_open=_var(op, 'slit', 's'), time_close=_var(cl, 'slit', 's'))
    C.CTX.fork_timeout_ms = 3000

    class Tok:
        """Stands for the polygon parent intersected with {t >= T} (side True) or {t <= T}; behaves like a subframe for reads."""

        def __init__(self, parent, T, side):
            self.parent, self.T, self.side = parent, T, side
            base = parent
            while isinstance(base, Tok):
                base = base.parent
            self.base = base
            self.time, self.wavelength = base.time, base.wavelength

        @property
        def start_time(self):
            return self.base.start_time

        @property
        def end_time(self):
            return self.base.end_time

        @property
        def start_wavelength(self):
            return self.base.start_wavelength

        @property
        def end_wavelength(self):
            return self.base.end_wavelength

    calls = []
    if not hasattr(cc, '_chop'):
        # the clip step is isolated by replacing the module's private helper; after a refactoring that renames it this job
        # cannot be set up (the clip, propagate, order and regularity obligations do not depend on it)
        obs.append({'name': f'{tag}:clip step can be isolated (module-level helper _chop)', 'status': 'inconclusive', 'detail': 'helper not found: pairing of subframes with openings not checked', 't': 0})
        return {'obligations': obs, 'candidates': cands, 'paths': 0}
    real = cc._chop

    def fake(frame_, T, close_to_open):
        calls.append((frame_, T, close_to_open))
        nonempty = C.B('z3', z3.Bool(f'nonempty!{len(calls)}'))
        if not bool(nonempty):
            return None
        return Tok(frame_, T, close_to_open)

    cc._chop = fake
    try:
        def run():
            calls.clear()
            out = frame.chop(chopper)
            return out, list(calls)
        paths = C.explore(run, max_paths=3000)
    finally:
        cc._chop = real
    nret = 0
    for k, p in enumerate(paths):
        P = f'path{k}'
        if p.inconclusive:
            obs.append({'name': f'{tag}:{P}', 'status': 'inconclusive', 'detail': p.inconclusive[:200], 't': 0})
            continue
        if p.exc is not None:
            obs.append({'name': f'{tag}:{P}:raises', 'status': 'violated', 'detail': repr(p.exc)[:200], 't': 0})
            cands.append(('C11:framechop:raises', case, repr(p.exc)[:100]))
            continue
        nret += 1
        out, cs_ = p.value
        # which (subframe, opening) pairs were clipped, and with what
        done = {}
        bad = []
        # the propagated subframes are the first arguments of open-side calls: identify them by position
        seen = []
        for fr_, T, side in cs_:
            if not isinstance(fr_, Tok) and all(fr_ is not x for x in seen):
                seen.append(fr_)
        for fr_, T, side in cs_:
            if isinstance(fr_, Tok):
                base_i = [i for i, x in enumerate(seen) if x is fr_.base][0]
                ks = [k_ for k_ in range(nopen) if (T.value - cl[k_]).t.is_zero() and (fr_.T.value - op[k_]).t.is_zero()]
                if side is not False or fr_.side is not True or not ks:
                    bad.append('close-side clip not applied to the open-side clip of the same opening')
                for k_ in ks:
                    done[(base_i, k_)] = done.get((base_i, k_), 0) | 2
            else:
                base_i = [i for i, x in enumerate(seen) if x is fr_][0]
                ks = [k_ for k_ in range(nopen) if (T.value - op[k_]).t.is_zero()]
                if side is not True or not ks:
                    bad.append('first clip of a subframe is not the open side of a listed opening')
                for k_ in ks:
                    done[(base_i, k_)] = done.get((base_i, k_), 0) | 1
        ob = C.prove(f'{tag}:{P}:every clip is (open side at time_open[k]) then (close side at time_close[k])' + (': ' + bad[0] if bad else ''), C.B.const(not bad), pc=p.pc)
        obs.append(ob_dict(ob))
        if bad:
            cands.append(('C11:framechop:pairing', case, bad[0]))
        # propagated vertex times of subframe q (seen[q] in order of first use; unseen subframes: recompute by the shear)
        # a pair that was not clipped must have an empty intersection: the opening lies entirely before or after the subframe
        if len(seen) > nsub:
            obs.append({'name': f'{tag}:{P}:subframes clipped are the propagated subframes', 'status': 'violated', 'detail': f'{len(seen)} distinct polygons clipped', 't': 0})
            cands.append(('C11:framechop:pairing', case, 'unknown polygons clipped'))
            continue
        pf = frame.propagate_to(chopper.distance)
        for q in range(nsub):
            tq = list(pf.subframes[q].time.values)
            # match the q-th propagated subframe with a seen polygon by its vertex terms
            qi = [i for i, x in enumerate(seen) if all((a - b).t.is_zero() for a, b in zip(x.time.values, tq))]
            for k_ in range(nopen):
                st = done.get((qi[0], k_), 0) if qi else 0
                if st & 1:
                    continue
                empty = C.all_of([op[k_] >= t_ for t_ in tq]) | C.all_of([cl[k_] <= t_ for t_ in tq]) | (cl[k_] <= op[k_])
                ob = C.prove(f'{tag}:{P}:subframe {q} x opening {k_} skipped only if they cannot overlap', empty, pc=p.pc, timeout_ms=20000)
                obs.append(ob_dict(ob))
                if ob.status == 'violated':
                    cands.append(('C11:framechop:skipped', {**case, 'model': {k2: float(v) for k2, v in (ob.model or {}).items()}}, f'subframe {q} never clipped against opening {k_}'))
        # result = the non-empty close-side tokens in call order, at the chopper distance
        exp = [c_ for c_ in cs_ if isinstance(c_[0], Tok)]
        toks = [x for x in out.subframes]
        okres = all(isinstance(x, Tok) and x.side is False for x in toks) and len(set(map(id, toks))) == len(toks)
        ob = C.prove(f'{tag}:{P}:result = the non-empty doubly clipped polygons, each once, at the chopper distance', C.B.const(bool(okres)) & (out.distance.value == d0 + dd), pc=p.pc)
        obs.append(ob_dict(ob))
        if ob.status != 'discharged':
            cands.append(('C11:framechop:result', case, 'result list'))
    ob = C.prove(f'{tag}:some path returns', C.B.const(nret >= 1))
    obs.append(ob_dict(ob))
    return {'obligations': obs, 'candidates': cands, 'paths': len(paths)}


def job_bounds(j, seed):
    """Frame.bounds() is the bounding box of ALL subframes: subframes are listed in no particular order and may overlap, so
    the smallest start (largest end) may belong to any of them.  Vertices of one subframe are sorted by assumption
    ('regular' subframes, which is what the cascade produces); their order across subframes is free."""
    nsub = j
    from symex import core as C
    from .symutil import fresh_run

    sc, cc = _load()
    fresh_run()
    obs, cands = [], []
    tag = f'bounds[{nsub} subframes]'
    case = {'kind': 'bounds', 'nsub': nsub}
    nv = 3
    ts = [[C.sym_var(f's{q}t{i}') for i in range(nv)] for q in range(nsub)]
    ws = [[C.sym_var(f's{q}w{i}', sign='+') for i in range(nv)] for q in range(nsub)]
    for q in range(nsub):
        for i in range(nv - 1):
            C.CTX.assume(ts[q][i] < ts[q][i + 1])
            C.CTX.assume(ws[q][i] < ws[q][i + 1])
    d0 = C.sym_var('d0', sign='0+')
    frame = cc.Frame(distance=sc.scalar(d0, unit='m'), subframes=[cc.Subframe(time=_var(ts[q], 'vertex', 's'), wavelength=_var(ws[q], 'vertex', 'angstrom')) for q in range(nsub)])
    C.CTX.fork_timeout_ms = 3000

    def run():
        b = frame.bounds()
        return list(b['time'].values), list(b['wavelength'].values), b['time'].unit, b['wavelength'].unit

    paths = C.explore(run, max_paths=400)
    nret = 0
    for k, p in enumerate(paths):
        P = f'path{k}'
        if p.inconclusive:
            obs.append({'name': f'{tag}:{P}', 'status': 'inconclusive', 'detail': p.inconclusive[:200], 't': 0})
            continue
        if p.exc is not None:
            obs.append({'name': f'{tag}:{P}:raises', 'status': 'violated', 'detail': repr(p.exc)[:200], 't': 0})
            cands.append(('C11:bounds:raises', case, repr(p.exc)[:100]))
            continue
        nret += 1
        tb, wb, ut, uw = p.value
        allt = [t for q in range(nsub) for t in ts[q]]
        allw = [w for q in range(nsub) for w in ws[q]]
        goals = [
            ('time bounds contain every vertex of every subframe', C.all_of([tb[0] <= t for t in allt] + [t <= tb[1] for t in allt])),
            ('time bounds are attained', C.any_of([tb[0] == t for t in allt]) & C.any_of([tb[1] == t for t in allt])),
            ('wavelength bounds contain every vertex of every subframe', C.all_of([wb[0] <= w for w in allw] + [w <= wb[1] for w in allw])),
            ('wavelength bounds are attained', C.any_of([wb[0] == w for w in allw]) & C.any_of([wb[1] == w for w in allw])),
        ]
        for nm, g in goals:
            ob = C.prove(f'{tag}:{P}:{nm}', g, pc=p.pc, timeout_ms=20000)
            obs.append(ob_dict(ob))
            if ob.status == 'violated':
                cands.append(('C11:bounds', {**case, 'model': {k2: float(v) for k2, v in (ob.model or {}).items()}}, nm))
        ob = C.prove(f'{tag}:{P}:units of the bounds are those of the subframes', C.B.const(ut == frame.subframes[0].time.unit and uw == frame.subframes[0].wavelength.unit), pc=p.pc)
        obs.append(ob_dict(ob))
    ob = C.prove(f'{tag}:some path returns', C.B.const(nret >= 1))
    obs.append(ob_dict(ob))
    return {'obligations': obs, 'candidates': cands, 'paths': len(paths)}


def job_getitem(j, seed):
    """frames[distance]: the frame propagated to the requested distance is the LAST frame of the cascade that is not beyond
    it - with several choppers at the same distance that is the one cut by all of them - for symbolic, non-decreasing
    (possibly equal) frame distances and any requested distance at or beyond the first frame."""
    nfr = j
    from symex import core as C
    from .symutil import fresh_run

    sc, cc = _load()
    fresh_run()
    obs, cands = [], []
    tag = f'getitem[{nfr} frames]'
    case = {'kind': 'getitem', 'nframes': nfr}
    ds = [C.sym_var(f'd{i}', sign='0+') for i in range(nfr)]
    for a, b in zip(ds, ds[1:]):
        C.CTX.assume(a <= b)  # a cascade is built in order of distance; equal distances are allowed
    D = C.sym_var('D', sign='0+')
    C.CTX.assume(D >= ds[0])
    frames = [cc.Frame(distance=sc.scalar(ds[i], unit='m'), subframes=[cc.Subframe(time=_var([i, i + 1, i + 2], 'vertex', 's'), wavelength=_var([1, 2, 3], 'vertex', 'angstrom'))]) for i in range(nfr)]
    seq = cc.FrameSequence(frames)
    rec = []
    real_prop = cc.Frame.propagate_to

    def prop(self, distance):
        rec.append((self, distance))
        return ('propagated', len(rec))

    cc.Frame.propagate_to = prop
    C.CTX.fork_timeout_ms = 3000
    try:
        def run():
            rec.clear()
            out = seq[sc.scalar(D, unit='m')]
            return out, list(rec)
        paths = C.explore(run, max_paths=64)
    finally:
        cc.Frame.propagate_to = real_prop
    for k, p in enumerate(paths):
        if p.inconclusive or p.exc is not None:
            obs.append({'name': f'{tag}:path{k}', 'status': 'inconclusive' if p.inconclusive else 'violated', 'detail': str(p.inconclusive or repr(p.exc))[:200], 't': 0})
            if p.exc is not None:
                cands.append(('C11:getitem:raises', case, repr(p.exc)[:100]))
            continue
        out, calls = p.value
        ok = len(calls) == 1 and out == ('propagated', 1)
        if ok:
            src, dist = calls[0]
            i = [q for q, f_ in enumerate(frames) if f_ is src]
            ok = len(i) == 1
        if not ok:
            obs.append({'name': f'{tag}:path{k}:one frame of the sequence is propagated to the requested distance', 'status': 'violated', 't': 0, 'detail': str(calls)[:100]})
            cands.append(('C11:getitem', case, 'frame lookup'))
            continue
        i = i[0]
        goal = (ds[i] <= D) & C.all_of([ds[q] > D for q in range(i + 1, nfr)]) & (dist.value == D)
        ob = C.prove(f'{tag}:path{k}:frame {i} is the last frame not beyond the requested distance (later frames at the same distance win)', goal, pc=p.pc)
        obs.append(ob_dict(ob))
        if ob.status == 'violated':
            cands.append(('C11:getitem', {**case, 'model': {k_: float(v) for k_, v in (ob.model or {}).items()}, 'chosen': i}, f'frame {i} chosen'))
    return {'obligations': obs, 'candidates': cands, 'paths': len(paths)}


def job_regular(j, seed):
    """Rectangle -> chop by one window at a symbolic distance: every subframe is regular over the reals."""
    which = j
    from symex import core as C
    from .symutil import fresh_run

    sc, cc = _load()
    fresh_run()
    obs, cands = [], []
    case = {'kind': 'regular', 'which': which}
    t0, t1 = C.sym_var('t0'), C.sym_var('t1')
    w0, w1 = C.sym_var('w0', sign='+'), C.sym_var('w1', sign='+')
    d = C.sym_var('d', sign='+')
    o, c = C.sym_var('topen'), C.sym_var('tclose')
    for a in (t0 < t1, w0 < w1, o < c):
        C.CTX.assume(a)
    C.CTX.fork_timeout_ms = 3000

    def run():
        seq = cc.FrameSequence.from_source_pulse(sc.scalar(t0, unit='s'), sc.scalar(t1, unit='s'), sc.scalar(w0, unit='angstrom'), sc.scalar(w1, unit='angstrom'))
        ch = cc.Chopper(distance=sc.scalar(d, unit='m'), time_open=sc.array(dims=['slit'], values=[o], unit='s'), time_close=sc.array(dims=['slit'], values=[c], unit='s'))
        fr = seq.chop([ch]).frames[-1]
        if which == 'subbounds':
            if not fr.subframes:
                return 'empty'
            return fr.subbounds()
        return [bool(s.is_regular()) for s in fr.subframes]

    paths = C.explore(run, max_paths=600)
    n_ok = 0
    for k, p in enumerate(paths):
        if p.inconclusive:
            obs.append({'name': f'regular[{which}]:path{k}', 'status': 'inconclusive', 'detail': p.inconclusive[:200], 't': 0})
            continue
        if p.exc is not None:
            st = 'violated'
            obs.append({'name': f'regular[{which}]:path{k}:per-subframe bounds available', 'status': st, 'detail': repr(p.exc)[:200], 't': 0})
            m = C.solve([*C.CTX.assumptions, *p.pc])
            mod = {k_: float(v) for k_, v in (m.model or {}).items()} if m.status == 'sat' else {}
            cands.append(('C11:regular:reals', {**case, 'model': mod}, repr(p.exc)[:100]))
            continue
        n_ok += 1
        if which == 'is_regular':
            ob = C.prove(f'regular:path{k}:every subframe has extreme time and wavelength at the same vertex', C.B.const(all(p.value)), pc=p.pc)
            obs.append(ob_dict(ob))
            if ob.status != 'discharged':
                m = C.solve([*C.CTX.assumptions, *p.pc])
                mod = {k_: float(v) for k_, v in (m.model or {}).items()} if m.status == 'sat' else {}
                cands.append(('C11:regular:reals', {**case, 'model': mod}, 'irregular subframe'))
    ob = C.prove(f'regular[{which}]:some path', C.B.const(n_ok >= 1))
    obs.append(ob_dict(ob))
    return {'obligations': obs, 'candidates': cands, 'paths': len(paths)}


def job_fp(j, seed):
    """Bit-precise (QF_FP, Float64): the wavelength interpolated on a horizontal edge equals the edge's
    wavelength exactly, which is what is_regular()'s == relies on."""
    import z3
    from symex import core as C
    from symex.fp import FPV
    from .symutil import fresh_run

    sc, cc = _load()
    fresh_run()
    obs, cands = [], []
    case = {'kind': 'fp'}
    a = FPV.var('a')
    ti, tj, T = FPV.var('ti'), FPV.var('tj'), FPV.var('T')
    rng = lambda x, lo, hi: C.B('z3', z3.And(z3.fpGEQ(x.e, z3.FPVal(lo, z3.Float64())), z3.fpLEQ(x.e, z3.FPVal(hi, z3.Float64()))))  # noqa: E731
    C.CTX.assume(rng(a, 1e-3, 1e3))
    for x in (ti, tj, T):
        C.CTX.assume(rng(x, 0.0, 10.0))
    # a triangle whose edge 0-1 is horizontal in wavelength and is cut by t >= T: vertex 0 outside, 1 and 2 inside
    t2 = FPV.var('t2')
    C.CTX.assume(rng(t2, 0.0, 10.0))
    C.CTX.assume(ti < T)
    C.CTX.assume(tj >= T)
    C.CTX.assume(t2 >= T)
    b = FPV.var('b')
    C.CTX.assume(rng(b, 1e-3, 1e3))
    frame = cc.Subframe(time=_var([ti, tj, t2], 'vertex', 's'), wavelength=_var([a, a, b], 'vertex', 'angstrom'))
    C.CTX.fork_timeout_ms = 20000
    # the public route first propagates the frame to the chopper (here: by zero distance).  That step is the subject of the
    # 'propagate' obligations; it is taken out of this bit-level lemma (identity), which is about the interpolation only
    far = sc.scalar(FPV.lift(1000.0), unit='s')  # closes long after every vertex (times are in [0, 10])
    real_prop = cc.Frame.propagate_to
    cc.Frame.propagate_to = lambda self, distance: self
    try:
        paths = C.explore(lambda: _clip(cc, sc, frame, sc.scalar(T, unit='s'), True, far), max_paths=16)
    finally:
        cc.Frame.propagate_to = real_prop
    n = 0
    for k, p in enumerate(paths):
        if p.exc is not None or p.inconclusive or p.value is None:
            obs.append({'name': f'fp:path{k}', 'status': 'inconclusive', 'detail': str(p.inconclusive or repr(p.exc))[:200], 't': 0})
            continue
        ow = list(p.value.wavelength.values)
        ot = list(p.value.time.values)
        # output: crossing on edge 0-1 comes last (after vertex 1, 2 and the crossing on edge 2-0)? order: i=0 outside -> crossing(0,1); 1; 2; crossing(2,0)
        v = ow[0]
        n += 1
        ob = C.prove(f'fp:path{k}:interpolated wavelength on a horizontal edge equals the edge wavelength bit-for-bit', v == a, pc=p.pc, timeout_ms=300000)
        obs.append(ob_dict(ob))
        if ob.status == 'violated':
            zm = ob.model
            cands.append(('C11:regular:floating-point', case, 'fl((1-t)*a + t*a) != a'))
    if n == 0:
        obs.append({'name': 'fp:some path', 'status': 'inconclusive', 'detail': 'no returning path', 't': 0})
    return {'obligations': obs, 'candidates': cands, 'paths': len(paths)}


def run(chk):
    sc, cc = _load()
    from symex import loader

    chk.functions = loader.describe_exprs(['cc.propagate_times', 'cc.wavelength_to_inverse_velocity', 'cc.Subframe.__init__', 'cc.Subframe.propagate_by', 'cc.Subframe.is_regular', 'cc.Frame.propagate_to', 'cc.Frame.chop', 'cc.Frame.subbounds', 'cc.Frame.bounds', 'cc.FrameSequence.from_source_pulse', 'cc.FrameSequence.chop', 'cc._chop'], {**globals(), **locals()})
    # the bit-precise lemma first and alone: its (single) query is sensitive to CPU contention
    run_jobs(chk, job_fp, [0])
    ns = [3, 4, 5] if chk.tier == 'quick' else [3, 4, 5, 6]
    run_jobs(chk, job_clip, [(n, c) for n in ns for c in (True, False)])
    run_jobs(chk, job_propagate, [0])
    run_jobs(chk, job_propagate_array, [True, False])
    run_jobs(chk, job_order, [0])
    run_jobs(chk, job_getitem, [2, 3] if chk.tier == 'quick' else [2, 3, 4])
    run_jobs(chk, job_framechop, [(1, 2), (2, 2)] if chk.tier == 'quick' else [(1, 2), (2, 2), (1, 3), (2, 3)])
    run_jobs(chk, job_regular, ['is_regular', 'subbounds'])
    run_jobs(chk, job_bounds, [2] if chk.tier == 'quick' else [2, 3])
    chk.bounds = {'polygon vertices': ns, 'clip': 'one clipping step from an arbitrary polygon, all inside patterns (inductive step)',
                  'regularity': 'pulse rectangle + one chopper window at a symbolic distance (all clip patterns)',
                  'floating point': 'Float64, a in [1e-3,1e3], times in [0,10], one horizontal edge'}
    chk.stubs = ['scipp -> symsc', 'IEEE doubles as z3 FloatingPoint terms flowing through the same shim for the tie lemma']
    chk.axioms = ['meta-lemma (not proved here): Sutherland-Hodgman output = convex polygon intersected with the half-plane',
                  'h, m_n arbitrary positive reals']
    chk.assumptions = ['0..2 choppers composed explicitly; longer cascades by induction over the clipping step',
                       'order independence checked as ascending frame distances for both listings']


def replay_real(case):
    import numpy as np
    import scipp as sc
    from scippneutron.tof import chopper_cascade as cc

    rng = np.random.default_rng(5)
    bad = []
    kind = case['kind']
    if kind in ('regular', 'fp'):
        n = 0
        for trial in range(600):
            t0 = rng.uniform(0, 1e-3)
            t1 = t0 + rng.uniform(1e-4, 5e-3)
            w0 = rng.uniform(0.1, 5)
            w1 = w0 + rng.uniform(0.1, 10)
            seq = cc.FrameSequence.from_source_pulse(sc.scalar(t0, unit='s'), sc.scalar(t1, unit='s'), sc.scalar(w0, unit='angstrom'), sc.scalar(w1, unit='angstrom'))
            d = rng.uniform(1, 30)
            lo = t0 + d * w0 * 2.5e-4
            hi = t1 + d * w1 * 2.5e-4
            o = rng.uniform(lo, hi)
            c = o + rng.uniform(0.05, 0.6) * (hi - lo)
            ch = cc.Chopper(distance=sc.scalar(d, unit='m'), time_open=sc.array(dims=['slit'], values=[o], unit='s'), time_close=sc.array(dims=['slit'], values=[c], unit='s'))
            fr = seq.chop([ch]).frames[-1]
            if not fr.subframes:
                continue
            n += 1
            try:
                fr.subbounds()
            except NotImplementedError as e:
                bad.append(f'subbounds() raises for pulse t=[{t0!r},{t1!r}] s, lambda=[{w0!r},{w1!r}] A, chopper at {d!r} m open [{o!r},{c!r}] s')
                break
    elif kind == 'clip':
        model = case.get('model') or {}
        for trial in range(300):
            n = case['n']
            ang = np.sort(rng.uniform(0, 2 * np.pi, size=n))
            t = 5 + 3 * np.cos(ang) * rng.uniform(0.5, 1)
            w = 5 + 3 * np.sin(ang) * rng.uniform(0.5, 1)
            T = rng.uniform(1, 9)
            if trial == 0 and 'T' in model and all(f't{i}' in model and f'w{i}' in model for i in range(n)):
                # the solver's counterexample first (exact rationals -> nearest doubles)
                from fractions import Fraction as F
                t = np.array([float(F(model[f't{i}'])) for i in range(n)])
                w = np.array([float(F(model[f'w{i}'])) for i in range(n)])
                T = float(F(model['T']))
            elif trial % 3 == 1:
                # a cut that leaves only a thin sliver of the polygon inside the window (late arrival times)
                t = t + 10 ** rng.uniform(0, 3)
                edge = t.min() if not case['close_to_open'] else t.max()
                T = edge + (1 if not case['close_to_open'] else -1) * (t.max() - t.min()) * 10 ** rng.uniform(-9, -5)
            sub = cc.Subframe(time=sc.array(dims=['vertex'], values=t, unit='s'), wavelength=sc.array(dims=['vertex'], values=w, unit='angstrom'))
            far = sc.array(dims=['slit'], values=[1e6 if case['close_to_open'] else -1e6], unit='s')
            cut = sc.array(dims=['slit'], values=[T], unit='s')
            d0 = sc.scalar(0.0, unit='m')
            res = cc.Frame(distance=d0, subframes=[sub]).chop(cc.Chopper(distance=d0, time_open=cut if case['close_to_open'] else far, time_close=far if case['close_to_open'] else cut)).subframes
            out = res[0] if res else None
            ins = (t >= T) if case['close_to_open'] else (t <= T)
            exp = []
            for i in range(n):
                jn = (i + 1) % n
                if ins[i]:
                    exp.append((t[i], w[i]))
                if ins[i] != ins[jn]:
                    exp.append((T, w[i] + (T - t[i]) * (w[jn] - w[i]) / (t[jn] - t[i])))
            if not exp:
                if out is not None:
                    bad.append('subframe for empty intersection')
                continue
            area2 = sum(exp[m_][0] * exp[(m_ + 1) % len(exp)][1] - exp[(m_ + 1) % len(exp)][0] * exp[m_][1] for m_ in range(len(exp)))
            if out is None and abs(area2) > 0 and len(exp) >= 3:
                bad.append(f'no subframe although the part of {list(zip(t.tolist(), w.tolist()))} {"after" if case["close_to_open"] else "before"} T={T!r} has area {abs(area2) / 2:.3g} s*angstrom')
                break
            if out is None:
                continue
            if len(out.time) != len(exp) or not np.allclose(out.time.values, [e[0] for e in exp], rtol=1e-12) or not np.allclose(out.wavelength.values, [e[1] for e in exp], rtol=1e-9):
                bad.append(f'clip of {list(zip(t, w))} at T={T}: got {None if out is None else list(zip(out.time.values, out.wavelength.values))}')
                break
    elif kind == 'framechop':
        m = case.get('model', {})
        nsub, nopen = case['nsub'], case['nopen']

        def clip(poly, T, keep_ge):
            out = []
            n = len(poly)
            for i in range(n):
                (t1, w1), (t2, w2) = poly[i], poly[(i + 1) % n]
                in1 = t1 >= T if keep_ge else t1 <= T
                in2 = t2 >= T if keep_ge else t2 <= T
                if in1:
                    out.append((t1, w1))
                if in1 != in2:
                    out.append((T, w1 + (T - t1) * (w2 - w1) / (t2 - t1)))
            return out

        def area(poly):
            return 0.5 * abs(sum(poly[i][0] * poly[(i + 1) % len(poly)][1] - poly[(i + 1) % len(poly)][0] * poly[i][1] for i in range(len(poly)))) if len(poly) >= 3 else 0.0

        d0, dd = m.get('d0', 0.0), m.get('dd', 0.0)
        subs, polys = [], []
        alpha = sc.constants.m_n.value / sc.constants.h.value * 1e-10
        for q in range(nsub):
            t = [m.get(f's{q}t{i}', 0.0) for i in range(3)]
            w = [m.get(f's{q}w{i}', 1.0) for i in range(3)]
            subs.append(cc.Subframe(time=sc.array(dims=['vertex'], values=t, unit='s'), wavelength=sc.array(dims=['vertex'], values=w, unit='angstrom')))
            polys.append([(ti + dd * alpha * wi, wi) for ti, wi in zip(t, w)])
        op = [m.get(f'open{k}', 0.0) for k in range(nopen)]
        cl = [m.get(f'close{k}', op[k] + 1.0) for k in range(nopen)]
        fr = cc.Frame(distance=sc.scalar(d0, unit='m'), subframes=subs)
        ch = cc.Chopper(distance=sc.scalar(d0 + dd, unit='m'), time_open=sc.array(dims=['slit'], values=op, unit='s'), time_close=sc.array(dims=['slit'], values=cl, unit='s'))
        got = fr.chop(ch)
        got_area = sum(area(list(zip(s_.time.values, s_.wavelength.values))) for s_ in got.subframes)
        exp_area = 0.0
        for poly in polys:
            for o, c in zip(op, cl):
                exp_area += area(clip(clip(poly, o, True), c, False)) if c > o else 0.0
        if abs(got_area - exp_area) > 1e-9 * max(1.0, exp_area):
            bad.append(f'chopped frame covers area {got_area} in (t, lambda), the union of subframe x opening intersections {exp_area}: triangles {polys}, openings {list(zip(op, cl))}')
    elif kind == 'getitem':
        # two choppers at the same distance: frames[distance] must reflect both
        seq = cc.FrameSequence.from_source_pulse(sc.scalar(0.0, unit='ms'), sc.scalar(3.0, unit='ms'), sc.scalar(1.0, unit='angstrom'), sc.scalar(10.0, unit='angstrom'))
        c1 = cc.Chopper(distance=sc.scalar(8.0, unit='m'), time_open=sc.array(dims=['slit'], values=[0.004], unit='s'), time_close=sc.array(dims=['slit'], values=[0.016], unit='s'))
        c2 = cc.Chopper(distance=sc.scalar(8.0, unit='m'), time_open=sc.array(dims=['slit'], values=[0.008], unit='s'), time_close=sc.array(dims=['slit'], values=[0.012], unit='s'))
        for lst in ([c1, c2], [c2, c1]):
            chopped = seq.chop(lst)
            at = chopped[sc.scalar(20.0, unit='m')]
            ref = chopped.frames[-1].propagate_to(sc.scalar(20.0, unit='m'))
            b1, b2 = at.bounds(), ref.bounds()
            if not all(sc.allclose(b1[k_], b2[k_]) for k_ in ('time', 'wavelength')):
                bad.append(f'frames[20 m] has bounds {b1["wavelength"].values.tolist()} A, the fully chopped frame propagated to 20 m has {b2["wavelength"].values.tolist()} A (two choppers at 8 m)')
    elif kind == 'propagate':
        h = sc.constants.h.value
        mn = sc.constants.m_n.value
        t = sc.array(dims=['vertex'], values=[0.0, 1e-3, 2e-3], unit='s')
        w = sc.array(dims=['vertex'], values=[1.0, 2.0, 4.0], unit='angstrom')
        for dist in (sc.scalar(13.0, unit='m'), sc.scalar(13000.0, unit='mm')):
            got = cc.propagate_times(t, w, dist).values
            exp = t.values + 13.0 * w.values * 1e-10 * mn / h
            if not np.allclose(got, exp, rtol=1e-12):
                bad.append(f'propagate_times: {got} vs {exp}')
        fr = cc.Frame(distance=sc.scalar(0.0, unit='m'), subframes=[cc.Subframe(time=t, wavelength=w)])
        two = fr.propagate_to(sc.scalar(5.0, unit='m')).propagate_to(sc.scalar(13.0, unit='m'))
        one = fr.propagate_to(sc.scalar(13.0, unit='m'))
        if not np.allclose(two.subframes[0].time.values, one.subframes[0].time.values, rtol=1e-13):
            bad.append('two steps != one step')
    elif kind == 'propagate-array':
        h = sc.constants.h.value
        mn = sc.constants.m_n.value
        t = np.array([4e-3, 6e-3, 9e-3])
        w = np.array([1.0, 2.0, 4.0])
        for D0, dists in ((6.0, [6.0, 8.0, 10.0]), (6.0, [8.0, 10.0]), (0.0, [0.0, 1.5]), (2.5, [1.0, 2.5, 7.0])):
            fr = cc.Frame(distance=sc.scalar(D0, unit='m'), subframes=[cc.Subframe(time=sc.array(dims=['vertex'], values=t, unit='s'), wavelength=sc.array(dims=['vertex'], values=w, unit='angstrom'))])
            out = fr.propagate_to(sc.array(dims=['distance'], values=dists, unit='m'))
            tt = out.subframes[0].time
            for kd, Dk in enumerate(dists):
                exp = t + (Dk - D0) * w * 1e-10 * mn / h
                got = tt['distance', kd].values if 'distance' in tt.dims else tt.values
                if not np.allclose(got, exp, rtol=1e-12, atol=1e-15):
                    bad.append(f'frame at {D0} m propagated to {dists} m: arrival times at {Dk} m are {got.tolist()}, expected {exp.tolist()}')
                    break
    elif kind == 'bounds':
        from fractions import Fraction as F
        nsub = case['nsub']
        model = case.get('model') or {}
        for trial in range(200):
            subs, at, aw = [], [], []
            for q in range(nsub):
                if trial == 0 and all(f's{q}t{i}' in model and f's{q}w{i}' in model for i in range(3)):
                    t = np.array([float(F(model[f's{q}t{i}'])) for i in range(3)])
                    w = np.array([float(F(model[f's{q}w{i}'])) for i in range(3)])
                else:
                    # overlapping subframes in arbitrary listing order
                    t = np.sort(rng.uniform(0, 10, size=3))
                    w = np.sort(rng.uniform(0.1, 10, size=3))
                at += list(t)
                aw += list(w)
                subs.append(cc.Subframe(time=sc.array(dims=['vertex'], values=t, unit='s'), wavelength=sc.array(dims=['vertex'], values=w, unit='angstrom')))
            b = cc.Frame(distance=sc.scalar(1.0, unit='m'), subframes=subs).bounds()
            got = (b['time'].values.tolist(), b['wavelength'].values.tolist())
            exp = ([min(at), max(at)], [min(aw), max(aw)])
            if got != exp:
                bad.append(f'bounds() of subframes with times {at} s, wavelengths {aw} A: {got}, bounding box {exp}')
                break
    elif kind == 'order':
        seq = cc.FrameSequence.from_source_pulse(sc.scalar(0.0, unit='ms'), sc.scalar(3.0, unit='ms'), sc.scalar(1.0, unit='angstrom'), sc.scalar(10.0, unit='angstrom'))
        c1 = cc.Chopper(distance=sc.scalar(5.0, unit='m'), time_open=sc.array(dims=['slit'], values=[0.002], unit='s'), time_close=sc.array(dims=['slit'], values=[0.01], unit='s'))
        c2 = cc.Chopper(distance=sc.scalar(9.0, unit='m'), time_open=sc.array(dims=['slit'], values=[0.003], unit='s'), time_close=sc.array(dims=['slit'], values=[0.02], unit='s'))
        try:
            a = seq.chop([c1, c2])
            b = seq.chop([c2, c1])
        except Exception as e:  # noqa: BLE001
            return {'reproduced': True, 'detail': f'one listing order fails: {type(e).__name__}: {e}'[:200]}
        if [f.distance.value for f in a.frames] != [f.distance.value for f in b.frames] or a.frames[-1] != b.frames[-1]:
            bad.append('result depends on the listing order')
    return {'reproduced': bool(bad), 'detail': '; '.join(bad[:2])}
