"""C12 - every SQW file written is a structurally complete, self-consistent container."""
from __future__ import annotations

import itertools
from fractions import Fraction

from .common import ob_dict, run_jobs

CALLS = ['pix', 'instrument', 'sample', 'dnd', 'detpar']
CANON = [("", "main_header"), ("", "detpar"), ("data", "metadata"), ("data", "nd_data"), ("experiment_info", "instruments"),
         ("experiment_info", "samples"), ("experiment_info", "expdata"), ("pix", "metadata"), ("pix", "data_wrap")]
PIX_UNITS = {'u1': '1/angstrom', 'u2': '1/angstrom', 'u3': '1/angstrom', 'u4': 'meV', 'irun': None, 'idet': None, 'ien': None,
             'signal': 'count', 'error': 'count**2'}


def _load():
    from symex import loader

    sc = loader.install_shim()
    build = loader.load('io.sqw._build')
    models = loader.load('io.sqw._models')
    sqw = loader.load('io.sqw._sqw')
    rw = loader.load('io.sqw._read_write')
    from . import sqwsym

    sqwsym.install(build, sqw, rw)
    return sc, build, models, sqw, rw


def make_inputs(sc, models, n_runs, title, name, shape_syms, en_dtype='float64'):
    exps = [models.SqwIXExperiment(
        run_id=i, efix=sc.scalar(1.2 + i, unit='meV'), emode=models.EnergyMode.direct,
        en=sc.array(dims=['energy_transfer'], values=[3.0, 4.0], unit='meV', dtype=en_dtype), psi=sc.scalar(1.2, unit='rad'),
        u=sc.vector([0.0, 1.0, 0.0]), v=sc.vector([1.0, 1.0, 0.0]), omega=sc.scalar(1.4, unit='rad'), dpsi=sc.scalar(46.0, unit='deg'),
        gl=sc.scalar(3.0, unit='rad'), gs=sc.scalar(-0.5, unit='rad'), filename=name, filepath='/' + name) for i in range(n_runs)]
    inst = models.SqwIXNullInstrument(name=name, source=models.SqwIXSource(name='src' + name, target_name='tgt', frequency=sc.scalar(14.0, unit='Hz')))
    sample = models.SqwIXSample(name=name, lattice_spacing=sc.vector([2.86, 2.86, 2.86], unit='angstrom'), lattice_angle=sc.vector([90.0, 90.0, 90.0], unit='deg'))
    nb = sc.array(dims=['axis'], values=list(shape_syms), unit=None, dtype='float64')
    dnd = models.SqwDndMetadata(
        axes=models.SqwLineAxes(
            title=title, label=['u1', 'u2', 'u3', name or 'u4'],
            img_scales=[sc.scalar(1.0, unit='1/angstrom'), sc.scalar(1.0, unit='1/angstrom'), sc.scalar(1.0, unit='1/angstrom'), sc.scalar(1.0, unit='meV')],
            img_range=[sc.array(dims=['range'], values=[0.0, 1.0], unit='1/angstrom')] * 3 + [sc.array(dims=['range'], values=[0.0, 1.0], unit='meV')],
            n_bins_all_dims=nb, single_bin_defines_iax=sc.array(dims=['axis'], values=[True] * len(shape_syms)),
            dax=sc.arange('axis', len(shape_syms), unit=None),
            offset=[sc.scalar(0.0, unit='1/angstrom'), sc.scalar(0.0, unit='1/angstrom'), sc.scalar(0.0, unit='1/angstrom'), sc.scalar(0.0, unit='meV')],
            changes_aspect_ratio=True),
        proj=models.SqwLineProj(
            lattice_spacing=sc.vector([2.86, 2.86, 2.86], unit='angstrom'), lattice_angle=sc.vector([90.0, 90.0, 90.0], unit='deg'),
            offset=[sc.scalar(0.0, unit='1/angstrom'), sc.scalar(0.0, unit='1/angstrom'), sc.scalar(0.0, unit='1/angstrom'), sc.scalar(0.0, unit='meV')],
            title=title, label=['u1', 'u2', 'u3', 'u4'], u=sc.vector([1.0, 0.0, 0.0], unit='1/angstrom'), v=sc.vector([0.0, 1.0, 0.0], unit='1/angstrom'),
            w=None, non_orthogonal=False, type='aaa'))
    return exps, inst, sample, dnd


def decode_top(records):
    """Independent decoder of the top-level layout (Horace format description): header, BAT."""
    from symex.core import R

    i = [0]
    off = [R.lift(0)]

    def take(kind):
        r = records[i[0]]
        if r.kind != kind:
            raise ValueError(f'record {i[0]}: expected {kind}, got {r}')
        i[0] += 1
        off[0] = off[0] + r.width
        return r.value

    def chararr():
        n = take('u32')
        s = take('chars')
        if len(s.encode()) != n:
            raise ValueError('char array length field')
        return s

    hdr = {'prog_name': chararr(), 'prog_version': take('f64'), 'sqw_type': take('u32'), 'n_dims': take('u32')}
    hdr_len = off[0]
    bat_size = take('u32')
    bat_begin = off[0]
    nblocks = take('u32')
    blocks = []
    for _ in range(int(nblocks)):
        bt = chararr()
        n1 = chararr()
        n2 = chararr()
        pos = take('u64')
        size = take('u32')
        locked = take('u32')
        blocks.append({'type': bt, 'name': (n1, n2), 'position': pos, 'size': size, 'locked': locked})
    bat_end = off[0]
    return hdr, hdr_len, bat_size, bat_begin, bat_end, blocks, i[0]


def job(j, seed):
    order, n_runs, strings, unwind, *more = j
    rows = more[0] if more else None  # a selection of pixel rows (the row count of the pixel block); None = the 9 default rows
    en_dtype = more[1] if len(more) > 1 else 'float64'  # element type of the energy grids of the runs as supplied
    from symex import core as C
    from symex.core import R
    from . import sqwsym
    from .sqwstream import FramingError, SymFile
    from .symutil import fresh_run

    sc, build, models, sqw, rw = _load()
    fresh_run()
    sqwsym.SYM['unwind'] = max(unwind, 9) + 1
    title, name = strings
    obs, cands = [], []
    tag = f'order={"+".join(order)},runs={n_runs},strings={strings!r}' + (f',rows={len(rows)}' if rows else '') + ('' if en_dtype == 'float64' else f',en {en_dtype}')
    case = {'order': list(order), 'n_runs': n_runs, 'title': title, 'name': name, 'rows': list(rows) if rows else None, 'en_dtype': en_dtype}
    N = C.sym_var('N', sign='0+', is_int=True)
    chunk = C.sym_var('chunk', sign='+', is_int=True)
    shape = [C.sym_var(f's{k}', sign='+', is_int=True) for k in range(2)]
    C.CTX.assume(N <= unwind * chunk)
    C.CTX.assume(chunk >= 1)
    for s in shape:
        C.CTX.assume(s >= 1)
    C.CTX.fork_timeout_ms = 3000

    def run():
        sqwsym.SHAPE_OBLIGATIONS.clear()
        f = SymFile()
        b = build.SqwBuilder(f, title, byteorder=None)
        exps, inst, sample, dnd = make_inputs(sc, models, n_runs, title, name, shape, en_dtype)
        for c in order:
            if c == 'pix':
                if rows:
                    b = b.add_pixel_data(sqwsym.SymPixels(N, PIX_UNITS), experiments=exps, rows=tuple(rows), row_units=tuple(PIX_UNITS[r_] for r_ in rows))
                else:
                    b = b.add_pixel_data(sqwsym.SymPixels(N, PIX_UNITS), experiments=exps)
            elif c == 'instrument':
                b = b.add_default_instrument(inst)
            elif c == 'sample':
                b = b.add_default_sample(sample)
            elif c == 'dnd':
                b = b.add_empty_dnd_data(dnd)
            elif c == 'detpar':
                b = b.add_empty_detector_params()
        b.create(chunk_size=chunk)
        return f, list(sqwsym.SHAPE_OBLIGATIONS)

    paths = C.explore(run, max_paths=200, catch=(Exception,))

    def chk(name_, goal, pc, sig, extra=None):
        ob = C.prove(f'{tag}:{name_}', goal, pc=pc, timeout_ms=20000)
        obs.append(ob_dict(ob))
        if ob.status == 'violated':
            c = dict(case)
            m = ob.model or {}
            c['N'] = int(m.get('N', 0))
            c['chunk'] = int(m.get('chunk', 1))
            c['shape'] = [int(m.get(f's{k}', 1)) for k in range(2)]
            cands.append((sig, c, name_))
        return ob

    nvalue = 0
    for k, p in enumerate(paths):
        if p.inconclusive:
            obs.append({'name': f'{tag}:path{k}', 'status': 'inconclusive', 'detail': p.inconclusive[:200], 't': 0})
            continue
        if p.exc is not None:
            obs.append({'name': f'{tag}:path{k}:create raises', 'status': 'violated', 'detail': repr(p.exc)[:200], 't': 0})
            m = C.solve([*C.CTX.assumptions, *p.pc])
            c = dict(case)
            if m.status == 'sat':
                c['N'] = int(m.model.get('N', 0))
                c['chunk'] = int(m.model.get('chunk', 1))
                c['shape'] = [int(m.model.get(f's{i}', 1)) for i in range(2)]
            cands.append(('C12:raises', c, repr(p.exc)[:100]))
            continue
        nvalue += 1
        f, shape_obs = p.value
        P = f'path{k}'
        try:
            hdr, hdr_len, bat_size, bat_begin, bat_end, blocks, idx = decode_top(f.records)
        except Exception as e:  # noqa: BLE001
            obs.append({'name': f'{tag}:{P}:top-level layout decodes', 'status': 'violated', 'detail': repr(e)[:200], 't': 0})
            cands.append(('C12:layout', case, repr(e)[:100]))
            continue
        n_dims = 4 if 'pix' in order else 0
        chk(f'{P}:header = horace 4.0 SQW', C.B.const(hdr['prog_name'] == 'horace' and hdr['prog_version'] == 4.0 and hdr['sqw_type'] == 1 and hdr['n_dims'] == n_dims), p.pc, 'C12:header')
        chk(f'{P}:BAT size field = bytes of the table', R.lift(bat_size) == bat_end - bat_begin, p.pc, 'C12:bat-size')
        names = [b_['name'] for b_ in blocks]
        # the set of blocks is determined by the set of calls; the order must be one fixed order of that set
        # (regular blocks in the documented canonical order, then the histogram, then the pixels)
        want = {("", "main_header")}
        if 'detpar' in order:
            want.add(("", "detpar"))
        if 'dnd' in order:
            want |= {("data", "metadata"), ("data", "nd_data")}
        if 'instrument' in order:
            want.add(("experiment_info", "instruments"))
        if 'sample' in order:
            want.add(("experiment_info", "samples"))
        if 'pix' in order:
            want |= {("experiment_info", "expdata"), ("pix", "metadata"), ("pix", "data_wrap")}
        rank = {n: i for i, n in enumerate([n for n in CANON if n not in (("data", "nd_data"), ("pix", "data_wrap"))] + [("data", "nd_data"), ("pix", "data_wrap")])}
        expected = sorted(want, key=rank.get)
        chk(f'{P}:each block once, canonical order {names if names != expected else ""}', C.B.const(names == expected), p.pc, 'C12:bat-order')
        # extents
        pos = bat_end
        ok_chain = C.TRUE
        for b_ in blocks:
            ok_chain = ok_chain & (R.lift(b_['position']) == pos)
            pos = pos + R.lift(b_['size'])
        chk(f'{P}:extents start after the table and are contiguous', ok_chain, p.pc, 'C12:extents')
        chk(f'{P}:last extent ends at end-of-file', pos == f.total(), p.pc, 'C12:eof')
        types = {("data", "nd_data"): 'dnd_data_block', ("pix", "data_wrap"): 'pix_data_block'}
        chk(f'{P}:declared block types', C.B.const(all(b_['type'] == types.get(b_['name'], 'data_block') for b_ in blocks)), p.pc, 'C12:types')
        for nm, a, b_ in shape_obs:
            chk(f'{P}:{nm}', a == b_, p.pc, 'C12:pix-chunk-shape')
        # each extent decodes completely within itself with the package's own reader
        C.CTX.exploring = True
        C.CTX.reset_path(p.decisions)
        C.CTX.pc = list(p.pc)
        C.CTX.pos = len(p.decisions)
        try:
            f.cursor = 0
            with sqw.Sqw.open(f) as s:
                for b_ in blocks:
                    try:
                        # format-level decode with the package's readers (model parsing is C13)
                        s._sqw_io.seek(b_['position'])
                        if b_['type'] == 'data_block':
                            rw.read_object_array(s._sqw_io)
                        elif b_['type'] == 'pix_data_block':
                            sqw._read_pix_block(s._sqw_io)
                        else:
                            sqw._read_dnd_block(s._sqw_io)
                        end = f.tell()
                        chk(f'{P}:block {b_["name"]} decodes exactly within its extent', end == R.lift(b_['position']) + R.lift(b_['size']), C.CTX.pc, 'C12:decode')
                    except FramingError as e:
                        obs.append({'name': f'{tag}:{P}:block {b_["name"]} decodes within its extent', 'status': 'violated', 'detail': str(e)[:200], 't': 0})
                        m = C.solve([*C.CTX.assumptions, *C.CTX.pc])
                        c = dict(case)
                        if m.status == 'sat':
                            c['N'] = int(m.model.get('N', 0))
                            c['chunk'] = int(m.model.get('chunk', 1))
                            c['shape'] = [int(m.model.get(f's{i}', 1)) for i in range(2)]
                        cands.append(('C12:decode', c, str(e)[:100]))
        except (C.HarnessError, C._Abort) as e:
            obs.append({'name': f'{tag}:{P}:reader', 'status': 'inconclusive', 'detail': repr(e)[:200], 't': 0})
        finally:
            C.CTX.exploring = False
    ob = C.prove(f'{tag}:some path returns a file', C.B.const(nvalue >= 1))
    obs.append(ob_dict(ob))
    return {'obligations': obs, 'candidates': cands, 'paths': len(paths)}


def job_byteorder(j, seed):
    """_deduce_byteorder returns the order the length field was written in, for every header length 1..65535 (bit-vectors)."""
    import z3
    from symex import core as C
    from symex import loader
    from .symutil import fresh_run

    loader.install_shim()
    ll = loader.load('io.sqw._low_level_io')
    fresh_run()
    obs, cands = [], []
    L = z3.BitVec('L', 32)

    class SymBytes:
        def __init__(self, order):
            self.order = order  # order the 4 bytes were written in

    class SymInt:
        @staticmethod
        def from_bytes(buf, order):
            # value obtained reading the bytes of L (written in buf.order) in `order`
            if order == buf.order:
                return BV(L)
            b = [z3.Extract(8 * i + 7, 8 * i, L) for i in range(4)]
            return BV(z3.Concat(b[0], b[1], b[2], b[3]))  # byte-swapped

    class BV:
        def __init__(self, e):
            self.e = e

        def __lt__(self, o):
            return C.B('z3', z3.ULT(self.e, o.e))

    class F:
        def __init__(self, order):
            self.order = order

        def tell(self):
            return 0

        def read(self, n):
            return SymBytes(self.order)

        def seek(self, p):
            pass

    ll.int = SymInt
    try:
        for order in ('little', 'big'):
            C.CTX.assume(C.B('z3', z3.And(z3.UGE(L, 1), z3.ULE(L, 65535))))
            paths = C.explore(lambda o=order: ll._deduce_byteorder(F(o), byteorder=None))
            for k, p in enumerate(paths):
                if p.exc is not None or p.inconclusive:
                    obs.append({'name': f'byteorder[{order}]:path{k}', 'status': 'inconclusive', 'detail': str(p.exc or p.inconclusive), 't': 0})
                    continue
                ob = C.prove(f'byteorder: written {order}, path{k} returns {p.value.value} => unreachable unless equal', C.B.const(p.value.value == order), pc=p.pc)
                obs.append(ob_dict(ob))
                if ob.status == 'violated':
                    cands.append(('C12:byteorder', {'kind': 'byteorder', 'order': order}, 'wrong byte order deduced'))
            C.CTX.assumptions.clear()
    finally:
        ll.int = int
    return {'obligations': obs, 'candidates': cands, 'paths': 2}


def run(chk):
    sc, build, models, sqw, rw = _load()
    from symex import loader

    ll = loader.load('io.sqw._low_level_io')
    chk.functions = loader.describe_exprs(['build.SqwBuilder.create', 'build.SqwBuilder._serialize_data_blocks', 'build.SqwBuilder._serialize_block_allocation_table', 'build.SqwBuilder._prepare_data_blocks', 'build.SqwBuilder._make_file_header', 'build.SqwBuilder.add_pixel_data', 'build._to_canonical_block_order', 'build._write_file_header', 'build._write_data_block_descriptor', 'build._PixWrap.size', 'build._PixWrap.write', 'build._DndPlaceholder.size', 'build._DndPlaceholder.write', 'rw.write_object_array', 'rw.read_object_array', 'sqw._read_file_header', 'sqw._read_block_allocation_table', 'sqw._read_pix_block', 'sqw._read_dnd_block', 'll._deduce_byteorder'], {**globals(), **locals()})
    K = 6 if chk.tier == 'quick' else 12
    orders = [('pix', 'instrument', 'sample', 'dnd', 'detpar'), ('detpar', 'dnd', 'sample', 'instrument', 'pix'), ('dnd', 'pix'), ('pix',),
              ('sample', 'pix', 'dnd'), ('dnd',), ()]
    if chk.tier == 'thorough':
        orders = []
        for r in range(len(CALLS) + 1):
            for sub in itertools.combinations(CALLS, r):
                perms = list(itertools.permutations(sub))
                orders += perms[:2] + perms[-1:]
        orders = list(dict.fromkeys(orders))
    strs = [('title', 'run'), ('', ''), ('tïtle-µ', 'ñame')]
    jobs = []
    for i, o in enumerate(orders):
        jobs.append((o, 1 + i % 3, strs[i % len(strs)], K))
    jobs.append((orders[0], 2, strs[2], K))
    # row selections other than the nine default rows (the row count is part of the pixel block header)
    allrows = list(PIX_UNITS)
    jobs.append((('dnd', 'pix'), 1, strs[0], K, allrows[:8]))
    jobs.append((('pix', 'sample'), 1, strs[0], K, allrows[:1]))
    jobs.append((('pix',), 2, strs[0], K, allrows + allrows[:1]))
    # energy grids supplied in another element type (the file stores doubles)
    jobs.append((('pix', 'dnd'), 2, strs[0], K, None, 'float32'))
    jobs.append((('pix',), 1, strs[0], K, None, 'int64'))
    run_jobs(chk, job, jobs)
    run_jobs(chk, job_byteorder, [0])
    chk.bounds = {'pixels N': f'any N >= 0 with N <= {K}*chunk (chunk loop unrolled <= {K} iterations, unwinding checked)', 'chunk': 'any integer >= 1',
                  'histogram shape': '2 symbolic extents >= 1', 'runs': '1..3', 'strings': 'ASCII, empty and non-ASCII samples (concrete)',
                  'builder calls': f'{len(jobs)} subsets/orders'}
    chk.stubs = ['LowLevelSqw/BytesIO -> typed symbolic record stream (kind, byte width term, value)', 'numpy empty/zeros/prod -> symbolic-extent arrays',
                 'len/range/min/int in _build -> symbolic versions', 'pixel rows -> rows of symbolic length N']
    chk.axioms = ['utf-8 length of concrete strings computed exactly', 'byte order: u32 length field as a 32-bit bit-vector']
    chk.assumptions = ['N*36 < 2^32 (u32 size field) not checked', 'real files vs BytesIO differ only inside numpy', 'datetime.now arbitrary (fixed-width ISO format)']


def replay_real(case):
    import io

    import numpy as np
    import scipp as sc
    from scippneutron.io import sqw as S

    if case.get('kind') == 'byteorder':
        bad = []
        for order in ('little', 'big'):
            f = io.BytesIO()
            S.Sqw.build(f, byteorder=order).create()
            f.seek(0)
            with S.Sqw.open(f) as s:
                if s.byteorder.value != order:
                    bad.append(order)
        return {'reproduced': bool(bad), 'detail': str(bad)}
    order = case['order']
    N = max(0, int(case.get('N', 20)))
    chunk = max(1, int(case.get('chunk', 1)))
    shape = [max(1, min(6, int(x))) for x in case.get('shape', [2, 3])]
    n_runs = case['n_runs']
    title, name = case['title'], case['name']
    import types

    from . import c12_sqw_structure as me

    class M:  # real models
        pass

    from scippneutron.io.sqw import _models as models

    exps, inst, sample, dnd = me.make_inputs(sc, models, n_runs, title, name, [float(s) for s in shape], case.get('en_dtype') or 'float64')
    rng = np.random.default_rng(0)
    pix = sc.DataArray(sc.array(dims=['pixel'], values=rng.random(N), variances=rng.random(N), unit='count'),
                       coords={k: sc.array(dims=['pixel'], values=rng.random(N), unit=u) for k, u in me.PIX_UNITS.items() if k not in ('signal', 'error')})
    bad = []
    for bo in ('little', 'big'):
        f = io.BytesIO()
        b = S.Sqw.build(f, title=title, byteorder=bo)
        for c in order:
            if c == 'pix':
                if case.get('rows'):
                    b = b.add_pixel_data(pix, experiments=exps, rows=tuple(case['rows']), row_units=tuple(me.PIX_UNITS[r_] for r_ in case['rows']))
                else:
                    b = b.add_pixel_data(pix, experiments=exps)
            elif c == 'instrument':
                b = b.add_default_instrument(inst)
            elif c == 'sample':
                b = b.add_default_sample(sample)
            elif c == 'dnd':
                b = b.add_empty_dnd_data(dnd)
            elif c == 'detpar':
                b = b.add_empty_detector_params()
        try:
            b.create(chunk_size=chunk)
        except Exception as e:  # noqa: BLE001
            bad.append(f'create raises {type(e).__name__}: {e}')
            continue
        raw = f.getvalue()
        f.seek(0)
        try:
            with S.Sqw.open(f) as s:
                if s.byteorder.value != bo:
                    bad.append('byte order')
                bat = s._block_allocation_table
                names = list(bat)
                rank = {n: i for i, n in enumerate([n for n in me.CANON if n not in (("data", "nd_data"), ("pix", "data_wrap"))] + [("data", "nd_data"), ("pix", "data_wrap")])}
                canon = sorted(names, key=rank.get)
                if names != canon or len(set(names)) != len(names):
                    bad.append(f'block order {names}')
                descs = list(bat.values())
                for a, b_ in zip(descs, descs[1:]):
                    if a.position + a.size != b_.position:
                        bad.append(f'extent of {a.name} not contiguous with {b_.name}')
                if descs and descs[-1].position + descs[-1].size != len(raw):
                    bad.append(f'last extent ends at {descs[-1].position + descs[-1].size}, file has {len(raw)} bytes (N={N}, chunk={chunk})')
                for d in descs:
                    try:
                        import warnings
                        with warnings.catch_warnings():
                            warnings.simplefilter('ignore')
                            s.read_data_block(d.name)
                        if f.tell() != d.position + d.size:
                            bad.append(f'block {d.name} decodes to {f.tell()} but extent ends at {d.position + d.size}')
                    except Exception as e:  # noqa: BLE001
                        bad.append(f'block {d.name} does not decode: {type(e).__name__}: {e}')
        except Exception as e:  # noqa: BLE001
            bad.append(f'open fails: {type(e).__name__}: {e}')
    return {'reproduced': bool(bad), 'detail': '; '.join(bad[:3])}
