"""C13 - SQW content is what was supplied (pixels, run metadata, histogram metadata)."""
from __future__ import annotations

from fractions import Fraction

from .common import ob_dict, run_jobs
from .c12_sqw_structure import CANON, PIX_UNITS, decode_top, make_inputs


def _load():
    from .c12_sqw_structure import _load as l

    return l()


# ---------------------------------------------------------------------------------------------
# Independent decoder of the Horace "serialised object" format, over the record stream.
# Written from documentation/add/05_file_formats.md: u8 type tag, u8 ndims, u32 dims..., payload.
TAGS = {0: 'logical', 1: 'char', 3: 'f64', 4: 'f32', 10: 'u32', 12: 'u64', 23: 'cell', 24: 'struct', 32: 'serializable'}


class Cur:
    def __init__(self, records, i=0):
        self.r, self.i = records, i

    def take(self, kind):
        while self.i < len(self.r) and self.r[self.i].width.is_const() and self.r[self.i].width.const_value() == 0:
            self.i += 1
        rec = self.r[self.i]
        if rec.kind != kind:
            raise ValueError(f'oracle decoder: expected {kind}, found {rec} at record {self.i}')
        self.i += 1
        return rec


def dec_obj(c: Cur):
    import numpy as np

    tag = int(c.take('u8').value)
    if tag == 32:
        return dec_obj(c)
    nd = int(c.take('u8').value)
    shape = [int(c.take('u32').value) for _ in range(nd)]
    vol = 1
    for s in shape:
        vol *= s
    if not shape:
        vol = 0
    kind = TAGS[tag]
    if kind == 'char':
        if not shape:
            return ''
        n = vol // shape[0] if shape[0] else 0
        out = []
        for _ in range(n):
            rec = c.take('chars')
            if len(rec.value.encode()) != shape[0]:
                raise ValueError(f'oracle decoder: string of {len(rec.value.encode())} bytes declared as {shape[0]}')
            out.append(rec.value)
        return out[0] if len(out) == 1 else out
    if kind == 'f64':
        vals = []
        while len(vals) < vol:
            rec = c.r[c.i]
            if rec.kind == 'f64':
                c.i += 1
                vals.append(rec.value)
            elif rec.kind == 'array':
                c.i += 1
                if rec.meta not in (None, 'float64'):
                    raise ValueError(f'oracle decoder: f64 payload written as {rec.meta}')
                vals.extend(list(np.asarray(rec.value, dtype=object).reshape(-1)))
            else:
                raise ValueError(f'oracle decoder: f64 payload, found {rec}')
        if len(vals) != vol:
            raise ValueError('oracle decoder: f64 payload size')
        return {'f64': vals, 'shape': shape}
    if kind == 'logical':
        return [c.take('logical').value for _ in range(vol)]
    if kind == 'cell':
        return [dec_obj(c) for _ in range(vol)]
    if kind == 'struct':
        if not shape:
            return []
        nf = int(c.take('u32').value)
        lens = [int(c.take('u32').value) for _ in range(nf)]
        names = []
        for ln in lens:
            rec = c.take('chars')
            if len(rec.value.encode()) != ln:
                raise ValueError('oracle decoder: field name length')
            names.append(rec.value)
        vals = dec_obj(c)  # cell array nf x 1 (x n)
        n = vol
        return [dict(zip(names, vals[i * nf:(i + 1) * nf], strict=True)) for i in range(n)]
    raise ValueError(f'oracle decoder: unsupported tag {tag}')


def f64s(x):
    return x['f64']


# ---------------------------------------------------------------------------------------------
def job(j, seed):
    N, chunk, angle_unit, mode, *rest = j
    hshape = [float(x) for x in (rest[0] if rest and rest[0] else (2, 3))]
    meta_dt = rest[1] if len(rest) > 1 else 'float64'
    title_, name_ = rest[2] if len(rest) > 2 else ('title', 'nm')  # title and the label of the fourth image axis
    import numpy as np
    from symex import core as C
    from symex.core import R
    from symsc.units import Unit, parse_unit
    from symsc.variable import Variable
    from . import sqwsym
    from .sqwstream import SymFile
    from .symutil import fresh_run, sym_unit

    sc, build, models, sqw, rw = _load()
    fresh_run()
    obs, cands = [], []
    tag = f'N={N},chunk={chunk},angles={angle_unit},{mode}' + ('' if hshape == [2.0, 3.0] else f',hist={[int(x) for x in hshape]}') + ('' if meta_dt == 'float64' else f',metadata {meta_dt}') + ('' if (title_, name_) == ('title', 'nm') else f',strings={(title_, name_)!r}')
    case = {'strings': [title_, name_], 'N': N, 'chunk': chunk, 'angle_unit': angle_unit, 'mode': mode, 'hist_shape': hshape, 'meta_dtype': meta_dt}
    n_runs = 2
    C.CTX.fork_timeout_ms = 3000
    # ---- symbolic pixel rows with symbolic unit scales (ascending within a row: bounds the min/max forks)
    in_units = {}
    rows = {}
    for name, u in PIX_UNITS.items():
        if u is None:
            in_units[name] = None
        else:
            in_units[name] = Unit.symbolic('sigma_' + name, parse_unit(u))
        vals = [C.sym_var(f'{name}_{k}') for k in range(N)]
        for a, b in zip(vals, vals[1:]):
            C.CTX.assume(a < b)
        rows[name] = vals
    var_vals = [C.sym_var(f'var_{k}', sign='0+') for k in range(N)]
    for a, b in zip(var_vals, var_vals[1:]):
        C.CTX.assume(a < b)

    def arr(vals, unit):
        a = np.empty((len(vals),), dtype=object)
        for i, v in enumerate(vals):
            a[i] = v
        return a

    coords = {k: Variable(_arr=arr(rows[k], None), dims=('pixel',), unit=in_units[k], dtype=sc.DType.float64) for k in PIX_UNITS if k not in ('signal', 'error')}
    for cvar in coords.values():
        cvar._aligned = True
    data = Variable(_arr=arr(rows['signal'], None), _var=arr(var_vals, None), dims=('pixel',), unit=in_units['signal'], dtype=sc.DType.float64)
    pix = sc.DataArray(data, coords=coords)
    # ---- symbolic run parameters
    uE = sym_unit('E', 'J')
    au = parse_unit(angle_unit)
    exps = []
    sym = {}
    for i in range(n_runs):
        ang = {k: C.sym_var(f'{k}{i}') for k in ('psi', 'omega', 'dpsi', 'gl', 'gs')}
        efix = C.sym_var(f'efix{i}', sign='+')
        en = [C.sym_var(f'en{i}_{k}') for k in range(2)]
        sym[i] = {'ang': ang, 'efix': efix, 'en': en}
        if mode == 'direct':
            efv = Variable(dims=(), values=efix, unit=uE, dtype='float64')
            env = Variable(_arr=arr(en, None), dims=('energy_transfer',), unit=uE, dtype=sc.DType.float64)
            em = models.EnergyMode.direct
        else:
            efv = Variable(_arr=arr([efix, efix + 1], None), dims=('detector',), unit=uE, dtype=sc.DType.float64)
            a2 = np.empty((2, 2), dtype=object)
            for d in range(2):
                for k in range(2):
                    a2[d, k] = en[k] + d
            env = Variable(_arr=a2, dims=('detector', 'energy_transfer'), unit=uE, dtype=sc.DType.float64)
            if mode == 'indirect-T':
                # the same table handed over with its dimensions in the other order
                env = Variable(_arr=a2.T.copy(), dims=('energy_transfer', 'detector'), unit=uE, dtype=sc.DType.float64)
            em = models.EnergyMode.indirect
        exps.append(models.SqwIXExperiment(
            run_id=i, efix=efv, emode=em, en=env, psi=Variable(dims=(), values=ang['psi'], unit=au, dtype='float64'),
            u=sc.vector([0.0, 1.0, 0.0]), v=sc.vector([1.0, 1.0, 0.0]), omega=Variable(dims=(), values=ang['omega'], unit=au, dtype='float64'),
            dpsi=Variable(dims=(), values=ang['dpsi'], unit=au, dtype='float64'), gl=Variable(dims=(), values=ang['gl'], unit=au, dtype='float64'),
            gs=Variable(dims=(), values=ang['gs'], unit=au, dtype='float64'), filename=f'run{i}', filepath='/p'))
    _e, inst, sample, dnd = make_inputs(sc, models, n_runs, title_, name_, hshape)
    alatt = [C.sym_var(f'alatt_{k}', sign='+') for k in range(3)]
    uA = sym_unit('A', 'm')
    sample = models.SqwIXSample(name='smp', lattice_spacing=Variable(_arr=arr(alatt, None), dims=(), unit=uA, dtype=sc.DType.vector3),
                                lattice_angle=sc.vector([90.0, 90.0, 90.0], unit='deg'))
    dnd.proj.lattice_spacing = Variable(_arr=arr(alatt, None), dims=(), unit=uA, dtype=sc.DType.vector3)
    # histogram metadata (scales, ranges, offsets of the image axes): symbolic numbers in symbolic units (3 x inverse length, energy),
    # float64 or integer-valued (sc.scalar(2, unit='1/nm') is int64)
    uQ = sym_unit('Q', '1/m')
    mdt = sc.DType.float64 if meta_dt == 'float64' else sc.DType.int64
    msym = {}

    def mvars(name, n):
        out = []
        for k in range(4):
            vs = [C.sym_var(f'{name}{k}_{i}', is_int=meta_dt != 'float64') for i in range(n)]
            msym[name, k] = vs
            un = uQ if k < 3 else uE
            out.append(Variable(dims=(), values=vs[0], unit=un, dtype=mdt) if n == 1 else Variable(_arr=arr(vs, None), dims=('range',), unit=un, dtype=mdt))
        return out

    dnd.axes.img_scales = mvars('scale', 1)
    dnd.axes.img_range = mvars('range', 2)
    dnd.axes.offset = mvars('aoff', 1)
    dnd.proj.offset = mvars('poff', 1)

    def run():
        f = SymFile()
        b = build.SqwBuilder(f, title_, byteorder=None)
        b = b.add_pixel_data(pix, experiments=exps).add_default_instrument(inst).add_default_sample(sample).add_empty_dnd_data(dnd)
        b.create(chunk_size=chunk)
        return f

    paths = C.explore(run, max_paths=64)

    def chk(name_, goal, pc, sig):
        ob = C.prove(f'{tag}:{name_}', goal, pc=pc, timeout_ms=20000)
        obs.append(ob_dict(ob))
        if ob.status == 'violated':
            cands.append((sig, case, name_))
        return ob

    def phys(v, unit):
        return v * R(unit.scale_rat()) if unit is not None else v

    good = 0
    for k, p in enumerate(paths):
        P = f'path{k}'
        if p.inconclusive:
            obs.append({'name': f'{tag}:{P}', 'status': 'inconclusive', 'detail': p.inconclusive[:200], 't': 0})
            continue
        if p.exc is not None:
            obs.append({'name': f'{tag}:{P}:create raises', 'status': 'violated', 'detail': repr(p.exc)[:200], 't': 0})
            cands.append(('C13:raises', case, repr(p.exc)[:100]))
            continue
        good += 1
        f = p.value
        try:
            hdr, hdr_len, bat_size, bat_begin, bat_end, blocks, idx = decode_top(f.records)
            # locate each block's first record by walking declared sizes (C12 proves this layout)
            starts = {}
            off = bat_end
            ri = idx
            for b_ in blocks:
                starts[b_['name']] = ri
                end = off + R.lift(b_['size'])
                while ri < len(f.records) and not (f.offset_of(ri) - end).t.is_zero():
                    ri += 1
                off = end
            dec = {}
            for b_ in blocks:
                if b_['type'] == 'data_block':
                    dec[b_['name']] = dec_obj(Cur(f.records, starts[b_['name']]))
        except Exception as e:  # noqa: BLE001
            obs.append({'name': f'{tag}:{P}:file decodes with the independent decoder', 'status': 'violated', 'detail': repr(e)[:200], 't': 0})
            cands.append(('C13:decode', case, repr(e)[:100]))
            continue
        # ---------------- pixels
        c = Cur(f.records, starts[("pix", "data_wrap")])
        nrows = c.take('u32').value
        npix = c.take('u64').value
        chk(f'{P}:pix header (9 rows, N pixels)', C.B.const(nrows == 9) & (R.lift(npix) == N), p.pc, 'C13:pix-header')
        names = list(PIX_UNITS)
        done = 0
        okp = C.TRUE
        once = True
        double_rounded, rounding_known = [], True
        while done < N:
            try:
                rec = c.take('array')
            except (IndexError, ValueError):
                break  # the pixel block ends before N pixels were found: reported by the 'all N pixels' obligation below
            sa = rec.value
            once = once and rec.meta == 'float32' and sa.dtype == 'float32'
            # exactly one float32 rounding per value: the conversion to the declared unit happens in the (float64) dtype of the
            # input, the store into the float32 buffer is the only narrowing; a float32 operation before the store rounds twice
            for i_row, nm in enumerate(names):
                sdt, srnd = getattr(sa, 'src', {}).get(i_row, (None, None))
                if sdt is None or srnd is None:
                    rounding_known = False
                elif sdt != 'float64' or srnd[1] != 0:
                    double_rounded.append(f'{nm}: dtype {sdt} with {srnd[1]} float32 operation(s) before the float32 store')
            n = sa.nrows
            if not n.is_const():
                raise C.Unsupported('symbolic chunk rows in C13')
            n = int(n.const_value())
            for i_row, nm in enumerate(names):
                nn, col = sa.cols[i_row]
                col = np.asarray(col, dtype=object).reshape(-1)
                tgt = parse_unit(PIX_UNITS[nm]) if PIX_UNITS[nm] is not None else None
                for jj in range(n):
                    src = var_vals[done + jj] if nm == 'error' else rows[nm][done + jj]
                    su = in_units['signal'] ** 2 if nm == 'error' else in_units[nm]
                    okp = okp & (phys(col[jj], tgt) == phys(src, su))
            done += n
            if n == 0:
                break
        chk(f'{P}:all {N} pixels, in order, each row converted to its declared unit', okp & C.B.const(done == N), p.pc, 'C13:pixels')
        chk(f'{P}:pixels rounded once to float32', C.B.const(bool(once) or N == 0), p.pc, 'C13:pix-dtype')
        if N > 0:
            if not rounding_known:
                obs.append({'name': f'{tag}:{P}:rounding history of the pixel columns', 'status': 'inconclusive', 'detail': 'values assigned to the buffer carry no rounding record', 't': 0})
            else:
                chk(f'{P}:float64 inputs are converted in float64 and narrowed exactly once (no float32 operation before the store)' + (': ' + '; '.join(double_rounded[:2]) if double_rounded else ''),
                    C.B.const(not double_rounded), p.pc, 'C13:pix-rounding')
        # ---------------- pixel metadata
        pm = dec[("pix", "metadata")][0]
        chk(f'{P}:pix metadata npix = N', R.lift(pm['npix']['f64'][0]) == N, p.pc, 'C13:pix-meta')
        if N > 0:
            dr = f64s(pm['data_range'])
            shape_ok = pm['data_range']['shape'] == [2, 9]
            okr = C.B.const(shape_ok)
            if shape_ok:
                for i_row, nm in enumerate(names):
                    tgt = parse_unit(PIX_UNITS[nm]) if PIX_UNITS[nm] is not None else None
                    src = var_vals if nm == 'error' else rows[nm]
                    su = in_units['signal'] ** 2 if nm == 'error' else in_units[nm]
                    # written as a (9,2) C-ordered array: row-major -> index 2*i, 2*i+1
                    okr = okr & (phys(dr[2 * i_row], tgt) == phys(src[0], su)) & (phys(dr[2 * i_row + 1], tgt) == phys(src[-1], su))
            chk(f'{P}:pix metadata per-row (min, max) in the declared units', okr, p.pc, 'C13:pix-range')
        # ---------------- experiments
        ex = dec[("experiment_info", "expdata")][0]
        runs = ex['array_dat']
        oke = C.B.const(len(runs) == n_runs)
        meV = parse_unit('meV')
        rad = parse_unit('rad')
        for i, rr in enumerate(runs[:n_runs]):
            oke = oke & (R.lift(rr['run_id']['f64'][0]) == i + 1)
            oke = oke & C.B.const(rr['angular_is_degree'] == [False])
            oke = oke & (R.lift(rr['emode']['f64'][0]) == (1 if mode == 'direct' else 2))
            ef = f64s(rr['efix'])
            exp_ef = [sym[i]['efix']] if mode == 'direct' else [sym[i]['efix'], sym[i]['efix'] + 1]
            oke = oke & C.B.const(len(ef) == len(exp_ef))
            for a, b in zip(ef, exp_ef):
                oke = oke & (phys(a, meV) == phys(b, uE))
            en_ = f64s(rr['en'])
            exp_en = sym[i]['en'] if mode == 'direct' else [sym[i]['en'][kk] + d for d in range(2) for kk in range(2)]
            oke = oke & C.B.const(len(en_) == len(exp_en))
            for a, b in zip(en_, exp_en):
                oke = oke & (phys(a, meV) == phys(b, uE))
            for an in ('psi', 'omega', 'dpsi', 'gl', 'gs'):
                oke = oke & (phys(R.lift(rr[an]['f64'][0]), rad) == phys(sym[i]['ang'][an], au))
            oke = oke & C.B.const(rr['filename'] == f'run{i}' and rr['filepath'] == '/p')
        chk(f'{P}:one record per run: 1-based ids, energies in meV, angles in rad, angular_is_degree=False', oke, p.pc, 'C13:experiments')
        # ---------------- containers
        for bn, base in ((("experiment_info", "instruments"), 'IX_inst'), (("experiment_info", "samples"), 'IX_samp')):
            cont = dec[bn][0]
            uo = cont['unique_objects'][0]
            idxs = f64s(uo['idx'])
            okc = C.B.const(len(uo['unique_objects']) == 1 and len(idxs) == n_runs and cont['stored_baseclass'] == base)
            for a in idxs:
                okc = okc & (R.lift(a) == 1)
            chk(f'{P}:{bn[1]}: one shared object referenced by every run', okc, p.pc, 'C13:containers')
        smp = dec[("experiment_info", "samples")][0]['unique_objects'][0]['unique_objects'][0][0]
        ang_ = parse_unit('angstrom')
        chk(f'{P}:sample lattice spacing in angstrom', C.all_of([phys(a, ang_) == phys(b, uA) for a, b in zip(f64s(smp['alatt']), alatt, strict=True)]), p.pc, 'C13:sample')
        # ---------------- histogram
        c = Cur(f.records, starts[("data", "nd_data")])
        nd = c.take('u32').value
        shp = [c.take('u32').value for _ in range(int(nd))]
        zs = [c.take('array') for _ in range(3)]
        okh = C.B.const([float(x) for x in shp] == hshape and [z.meta if z.meta else z.value.dtype for z in zs] == ['float64', 'float64', 'uint64']
                        and all(z.value.origin == ('zeros', tuple(shp)) for z in zs))
        chk(f'{P}:zero histogram of the declared shape {[int(x) for x in hshape]} (values, errors f64; counts u64); written {[int(float(x)) for x in shp]}', okh, p.pc, 'C13:histogram')
        dm = dec[("data", "metadata")][0]
        chk(f'{P}:histogram metadata nbins', C.B.const([float(x) for x in f64s(dm['axes'][0]['nbins_all_dims'])] == hshape), p.pc, 'C13:histogram')
        qcan, ecan = parse_unit('1/angstrom'), parse_unit('meV')
        for what, rec_, name in (('axes.img_scales', dm['axes'][0]['img_scales'], 'scale'), ('axes.img_range', dm['axes'][0]['img_range'], 'range'),
                                 ('axes.offset', dm['axes'][0]['offset'], 'aoff'), ('proj.offset', dm['proj'][0]['offset'], 'poff')):
            got = list(f64s(rec_))
            want = [(v, k) for k in range(4) for v in msym[name, k]]
            okm = C.B.const(len(got) == len(want))
            if len(got) == len(want):
                okm = C.all_of([phys(R.lift(g), qcan if k < 3 else ecan) == phys(v, uQ if k < 3 else uE) for g, (v, k) in zip(got, want, strict=True)])
            chk(f'{P}:histogram metadata {what} stored in 1/angstrom (x3), meV with the supplied physical values', okm, p.pc, 'C13:histogram-metadata')
        # ---------------- the package's own reader: same numbers, and units of the same dimension
        C.CTX.exploring = True
        C.CTX.reset_path(p.decisions)
        C.CTX.pc = list(p.pc)
        C.CTX.pos = len(p.decisions)
        try:
            import warnings

            f.cursor = 0
            with warnings.catch_warnings(record=True) as wlist:
                warnings.simplefilter('always')
                with sqw.Sqw.open(f) as s:
                    rs = s.read_data_block(("experiment_info", "samples"))
                    re_ = s.read_data_block(("experiment_info", "expdata"))
                    rd = s.read_data_block(("data", "metadata"))
                    rp = s.read_data_block(("pix", "metadata"))
            if wlist:
                obs.append({'name': f'{tag}:{P}:reader parses every block', 'status': 'violated', 'detail': str(wlist[0].message)[:200], 't': 0})
                cands.append(('C13:reader', case, str(wlist[0].message)[:100]))
            else:
                def same_phys(var, exp_vals, exp_unit, what, sig):
                    if var.unit is None or var.unit.dim != exp_unit.dim:
                        obs.append({'name': f'{tag}:{P}:reader:{what}: unit {var.unit} has the dimension it was written in ({exp_unit})', 'status': 'violated', 't': 0})
                        cands.append((sig, case, f'{what}: reader unit {var.unit}'))
                        return
                    got = list(np.asarray(var.values, dtype=object).reshape(-1))
                    chk(f'{P}:reader:{what} = supplied (physical value, unit of the same dimension)',
                        C.all_of([phys(R.lift(a), var.unit) == phys(b, exp_unit) for a, b in zip(got, exp_vals, strict=True)]), C.CTX.pc, sig)

                same_phys(rs[0].lattice_spacing, alatt, uA, 'sample.alatt', 'C13:reader-unit:sample.alatt')
                same_phys(rd.proj.lattice_spacing, alatt, uA, 'proj.alatt', 'C13:reader-unit:proj.alatt')
                for i in range(n_runs):
                    e = re_[i]
                    chk(f'{P}:reader:run{i}.run_id', C.B.const(e.run_id == i), C.CTX.pc, 'C13:reader')
                    same_phys(e.efix, [sym[i]['efix']] if mode == 'direct' else [sym[i]['efix'], sym[i]['efix'] + 1], uE, f'run{i}.efix', 'C13:reader-unit:efix')
                    exp_en = sym[i]['en'] if mode == 'direct' else [sym[i]['en'][kk] + d for d in range(2) for kk in range(2)]
                    chk(f'{P}:reader:run{i}.en dims', C.B.const(e.en.dims == (('energy_transfer',) if mode == 'direct' else ('detector', 'energy_transfer'))), C.CTX.pc, 'C13:reader')
                    if e.en.size == len(exp_en):
                        same_phys(e.en, exp_en, uE, f'run{i}.en', 'C13:reader-unit:en')
                    for an in ('psi', 'omega', 'dpsi', 'gl', 'gs'):
                        same_phys(getattr(e, an), [sym[i]['ang'][an]], au, f'run{i}.{an}', 'C13:reader-unit:angle')
                chk(f'{P}:reader:npix', R.lift(rp.npix) == N, C.CTX.pc, 'C13:reader')
        except (C.HarnessError, C._Abort) as e:
            obs.append({'name': f'{tag}:{P}:reader', 'status': 'inconclusive', 'detail': repr(e)[:200], 't': 0})
        except Exception as e:  # noqa: BLE001
            obs.append({'name': f'{tag}:{P}:reader raises', 'status': 'violated', 'detail': repr(e)[:200], 't': 0})
            cands.append(('C13:reader', case, repr(e)[:100]))
        finally:
            C.CTX.exploring = False
    ob = C.prove(f'{tag}:some path returns a file', C.B.const(good >= 1))
    obs.append(ob_dict(ob))
    return {'obligations': obs, 'candidates': cands, 'paths': len(paths)}


def run(chk):
    sc, build, models, sqw, rw = _load()
    from symex import loader

    ir = loader.load('io.sqw._ir')
    chk.functions = loader.describe_exprs(['build._split_pix_rows', 'build._PixWrap.write', 'build.SqwBuilder._make_pix_metadata', 'build._broadcast_unique_ref', 'models.SqwIXExperiment._serialize_to_dict', 'models.SqwMultiIXExperiment._serialize_to_dict', 'models.SqwIXSample._serialize_to_dict', 'models.SqwPixelMetadata._serialize_to_dict', 'models.SqwLineProj._serialize_to_dict', 'models.SqwLineAxes._serialize_to_dict', 'models.UniqueObjContainer._serialize_to_dict', 'models._variable_to_float_array', 'models._angle_value', 'models._serialize_multi_unit_array', 'ir._serialize_field', 'rw.write_object_array', 'rw.read_object_array', 'sqw._parse_ix_sample_0_0', 'sqw._parse_line_proj_7_0', 'sqw._parse_single_ix_experiment_3_0', 'sqw._parse_pix_metadata_1_0', 'sqw._read_pix_block', 'sqw._read_dnd_block'], {**globals(), **locals()})
    jobs = [(3, 2, 'deg', 'direct'), (2, 5, 'rad', 'indirect'), (0, 1, 'rad', 'direct'), (1, 1, 'deg', 'indirect'), (1, 1, 'rad', 'direct', (3, 1, 2, 4)), (0, 1, 'rad', 'direct', (1, 1)),
            (1, 1, 'rad', 'direct', None, 'int64'), (1, 1, 'deg', 'indirect-T'), (0, 1, 'rad', 'direct', None, 'float64', ('tïtle-µ', 'ΔE ζ'))]
    if chk.tier == 'thorough':
        jobs += [(3, 1, 'rad', 'direct'), (3, 3, 'deg', 'indirect'), (2, 1, 'deg', 'direct'), (3, 4, 'rad', 'indirect')]
    run_jobs(chk, job, jobs)
    chk.bounds = {'pixels': 'N in 0..3 with symbolic values (strictly ascending per row) and a symbolic unit scale per row', 'chunk': 'concrete 1..5 (smaller, equal, larger than N)',
                  'runs': 2, 'angles': 'deg or rad, symbolic values', 'energies': 'symbolic unit scale; direct (scalar efix) and indirect (per-detector efix, 2-d en)'}
    chk.stubs = ['as C12', 'float32 rounding: recorded as the buffer/record dtype (applied exactly once), not evaluated']
    chk.axioms = []
    chk.assumptions = ['byte layout/extents are C12', 'pixel values strictly ascending within a row (bounds the min/max forks; min/max are scipp reductions)',
                       'strings concrete']


def replay_real(case):
    import io
    import warnings

    import numpy as np
    import scipp as sc
    from scippneutron.io import sqw as S
    from scippneutron.io.sqw import _models as models

    from . import c12_sqw_structure as c12

    N, chunk = max(1, case['N']), case['chunk']
    if case.get('signature', '').startswith('C13:pix-rounding'):
        N = max(N, 257)  # an off-by-one-ulp double rounding hits about a quarter of the values: use enough pixels
    rng = np.random.default_rng(0)
    n_runs = 2
    au = case['angle_unit']
    direct = case.get('mode', 'direct') == 'direct'
    exps = [S.SqwIXExperiment(run_id=i, efix=sc.scalar(1.2e-3 + i, unit='eV') if direct else sc.array(dims=['detector'], values=[1.2e-3 + i, 2e-3], unit='eV'),
                              emode=S.EnergyMode.direct if direct else S.EnergyMode.indirect,
                              en=sc.array(dims=['energy_transfer'], values=[3.0, 4.0], unit='ueV') if direct else
                              (sc.array(dims=['detector', 'energy_transfer'], values=[[3.0, 4.0, 4.5], [5.0, 6.0, 7.5]], unit='ueV') if case.get('mode') != 'indirect-T' else
                               sc.array(dims=['energy_transfer', 'detector'], values=[[3.0, 5.0], [4.0, 6.0], [4.5, 7.5]], unit='ueV')), psi=sc.scalar(12.0 + i, unit=au),
                              u=sc.vector([0.0, 1.0, 0.0]), v=sc.vector([1.0, 1.0, 0.0]), omega=sc.scalar(1.4, unit=au), dpsi=sc.scalar(46.0, unit=au),
                              gl=sc.scalar(3.0, unit=au), gs=sc.scalar(-0.5, unit=au), filename=f'run{i}', filepath='/p') for i in range(n_runs)]
    hshape = case.get('hist_shape', [2.0, 3.0])
    title_, name_ = case.get('strings') or ('title', 'nm')
    _e, inst, sample, dnd = c12.make_inputs(sc, models, n_runs, title_, name_, hshape)
    sample = S.SqwIXSample(name='smp', lattice_spacing=sc.vector([0.286, 0.3, 0.4], unit='nm'), lattice_angle=sc.vector([90.0, 90.0, 90.0], unit='deg'))
    meta_expect = None
    if case.get('signature', '').startswith('C13:histogram-metadata'):
        # image-axis metadata in non-canonical units; integer-valued where the case says so (sc.scalar(2, unit='1/nm') is int64)
        mdt = case.get('meta_dtype', 'float64')
        qn, en_ = ([2, 7, -3], 1500) if mdt != 'float64' else ([2.5, 7.25, -3.0], 1500.5)
        mk = lambda v, u: sc.scalar(v, unit=u, dtype=mdt)  # noqa: E731
        mka = lambda v, u: sc.array(dims=['range'], values=v, unit=u, dtype=mdt)  # noqa: E731
        dnd.axes.img_scales = [mk(q, '1/nm') for q in qn] + [mk(en_, 'ueV')]
        dnd.axes.img_range = [mka([-q - 1, q + 4], '1/nm') for q in qn] + [mka([-en_, en_ + 7], 'ueV')]
        dnd.axes.offset = [mk(q + 1, '1/nm') for q in qn] + [mk(en_ + 1, 'ueV')]
        dnd.proj.offset = [mk(q + 2, '1/nm') for q in qn] + [mk(en_ + 2, 'ueV')]
        f_ = lambda lst: [np.atleast_1d(np.asarray(v.values, dtype=float)) * (0.1 if i < 3 else 1e-3) for i, v in enumerate(lst)]  # noqa: E731
        meta_expect = {'axes.img_scales': f_(dnd.axes.img_scales), 'axes.img_range': f_(dnd.axes.img_range), 'axes.offset': f_(dnd.axes.offset), 'proj.offset': f_(dnd.proj.offset)}
    units_in = {'u1': '1/nm', 'u2': '1/angstrom', 'u3': '1/m', 'u4': 'ueV', 'irun': None, 'idet': None, 'ien': None}
    pix = sc.DataArray(sc.array(dims=['pixel'], values=rng.random(N), variances=rng.random(N), unit='count'),
                       coords={k: sc.array(dims=['pixel'], values=rng.random(N) * 10, unit=u) for k, u in units_in.items()})
    f = io.BytesIO()
    b = S.Sqw.build(f, title=title_, byteorder='little').add_pixel_data(pix, experiments=exps).add_default_instrument(inst).add_default_sample(sample).add_empty_dnd_data(dnd)
    bad = []
    try:
        b.create(chunk_size=chunk)
        f.seek(0)
        with warnings.catch_warnings(record=True) as wl:
            warnings.simplefilter('always')
            with S.Sqw.open(f) as s:
                px = s.read_data_block(('pix', 'data_wrap'))
                pm = s.read_data_block(('pix', 'metadata'))
                ex = s.read_data_block(('experiment_info', 'expdata'))
                sm = s.read_data_block(('experiment_info', 'samples'))
                dm = s.read_data_block(('data', 'metadata'))
                nd = s.read_data_block(('data', 'nd_data'))
        if wl:
            bad.append(f'reader warning: {wl[0].message}')
        want_shape = tuple(int(x) for x in reversed(hshape))
        if [tuple(a.shape) for a in nd] != [want_shape] * 3 or any(np.any(a != 0) for a in nd):
            bad.append(f'histogram arrays read back with shapes {[tuple(a.shape) for a in nd]}, declared bins {[int(x) for x in hshape]} (arrays are stored in reverse axis order: {want_shape})')
        if [float(x) for x in dm.axes.n_bins_all_dims.values] != [float(x) for x in hshape]:
            bad.append(f'histogram metadata nbins {dm.axes.n_bins_all_dims.values}')
        names = list(c12.PIX_UNITS)
        if px.shape != (N, 9):
            bad.append(f'pixel block shape {px.shape} != {(N, 9)}')
        else:
            for i, nm in enumerate(names):
                if nm == 'signal':
                    exp = pix.values
                elif nm == 'error':
                    exp = pix.variances
                else:
                    cvar = pix.coords[nm]
                    exp = cvar.to(unit=c12.PIX_UNITS[nm]).values if c12.PIX_UNITS[nm] else cvar.values
                if not np.array_equal(px[:, i], exp.astype(np.float32)):
                    bad.append(f'pixel row {nm} differs')
                lo, hi = pm.data_range[i]
                if not (np.isclose(lo, exp.min(), rtol=1e-12) and np.isclose(hi, exp.max(), rtol=1e-12)):
                    bad.append(f'data_range of {nm}: {(lo, hi)} vs {(exp.min(), exp.max())}')
        if pm.npix != N:
            bad.append(f'npix {pm.npix}')
        for i, e in enumerate(ex):
            if e.run_id != i:
                bad.append(f'run id {e.run_id}')
            if not sc.allclose(e.efix, exps[i].efix.to(unit='meV')):
                bad.append('efix')
            want_en = exps[i].en.to(unit='meV') if exps[i].en.ndim == 1 else exps[i].en.to(unit='meV').transpose(['detector', 'energy_transfer']).copy()
            if e.en.dims != want_en.dims or e.en.shape != want_en.shape or not sc.allclose(e.en, want_en):
                bad.append(f'en: {e.en.sizes} vs {exps[i].en.sizes}')
            for an in ('psi', 'omega', 'dpsi', 'gl', 'gs'):
                if not sc.allclose(getattr(e, an).to(unit='rad'), getattr(exps[i], an).to(unit='rad')):
                    bad.append(f'{an}: {getattr(e, an)} vs {getattr(exps[i], an)}')
        if meta_expect is not None:
            for what, exp_l in meta_expect.items():
                obj, attr = what.split('.')
                got_l = getattr(getattr(dm, obj), attr)
                for i, (g, e_) in enumerate(zip(got_l, exp_l, strict=True)):
                    gv = np.atleast_1d(np.asarray(g.to(unit='1/angstrom' if i < 3 else 'meV').values, dtype=float))
                    if gv.shape != e_.shape or not np.allclose(gv, e_, rtol=1e-12, atol=0):
                        bad.append(f'histogram metadata {what}[{i}] read back as {gv.tolist()} {"1/angstrom" if i < 3 else "meV"}, supplied {e_.tolist()}')
        for what, got in (('sample.alatt', sm[0].lattice_spacing), ('proj.alatt', dm.proj.lattice_spacing)):
            want = sample.lattice_spacing if what.startswith('sample') else dnd.proj.lattice_spacing
            try:
                if not sc.allclose(got.to(unit='angstrom'), want.to(unit='angstrom')):
                    bad.append(f'{what} value')
            except sc.UnitError:
                bad.append(f'{what}: read back with unit {got.unit}, written in angstrom')
    except Exception as e:  # noqa: BLE001
        bad.append(f'{type(e).__name__}: {e}')
    sig = case.get('signature', '')
    if sig.startswith('C13:reader-unit:'):
        what = sig.split(':')[2]
        bad = [b_ for b_ in bad if b_.startswith(what)]
    else:
        # the lattice-spacing unit labels have their own signatures
        bad = [b_ for b_ in bad if 'alatt' not in b_]
    return {'reproduced': bool(bad), 'detail': '; '.join(bad[:3])}
