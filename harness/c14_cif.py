"""C14 - CIF output is valid CIF 1.1 and parses back to exactly what was supplied."""
from __future__ import annotations

import io
import itertools

from .common import ob_dict, run_jobs


def _load():
    import sys
    import types

    from symex import loader

    sc = loader.install_shim()
    if 'scippnexus' not in sys.modules:
        class _Any(types.ModuleType):
            def __getattr__(self, n):
                if n.startswith('__'):
                    raise AttributeError(n)
                return type(n, (), {})

        sys.modules['scippnexus'] = _Any('scippnexus')
    cif = loader.load('io.cif')
    from symex.symstr import symstr_type

    cif.str = symstr_type
    return sc, cif


# ---------------------------------------------------------------------------------------------
# Oracle: CIF 1.1 lexical grammar (IUCr "CIF version 1.1 working specification", syntax section).
def _lang():
    import z3

    def chars(s):
        r = None
        for ch in s:
            x = z3.Re(z3.StringVal(ch))
            r = x if r is None else z3.Union(r, x)
        return r

    printable = z3.Range('!', '~')  # non-blank printable
    special = '"#$\'_;[]'
    ordinary = z3.Intersect(printable, z3.Complement(chars(special)))
    nonblank = printable
    ci = lambda w: z3.Concat(*[z3.Union(z3.Re(z3.StringVal(c.lower())), z3.Re(z3.StringVal(c.upper()))) if c.isalpha() else z3.Re(z3.StringVal(c)) for c in w])  # noqa: E731
    reserved = z3.Union(z3.Concat(ci('data_'), z3.Star(nonblank)), z3.Concat(ci('save_'), z3.Star(nonblank)), ci('loop_'), ci('stop_'), ci('global_'))
    unq_eol = z3.Intersect(z3.Concat(ordinary, z3.Star(nonblank)), z3.Complement(reserved))
    unq_noteol = z3.Intersect(z3.Concat(z3.Union(ordinary, z3.Re(z3.StringVal(';'))), z3.Star(nonblank)), z3.Complement(reserved))
    return {'unq_eol': unq_eol, 'unq_noteol': unq_noteol}


def classify(prev: str, nxt: str):
    """Lexical context of a symbolic string inside the writer's output (from its literal neighbours)."""
    if prev.endswith('\n; ') and nxt.startswith('\n;') and (len(nxt) == 2 or nxt[2] in ' \t\n'):
        return 'text'
    for q in ("'", '"'):
        if prev.endswith(q) and nxt.startswith(q) and (len(nxt) == 1 or nxt[1] in ' \t\n'):
            return 'sq' if q == "'" else 'dq'
    if (prev == '' or prev.endswith('\n')):
        return 'unq_eol'
    if prev[-1] in ' \t':
        return 'unq_noteol'
    return 'glued'


def safe_condition(kind, S, nxt):
    """z3 formula: the token re-lexes to exactly one value whose content is S (up to blanks)."""
    import z3

    L = _lang()
    ws_after = nxt == '' or nxt[0] in ' \t\n'
    Full = z3.Full(z3.ReSort(z3.StringSort()))

    def cont(w):
        return z3.InRe(S, z3.Concat(Full, z3.Re(z3.StringVal(w)), Full))

    if kind == 'text':
        # "; S\n;" : terminates at the first "\n;" ; the content (" " + S) may not contain it
        return z3.Not(cont('\n;'))
    if kind in ('sq', 'dq'):
        q = "'" if kind == 'sq' else '"'
        bad = z3.Or(cont('\n'), cont(q + ' '), cont(q + '\t'))
        return z3.Not(bad)
    if kind in ('unq_eol', 'unq_noteol'):
        return z3.And(z3.InRe(S, L[kind]), z3.BoolVal(ws_after))
    return z3.BoolVal(False)


def analyse(output):
    """-> list of (SymStr, kind, next literal) for every symbolic string in the output."""
    from symex.symstr import SymStr, parts_of

    parts = parts_of(output)
    res = []
    for i, p in enumerate(parts):
        if isinstance(p, SymStr):
            prev = ''.join(x for x in parts[:i] if not isinstance(x, SymStr))[-4:] if (i == 0 or not isinstance(parts[i - 1], SymStr)) else '\x01'
            if i > 0 and not isinstance(parts[i - 1], SymStr):
                prev = parts[i - 1]
            elif i == 0:
                prev = ''
            nxt = parts[i + 1] if i + 1 < len(parts) and not isinstance(parts[i + 1], SymStr) else ('' if i + 1 >= len(parts) else '\x01')
            res.append((p, classify(prev, nxt), nxt))
    return res


CONTEXTS = ['chunk', 'chunk-after-text', 'loop-row-first', 'loop-row-second', 'loop-row-with-text', 'loop-col', 'loop-mixed', 'two-symbolic']

REGIONS = {
    # signature -> region predicate over the symbolic string (z3), used for known findings
}


def job_value(j, seed):
    """One symbolic string value through Chunk.write / Loop.write in every position."""
    ctx = j
    import z3
    from symex import core as C
    from symex import symstr
    from symex.symstr import SymStr
    from .symutil import fresh_run

    sc, cif = _load()
    fresh_run()
    symstr.reset()
    obs, cands = [], []
    C.CTX.fork_timeout_ms = 4000

    def build():
        f = io.StringIO()
        s = SymStr('S')
        t = SymStr('T')
        SymStr._last_pair = (s, t)
        arr = lambda *v: sc.array(dims=['r'], values=list(v))  # noqa: E731
        if ctx == 'chunk':
            cif.Chunk({'audit.x': s}).write(f)
        elif ctx == 'chunk-after-text':
            cif.Chunk({'a.w': 'two\nlines', 'a.x': s, 'a.y': 'plain'}).write(f)
        elif ctx == 'loop-row-first':
            cif.Loop({'a.x': arr(s), 'a.y': arr('plain')}).write(f)
        elif ctx == 'loop-row-second':
            cif.Loop({'a.x': arr('plain'), 'a.y': arr(s)}).write(f)
        elif ctx == 'loop-row-with-text':
            cif.Loop({'a.x': arr('two\nlines'), 'a.y': arr(s), 'a.z': arr('plain')}).write(f)
        elif ctx == 'loop-col':
            cif.Loop({'a.x': arr('plain', s, 'has space')}).write(f)
        elif ctx == 'loop-mixed':
            cif.Loop({'a.x': arr(s, 'plain'), 'a.n': sc.array(dims=['r'], values=[1.5, 2.5])}).write(f)
        elif ctx == 'two-symbolic':
            C.CTX.assume(C.B('z3', z3.InRe(t.z, z3.Plus(z3.Range('a', 'z')))))
            cif.Loop({'a.x': arr(s), 'a.y': arr(t)}).write(f)
        return f.getvalue(), (s, t)

    paths = C.explore(build, max_paths=400)
    n_ok = 0
    for k, p in enumerate(paths):
        if p.inconclusive:
            obs.append({'name': f'{ctx}:path{k}', 'status': 'inconclusive', 'detail': p.inconclusive[:150], 't': 0})
            continue
        if p.exc is not None and isinstance(p.exc, ValueError) and 'text field' in str(p.exc):
            # refusal of a value CIF 1.1 cannot represent (a line starting with ';' inside a text field)
            ob = C.prove(f'{ctx}:path{k}:refusal only for values containing newline+semicolon',
                         C.any_of([C.B('z3', z3.InRe(v_.z, z3.Concat(z3.Full(z3.ReSort(z3.StringSort())), z3.Re(z3.StringVal('\n;')), z3.Full(z3.ReSort(z3.StringSort()))))) for v_ in (SymStr._last_pair if hasattr(SymStr, '_last_pair') else [])]) if hasattr(SymStr, '_last_pair') else C.TRUE, pc=p.pc)
            obs.append(ob_dict(ob))
            continue
        if p.exc is not None:
            obs.append({'name': f'{ctx}:path{k}:raises', 'status': 'violated', 'detail': repr(p.exc)[:150], 't': 0})
            cands.append((f'C14:{ctx}:raises', {'ctx': ctx, 'value': 'x'}, repr(p.exc)[:100]))
            continue
        n_ok += 1
        out, (s, t) = p.value
        for sym, kind, nxt in analyse(out):
            cond = safe_condition(kind, sym.z, nxt)
            # the alphabet (printable ASCII + tab + newline) matters only for unquoted tokens
            extra = [C.B('z3', sym.alphabet)] if kind.startswith('unq') else []
            name_ = f'{ctx}:path{k}:{sym.sname} as {kind}: re-lexes to exactly one value equal to the input'
            L = C.Lowerer()
            zs = [L.b(b_) for b_ in [*C.CTX.assumptions, *extra, *p.pc]]
            # constraints on the other symbolic string are independent of this one: drop them for the one-variable query
            mine = [z for z in zs if symstr.to_regex(z, sym.z) is not None]
            ob = symstr.prove_regular(name_, sym.z, mine, cond)
            if ob is None:
                ob = C.prove(name_, C.B('z3', cond), assumptions=extra, pc=p.pc, timeout_ms=20000)
            obs.append(ob_dict(ob))
            if ob.status == 'violated':
                cex = (ob.model or {}).get('witness')
                val = {'S': 'x', 'T': 'y'}
                if cex is None:
                    r = C.solve([*C.CTX.assumptions, *extra, *p.pc, C.B('z3', z3.Not(cond))])
                    if r.status == 'sat':
                        cex = r.solver.model().eval(sym.z, model_completion=True).as_string()
                cex = _unescape(cex or '')
                val[sym.sname] = cex
                # the other value: any value satisfying its own path constraints
                for other in (s, t):
                    if other is not sym:
                        oz = [z for z in zs if symstr.to_regex(z, other.z) is not None]
                        so = z3.Solver()
                        so.add(*oz)
                        if str(so.check()) == 'sat':
                            val[other.sname] = _unescape(so.model().eval(other.z, model_completion=True).as_string())
                cands.append((f'C14:value:{_region(cex, kind)}', {'ctx': ctx, 'values': val, 'which': sym.sname}, f'{kind}: {cex!r}'))
        # layout: a row of c tokens stays on one line unless some item is a text field, then one item per line
    ob = C.prove(f'{ctx}:some path writes', C.B.const(n_ok >= 1))
    obs.append(ob_dict(ob))
    return {'obligations': obs, 'candidates': cands, 'paths': len(paths)}


def _unescape(w: str) -> str:
    import re
    return re.sub(r'\\u\{([0-9a-fA-F]+)\}', lambda m: chr(int(m.group(1), 16)), w)


def _region(value: str, kind: str) -> str:
    """Name of the failing input class (used as known-finding signature)."""
    v = value
    if kind == 'text':
        return 'text-field-contains-newline-semicolon'
    if kind in ('sq', 'dq'):
        return 'quoted-' + ('tab' if '\t' in v else 'other')
    if v[:1] in '_#$[]' and v[:1]:
        return 'unquoted-leading-special'
    if v[:1] == ';':
        return 'unquoted-leading-semicolon-at-line-start'
    if '\t' in v:
        return 'unquoted-tab'
    low = v.lower()
    if low.startswith(('data_', 'save_')) or low in ('loop_', 'stop_', 'global_'):
        return 'unquoted-reserved-word'
    return 'unquoted-other'


def job_misc(j, seed):
    """Comments, block names, non-ASCII escaping, su columns, author/role ids (concrete enumeration + symbolic values)."""
    what = j
    import numpy as np
    from symex import core as C
    from symex import symstr
    from symex.symstr import SymStr, parts_of
    from .symutil import fresh_run

    sc, cif = _load()
    fresh_run()
    symstr.reset()
    obs, cands = [], []

    def chk(name, goal, sig, case=None):
        ob = C.prove(f'{what}:{name}', goal)
        obs.append(ob_dict(ob))
        if ob.status != 'discharged':
            cands.append((sig, case or {'ctx': what}, name))

    if what == 'comments':
        # CIF 1.1 ends a line at \n, \r\n and at a lone \r; the other separators Python's splitlines knows are covered as well
        for comment in ['one line', 'two\nlines', 'trailing newline\n', 'with # hash\n_tag looking\nloop_', 'crlf\r\nline', '', 'lone\rcarriage return _tag.x 1', 'a\r\rb', 'form\x0cfeed', 'vertical\x0btab', 'sep\x1c\x1d\x1e.', 'next\x85line \u2028 \u2029 end']:
            f = io.StringIO()
            cif.Chunk({'a.x': 1}, comment=comment).write(f)
            lines = f.getvalue().splitlines()
            body = [ln for ln in lines if not ln.startswith('_a.x')]
            chk(f'comment {comment!r}: every emitted comment line starts with #', C.B.const(all(ln.startswith('#') for ln in body) and lines[-1] == '_a.x 1'),
                'C14:comment', {'ctx': 'comment', 'comment': comment})
    elif what == 'nonascii':
        # every route a string can take into the file: plain str and scipp string scalar in a chunk, string column of a loop
        # (first / later column), comment, the builder's author / reducer lists (one entry -> chunk, several -> loop)
        for s in ['µm', 'Å', 'naïve ✓', 'abc']:
            routes = {
                'chunk value (str)': lambda: cif.Chunk({'a.x': s}, comment=s),
                'chunk value (scipp string scalar)': lambda: cif.Chunk({'a.x': sc.scalar(s)}),
                'loop column 1': lambda: cif.Loop({'a.x': sc.array(dims=['r'], values=[s, 'plain']), 'a.n': sc.array(dims=['r'], values=[1.5, 2.5])}),
                'loop column 2': lambda: cif.Loop({'a.n': sc.array(dims=['r'], values=[1.5, 2.5]), 'a.x': sc.array(dims=['r'], values=['plain', s])}),
                'loop comment': lambda: cif.Loop({'a.n': sc.array(dims=['r'], values=[1.5, 2.5])}, comment=s),
            }
            for rname, mk in routes.items():
                f = io.StringIO()
                mk().write(f)
                out = f.getvalue()
                chk(f'{s!r} via {rname}: output is ASCII', C.B.const(out.isascii()), 'C14:nonascii', {'ctx': 'nonascii', 'value': s, 'route': rname})
            for n_auth in (1, 2):
                people = [cif.Person(name=f'{s} {i}', address=s) for i in range(n_auth)]
                c_ = cif.CIF('blk').with_authors(*people).with_reducers(*[f'{s} {i}' for i in range(n_auth)])
                f = io.StringIO()
                for it in [*c_._assemble_authors()]:
                    it.write(f)
                out = f.getvalue()
                chk(f'{s!r} via {n_auth} author(s): output is ASCII', C.B.const(out.isascii()), 'C14:nonascii', {'ctx': 'nonascii', 'value': s, 'route': f'authors{n_auth}'})
    elif what == 'blockname':
        s = SymStr('N', alphabet_extra='\t\n')
        C.CTX.assume(C.B('z3', s.alphabet))
        C.CTX.fork_timeout_ms = 4000

        def build():
            f = io.StringIO()
            cif.Block(s, [{'a.x': 1}]).write(f)
            return f.getvalue()

        import z3
        paths = C.explore(build, max_paths=50)
        for k, p in enumerate(paths):
            if p.exc is not None:
                if isinstance(p.exc, ValueError):
                    continue  # refusal
                obs.append({'name': f'blockname:path{k}:raises', 'status': 'violated', 'detail': repr(p.exc)[:100], 't': 0})
                continue
            if p.inconclusive:
                obs.append({'name': f'blockname:path{k}', 'status': 'inconclusive', 'detail': p.inconclusive[:100], 't': 0})
                continue
            # accepted name: no blank; (non-empty names) header re-lexes as data_<name>
            nonblank = z3.Star(z3.Range('!', '~'))
            ob = C.prove(f'blockname:path{k}:accepted name has no blank', C.B('z3', z3.InRe(s.z, nonblank)), pc=p.pc)
            obs.append(ob_dict(ob))
            if ob.status == 'violated':
                cands.append(('C14:blockname', {'ctx': 'blockname'}, 'blank in accepted block name'))
            parts = parts_of(p.value)
            ok = len(parts) >= 2 and parts[0].endswith('data_') and isinstance(parts[1], SymStr) and parts[2].startswith('\n')
            chk(f'path{k}:header is data_<name> on its own line', C.B.const(bool(ok)), 'C14:blockname')
    elif what == 'su':
        # su columns = sqrt(variance) (symbolic values)
        from symsc.variable import Variable

        vals = np.empty((2,), dtype=object)
        var = np.empty((2,), dtype=object)
        for i in range(2):
            vals[i] = C.sym_var(f'y{i}')
            var[i] = C.sym_var(f'v{i}', sign='0+')
        data = Variable(_arr=vals, _var=var, dims=('tof',), unit=sc.Unit('counts'), dtype=sc.DType.float64)
        da = sc.DataArray(data, coords={'tof': sc.array(dims=['tof'], values=[1.0, 2.0], unit='us')})
        da.name = 'intensity_net'
        paths = C.explore(lambda: cif._make_reduced_powder_loop(da, comment=''))
        p = paths[0]
        if p.exc is not None or p.inconclusive:
            obs.append({'name': 'su:runs', 'status': 'inconclusive' if p.inconclusive else 'violated', 'detail': str(p.inconclusive or repr(p.exc))[:200], 't': 0})
        else:
            cols = p.value._columns
            chk('columns', C.B.const(list(cols) == ['pd_data.point_id', 'pd_meas.time_of_flight', 'pd_proc.intensity_net', 'pd_proc.intensity_net_su']), 'C14:su')
            if 'pd_proc.intensity_net_su' in cols:
                su = cols['pd_proc.intensity_net_su']
                chk('su^2 = variance, su >= 0', C.all_of([(su.values[i] * su.values[i] == var[i]) & (su.values[i] >= 0) for i in range(2)]), 'C14:su')
                chk('values column = data values', C.all_of([cols['pd_proc.intensity_net'].values[i] == vals[i] for i in range(2)]), 'C14:su')
                chk('su column has no variances of its own', C.B.const(su.variances is None and cols['pd_proc.intensity_net'].variances is None), 'C14:su')
    elif what == 'resave':
        # all sequences of builder calls include saving a builder more than once and saving builders derived from a saved one:
        # each document read by the independent lexer defines every tag exactly once per data block
        import sys as _sys
        if not hasattr(_sys.modules['scippneutron'], '__version__'):
            _sys.modules['scippneutron'].__version__ = '0.0.0'

        def tags_of(text):
            toks = cif_lex(text)
            return [c_ for k_, c_ in toks if k_ == 'tag']

        base = cif.CIF('blk', comment='c').with_reducers('prog').with_authors(cif.Person(name='N', corresponding=True, role='r'))
        derived = None
        docs = []
        for step in ('first save', 'second save', 'save of a builder derived after a save', 'save_cif of the derived builder', 'third save of the original'):
            f = io.StringIO()
            if step == 'save of a builder derived after a save':
                derived = base.with_reducers('prog2')
                derived.save(f)
            elif step == 'save_cif of the derived builder':
                cif.save_cif(f, derived)
            else:
                base.save(f)
            docs.append((step, f.getvalue()))
        for step, text in docs:
            tg = tags_of(text)
            dup = sorted({t_ for t_ in tg if tg.count(t_) > 1})
            chk(f'{step}: every tag defined exactly once (duplicates: {dup[:3]})', C.B.const(len(tg) > 0 and not dup), 'C14:resave', {'ctx': 'resave'})
        chk('the original builder writes the same tags on every save', C.B.const(tags_of(docs[0][1]) == tags_of(docs[1][1]) == tags_of(docs[4][1])), 'C14:resave', {'ctx': 'resave'})
    elif what == 'authors':
        Person = cif.Person
        n = 0
        for flags in itertools.product([(False, None), (False, 'role'), (True, None), (True, 'role')], repeat=3):
            for na in (1, 2, 3):
                people = [Person(name=f'N{i}', corresponding=c, role=(f'{r}{i}' if r else None)) for i, (c, r) in enumerate(flags[:na])]
                c_ = cif.CIF('blk').with_authors(*people)
                items = c_._assemble_authors()
                ids, role_ids = [], []
                for it in items:
                    cols = it._pairs if isinstance(it, cif.Chunk) else {k: list(v.values) for k, v in it._columns.items()}
                    for key, v in cols.items():
                        vv = v if isinstance(v, list) else [v]
                        if key.endswith('author.id'):
                            ids += [str(x) for x in vv]
                        if key == 'audit_author_role.id':
                            role_ids += [str(x) for x in vv]
                ok = len(set(ids)) == len(ids) and set(role_ids) <= set(ids) and len(set(role_ids)) == len(role_ids)
                n += 1
                if not ok:
                    chk(f'authors {flags[:na]}: role ids refer to exactly one author id', C.FALSE, 'C14:authors', {'ctx': 'authors', 'flags': [list(map(str, x)) for x in flags[:na]]})
        chk(f'{n} author configurations: every role id refers to exactly one author id, ids distinct', C.TRUE, 'C14:authors')
    return {'obligations': obs, 'candidates': cands, 'paths': 1}


def run(chk):
    sc, cif = _load()
    from symex import loader

    chk.functions = loader.describe_exprs(['cif._quotes_for_string_value', 'cif._format_value', 'cif._encode_non_ascii', 'cif._write_comment', 'cif.Chunk.write', 'cif.Loop.write', 'cif.Block.write', 'cif._write_multi', 'cif._serialize_authors', 'cif._serialize_roles', 'cif.CIF._assemble_authors', 'cif._make_reduced_powder_loop'], {**globals(), **locals()})
    run_jobs(chk, job_value, CONTEXTS)
    run_jobs(chk, job_misc, ['comments', 'nonascii', 'blockname', 'su', 'authors', 'resave'])
    chk.bounds = {'strings': 'z3 strings of unbounded length over printable ASCII + tab + newline', 'loops': '1x2, 2x1 and 2x2 (one symbolic column)',
                  'authors': '1..3 authors x corresponding/role flags enumerated'}
    chk.stubs = ['symbolic str subclass (content queries -> z3 sequence theory, forking)', 'pydantic models used as is with concrete strings',
                 'scippnexus -> empty stand-in']
    chk.axioms = ['CIF 1.1 lexical grammar as regular languages (unquoted strings at / not at line start, reserved words case-insensitive, quoted strings, text fields)']
    chk.assumptions = ['non-ASCII enters only through _encode_non_ascii (checked on samples)', 'numbers: str(float) yields a CIF numeric token (not checked)',
                       'control characters other than tab/newline outside the quantifier', 'empty block name (the default) not checked']


# ---------------------------------------------------------------------------------------------
def cif_lex(text):
    """Small independent CIF 1.1 tokenizer: returns list of (kind, content)."""
    toks = []
    i, n = 0, len(text)
    bol = True
    while i < n:
        ch = text[i]
        if ch == '\n':
            bol = True
            i += 1
            continue
        if ch in ' \t':
            bol = False if False else bol
            i += 1
            # whitespace does not change beginning-of-line for ';' purposes? a text field needs ';' as FIRST char of line
            bol = False
            continue
        if ch == '#':
            j = text.find('\n', i)
            j = n if j < 0 else j
            toks.append(('comment', text[i:j]))
            i = j
            continue
        if ch == ';' and bol:
            j = text.find('\n;', i)
            if j < 0:
                toks.append(('error', 'unterminated text field'))
                return toks
            toks.append(('value', text[i + 1:j]))
            i = j + 2
            bol = False
            continue
        if ch in '\'"':
            j = i + 1
            while True:
                j = text.find(ch, j)
                if j < 0 or '\n' in text[i:j]:
                    toks.append(('error', 'unterminated quote'))
                    return toks
                if j + 1 >= n or text[j + 1] in ' \t\n':
                    break
                j += 1
            toks.append(('value', text[i + 1:j]))
            i = j + 1
            bol = False
            continue
        j = i
        while j < n and text[j] not in ' \t\n':
            j += 1
        w = text[i:j]
        low = w.lower()
        if w.startswith('_'):
            toks.append(('tag', w))
        elif low.startswith('data_'):
            toks.append(('data', w[5:]))
        elif low == 'loop_':
            toks.append(('loop', ''))
        elif low.startswith('save_') or low in ('stop_', 'global_'):
            toks.append(('reserved', w))
        elif w[0] in '$[]':
            toks.append(('error', f'illegal start of unquoted string {w!r}'))
        else:
            toks.append(('value', w))
        i = j
        bol = False
    return toks


def replay_real(case):
    import scipp as sc
    from scippneutron.io import cif

    ctx = case.get('ctx')
    bad = []
    if ctx in CONTEXTS:
        vals = case.get('values', {})
        s, t = vals.get('S', 'x'), vals.get('T', 'y')
        f = io.StringIO()
        arr = lambda *v: sc.array(dims=['r'], values=list(v))  # noqa: E731
        V = lambda x: ('value', x)  # noqa: E731
        if ctx == 'chunk':
            cif.Chunk({'audit.x': s}).write(f)
            expect = [('tag', '_audit.x'), V(s)]
        elif ctx == 'chunk-after-text':
            cif.Chunk({'a.w': 'two\nlines', 'a.x': s, 'a.y': 'plain'}).write(f)
            expect = [('tag', '_a.w'), V('two\nlines'), ('tag', '_a.x'), V(s), ('tag', '_a.y'), V('plain')]
        elif ctx == 'loop-row-first':
            cif.Loop({'a.x': arr(s), 'a.y': arr('plain')}).write(f)
            expect = [('loop', ''), ('tag', '_a.x'), ('tag', '_a.y'), V(s), V('plain')]
        elif ctx == 'loop-row-second':
            cif.Loop({'a.x': arr('plain'), 'a.y': arr(s)}).write(f)
            expect = [('loop', ''), ('tag', '_a.x'), ('tag', '_a.y'), V('plain'), V(s)]
        elif ctx == 'loop-row-with-text':
            cif.Loop({'a.x': arr('two\nlines'), 'a.y': arr(s), 'a.z': arr('plain')}).write(f)
            expect = [('loop', ''), ('tag', '_a.x'), ('tag', '_a.y'), ('tag', '_a.z'), V('two\nlines'), V(s), V('plain')]
        elif ctx == 'loop-col':
            cif.Loop({'a.x': arr('plain', s, 'has space')}).write(f)
            expect = [('loop', ''), ('tag', '_a.x'), V('plain'), V(s), V('has space')]
        elif ctx == 'two-symbolic':
            cif.Loop({'a.x': arr(s), 'a.y': arr(t)}).write(f)
            expect = [('loop', ''), ('tag', '_a.x'), ('tag', '_a.y'), V(s), V(t)]
        else:
            cif.Loop({'a.x': arr(s, 'plain'), 'a.n': sc.array(dims=['r'], values=[1.5, 2.5])}).write(f)
            expect = [('loop', ''), ('tag', '_a.x'), ('tag', '_a.n'), V(s), V('1.5'), V('plain'), V('2.5')]
        got = [(k, v.strip() if k == 'value' else v) for k, v in cif_lex(f.getvalue()) if k != 'comment']
        exp = [(k, v.strip() if k == 'value' else v) for k, v in expect]
        if got != exp:
            bad.append(f'wrote {f.getvalue()!r}: lexes as {got[:6]} instead of {exp[:6]}')
    elif ctx == 'comment':
        f = io.StringIO()
        cif.Chunk({'a.x': 1}, comment=case['comment']).write(f)
        toks = [t_ for t_ in cif_lex(f.getvalue()) if t_[0] != 'comment']
        if toks != [('tag', '_a.x'), ('value', '1')]:
            bad.append(f'comment leaks into data: {toks}')
        lines_ = f.getvalue().splitlines()
        stray = [ln for ln in lines_ if not ln.startswith('#') and not ln.startswith('_a.x')]
        if stray or not lines_ or lines_[-1] != '_a.x 1':
            bad.append(f'comment {case["comment"]!r}: text outside a comment line: {stray[:2]!r}')
    elif ctx == 'nonascii':
        v = case['value']
        f = io.StringIO()
        cif.Chunk({'a.x': v}, comment=v).write(f)
        cif.Chunk({'a.y': sc.scalar(v)}).write(f)
        cif.Loop({'a.x': sc.array(dims=['r'], values=[v, 'plain']), 'a.n': sc.array(dims=['r'], values=[1.5, 2.5])}).write(f)
        cif.Loop({'a.n': sc.array(dims=['r'], values=[1.5, 2.5]), 'a.z': sc.array(dims=['r'], values=['plain', v])}, comment=v).write(f)
        g = io.StringIO()
        cif.CIF('blk').with_authors(cif.Person(name=v + ' 0', address=v), cif.Person(name=v + ' 1', address=v)).with_reducers(v + ' a', v + ' b').save(g)
        for nm, txt in (('chunks/loops', f.getvalue()), ('builder', g.getvalue())):
            if not txt.isascii():
                bad.append(f'non-ASCII output via {nm}: {[ln for ln in txt.splitlines() if not ln.isascii()][:2]}')
    elif ctx == 'blockname':
        for nm in ['a b', 'a\tb', 'a\nb']:
            try:
                cif.Block(nm)
                bad.append(f'block name {nm!r} accepted')
            except ValueError:
                pass
    elif ctx == 'resave':
        base = cif.CIF('blk', comment='c').with_reducers('prog').with_authors(cif.Person(name='N', corresponding=True, role='r'))
        derived = None
        for step in ('first save', 'second save', 'save of a builder derived after a save', 'save_cif of the derived builder', 'third save of the original'):
            f = io.StringIO()
            if step == 'save of a builder derived after a save':
                derived = base.with_reducers('prog2')
                derived.save(f)
            elif step == 'save_cif of the derived builder':
                cif.save_cif(f, derived)
            else:
                base.save(f)
            tg = [c_ for k_, c_ in cif_lex(f.getvalue()) if k_ == 'tag']
            dup = sorted({t_ for t_ in tg if tg.count(t_) > 1})
            if dup or not tg:
                bad.append(f'{step}: tags defined more than once in one data block: {dup[:4]}')
    elif ctx == 'authors':
        people = [cif.Person(name=f'N{i}', corresponding=(c == 'True'), role=(f'{r}{i}' if r != 'None' else None)) for i, (c, r) in enumerate(case['flags'])]
        c_ = cif.CIF('blk').with_authors(*people)
        f = io.StringIO()
        for it in c_._assemble_authors():
            it.write(f)
            f.write('\n')
        toks = [t_ for t_ in cif_lex(f.getvalue()) if t_[0] != 'comment']
        # independent re-read: tag/value pairs and loops
        cols, i = {}, 0
        while i < len(toks):
            k, v = toks[i]
            if k == 'loop':
                tags, i = [], i + 1
                while i < len(toks) and toks[i][0] == 'tag':
                    tags.append(toks[i][1])
                    i += 1
                vals = []
                while i < len(toks) and toks[i][0] == 'value':
                    vals.append(toks[i][1])
                    i += 1
                for j, tg in enumerate(tags):
                    cols.setdefault(tg, []).extend(vals[j::len(tags)])
            elif k == 'tag' and i + 1 < len(toks) and toks[i + 1][0] == 'value':
                cols.setdefault(v, []).append(toks[i + 1][1])
                i += 2
            else:
                bad.append(f'unexpected token {toks[i]}')
                break
        ids = [x for tg, v in cols.items() if tg.endswith('author.id') for x in v]
        role_ids = cols.get('_audit_author_role.id', [])
        if len(set(ids)) != len(ids):
            bad.append(f'author ids not distinct: {ids}')
        if not set(role_ids) <= set(ids):
            bad.append(f'role ids {role_ids} not among author ids {ids}')
        n_roles = sum(1 for _, r in case['flags'] if r != 'None')
        if len(role_ids) != n_roles:
            bad.append(f'{len(role_ids)} role rows for {n_roles} authors with roles')
    else:
        return {'reproduced': False, 'detail': 'no replay for this case kind'}
    return {'reproduced': bool(bad), 'detail': '; '.join(bad[:2])}
