"""C15 - XYE files round-trip coordinates and values exactly, uncertainties to rounding."""
from __future__ import annotations

import inspect
import itertools
from fractions import Fraction

from .common import ob_dict, run_jobs


class _Calls:
    saved = None
    fmt = None
    header = None
    loaded_from = None


class _C:
    def __getitem__(self, cols):
        import numpy as np

        cols = [np.asarray(c._arr if isinstance(c, DeclArr) else c, dtype=object).reshape(-1) for c in cols]
        n = len(cols[0])
        m = np.empty((n, len(cols)), dtype=object)
        for j, c in enumerate(cols):
            if len(c) != n:
                raise ValueError('all the input array dimensions must match')
            m[:, j] = c
        return m


class NPX:
    """numpy stand-in for xye.py: c_, sqrt (element-wise symbolic), savetxt/loadtxt = text layer."""

    c_ = _C()
    newaxis = None

    def __getattr__(self, name):
        import numpy as np

        return getattr(np, name)

    def empty(self, shape, dtype=None, **kw):
        """A table allocated with a declared element type: what is stored in it is converted to that type (integers truncate,
        float32 rounds - an uninterpreted function of the stored double)."""
        import numpy as np

        if dtype is None or np.dtype(dtype) == object or np.dtype(dtype) == np.float64:
            return np.empty(shape, dtype=object)
        return TypedTable(shape, np.dtype(dtype))

    def finfo(self, dtype):
        import numpy as np

        return np.finfo(np.float64 if np.dtype(dtype) == object else dtype)

    def maximum(self, a, b):
        """Element-wise maximum of symbolic values (forks on the comparison)."""
        import numpy as np
        from symex import core as C

        a = np.asarray(a, dtype=object)
        out = np.empty(a.shape, dtype=object)
        bb = np.broadcast_to(np.asarray(b, dtype=object), a.shape)
        for idx in np.ndindex(a.shape):
            x, y = C.R.lift(a[idx]), C.R.lift(bb[idx])
            out[idx] = x if bool(x >= y) else y
        return out

    def sqrt(self, a):
        import numpy as np
        from symex import core as C

        a = np.asarray(a, dtype=object)
        out = np.empty(a.shape, dtype=object)
        for idx in np.ndindex(a.shape):
            out[idx] = a[idx].sym_sqrt() if hasattr(a[idx], 'sym_sqrt') else C.rsqrt(a[idx])
        return out

    def savetxt(self, fname, X, fmt=None, delimiter=' ', newline='\n', header='', footer='', comments='# ', encoding=None):
        import numpy as np

        real_default = inspect.signature(np.savetxt).parameters['fmt'].default
        _Calls.saved = np.array(X, dtype=object)
        _Calls.fmt = real_default if fmt is None else fmt
        _Calls.header = header
        _Calls.delim = delimiter
        _Calls.fname = fname

    def loadtxt(self, fname, delimiter=None, unpack=False, **kw):
        import numpy as np

        m = _Calls.saved
        _Calls.loaded_from = fname
        if m.shape[0] == 1:
            out = m[0].copy()  # numpy squeezes a single row to 1-d
            return out
        return m.T.copy() if unpack else m.copy()


class DeclArr:
    """Values of a coordinate with a declared element type (numpy's .dtype of an object array would say 'object')."""

    def __init__(self, arr, dtype):
        import numpy as np

        self._arr, self.dtype = arr, np.dtype(dtype)
        self.shape, self.ndim = arr.shape, arr.ndim

    def __len__(self):
        return len(self._arr)

    def __array__(self, dtype=None, copy=None):
        return self._arr

    def __getitem__(self, k):
        return self._arr[k]

    def __iter__(self):
        return iter(self._arr)

    def reshape(self, *a):
        return self._arr.reshape(*a)


def TypedTable(shape, dt):
    import numpy as np
    from symex import core as C

    class _T(np.ndarray):
        def __setitem__(self, key, value):
            v = np.asarray(value._arr if isinstance(value, DeclArr) else value, dtype=object)
            out = np.empty(v.shape, dtype=object)
            for idx in np.ndindex(v.shape):
                x = C.R.lift(v[idx])
                if dt.kind in 'iu':
                    out[idx] = x if x.special else C.sym_trunc(x)
                elif dt == np.float32:
                    out[idx] = C.rfn('fl32', x)
                else:
                    out[idx] = x
            np.ndarray.__setitem__(self, key, out if out.shape else out[()])

    return np.empty(shape, dtype=object).view(_T)


OTHERS = ['other', 'other2', 'other3']
MAXC = 3


class SymCoordsX:
    """Coordinates of the stand-in: symbolic count (0..3), symbolic presence of the dimension-coordinate, per-coordinate
    symbolic bin-edge and alignment flags.  Counting and membership tests stay symbolic; iteration concretises the count."""

    def __init__(self, C, ncoords, has_dim, edges):
        self.C, self.ncoords, self.has_dim, self.edges = C, ncoords, has_dim, edges
        self.vars = {}

    def __symlen__(self):
        return self.ncoords

    def _present(self):
        k = None
        for i in range(MAXC + 1):
            if bool(self.ncoords == i):
                k = i
                break
        if k is None:
            raise self.C.Unsupported('more coordinates than the bound')
        hd = bool(self.has_dim)
        return (['DIM'] if hd else []) + OTHERS[:k - (1 if hd else 0)]

    def __contains__(self, name):
        if name == 'DIM':
            return bool(self.has_dim)
        if name in OTHERS:
            return bool(self.ncoords - self.C.R.lift(1 if bool(self.has_dim) else 0) > OTHERS.index(name))
        return False

    def __iter__(self):
        return iter(self._present())

    def keys(self):
        return list(self._present())

    def values(self):
        return [self.vars[k] for k in self._present()]

    def items(self):
        return [(k, self.vars[k]) for k in self._present()]

    def is_edges(self, name, dim=None):
        return bool(self.edges[name])

    def __getitem__(self, name):
        return self.vars[name]


class _Masks:
    def __init__(self, b):
        self.b = b

    def __bool__(self):
        return bool(self.b)

    def keys(self):
        return ['m']


class XDA:
    """DataArray stand-in whose structural properties are symbolic."""

    def __init__(self, sc, C, has_var, n, coord_dtype='float64'):
        import numpy as np
        from symsc.variable import Variable

        self.ndim = C.sym_var('ndim', is_int=True)
        self.dims = ('DIM',)
        self.dim = 'DIM'
        self.unit = sc.Unit('counts')
        self.masks = _Masks(C.B('z3', __import__('z3').Bool('has_masks')))
        self.ncoords = C.sym_var('ncoords', is_int=True, sign='0+')
        self.has_dim = C.B('z3', __import__('z3').Bool('dim_coord_present'))
        self.names = ['DIM', *OTHERS]
        self.edges = {k: C.B('z3', __import__('z3').Bool(f'edges_{k}')) for k in self.names}
        self.aligned = {k: C.B('z3', __import__('z3').Bool(f'aligned_{k}')) for k in self.names}
        self.coords = SymCoordsX(C, self.ncoords, self.has_dim, self.edges)
        self.y = [C.sym_var(f'y{i}') for i in range(n)]
        self.v = [C.sym_var(f'v{i}', sign='0+') for i in range(n)]
        self.x = {k: [C.sym_var(f'{k}_{i}', is_int=coord_dtype.startswith('int')) for i in range(n)] for k in self.names}

        def arr(vals):
            a = np.empty((len(vals),), dtype=object)
            for i, t in enumerate(vals):
                a[i] = t
            return a

        self.values = arr(self.y)
        self.variances = arr(self.v) if has_var else None
        for k in self.x:
            if coord_dtype == 'float64':
                self.coords.vars[k] = Variable(_arr=arr(self.x[k]), dims=('DIM',), unit=sc.Unit('us'), dtype=sc.DType.float64)
            else:
                class _CV(Variable):
                    @property
                    def values(self_):
                        return DeclArr(self_._a, coord_dtype)
                self.coords.vars[k] = _CV(_arr=arr(self.x[k]), dims=('DIM',), unit=sc.Unit('us'), dtype=getattr(sc.DType, coord_dtype))
            self.coords.vars[k]._aligned = self.aligned[k]

    def structure_assumptions(self, C):
        """0..3 coordinates; a present dimension-coordinate counts as one of them."""
        return [self.ncoords <= MAXC, ~self.has_dim | (self.ncoords >= 1)]


def _load():
    from symex import loader
    import types, sys

    sc = loader.install_shim()
    if 'scippneutron.logging' not in sys.modules or not hasattr(sys.modules['scippneutron.logging'], '_verif'):
        lg = types.ModuleType('scippneutron.logging')
        lg._verif = True

        class _L:
            def info(self, *a, **k):
                pass

        lg.get_logger = lambda: _L()
        sys.modules['scippneutron.logging'] = lg
        sys.modules['scippneutron'].logging = lg
    xye = loader.load('io.xye')
    from .sqwsym import symlen

    def slen(x):
        return x.__symlen__() if hasattr(x, '__symlen__') else len(x)

    xye.len = slen
    xye.np = NPX()
    return sc, xye


def _zmodel(C, constraints):
    m = C.solve(list(constraints))
    if m.status != 'sat':
        return {}
    zm = m.solver.model()
    return {str(d): str(zm[d]) for d in zm.decls()}


def job_refusal(j, seed):
    has_var, coord_given, n = j
    import z3
    from symex import core as C
    from .symutil import fresh_run

    sc, xye = _load()
    fresh_run()
    obs, cands = [], []
    tag = f'save[variances={has_var},coord={coord_given},rows={n}]'
    case = {'kind': 'save', 'has_var': has_var, 'coord_given': coord_given, 'n': n}
    C.CTX.fork_timeout_ms = 3000
    da0 = XDA(sc, C, has_var, n)
    ndim, ncoords, has_dim, masks = da0.ndim, da0.ncoords, da0.has_dim, da0.masks.b
    edges = da0.edges
    for a in da0.structure_assumptions(C):
        C.CTX.assume(a)
    n_other = ncoords - C.R.lift(1) * 0
    if coord_given == 'DIM':
        C.CTX.assume(has_dim)  # a coordinate named explicitly exists (a missing one is a KeyError of the container)
    elif coord_given == 'other':
        C.CTX.assume((has_dim & (ncoords >= 2)) | (~has_dim & (ncoords >= 1)))

    def run():
        da = XDA(sc, C, has_var, n)
        _Calls.saved = None
        xye.save_xye('FILE', da, coord=coord_given, header='user header\nline 2')
        return da, _Calls.saved, _Calls.fmt, _Calls.header

    paths = C.explore(run, max_paths=1500)
    # chosen coordinate per the documented rule (alignment flags play no part in it)
    if coord_given:
        ambiguous = C.FALSE
        chosen_cases = [(C.TRUE, coord_given)]
        edge_chosen = edges[coord_given]
    else:
        ambiguous = (ncoords > 1) & ~has_dim
        # exactly one coordinate: that one; several: the dimension-coordinate
        chosen_cases = [((ncoords == 1) & has_dim, 'DIM'), ((ncoords == 1) & ~has_dim, 'other'), ((ncoords > 1) & has_dim, 'DIM')]
        edge_chosen = (has_dim & edges['DIM']) | ((ncoords == 1) & ~has_dim & edges['other'])
    refuse = C.B.const(not has_var) | (ndim != 1) | masks | (ncoords == 0) | ambiguous | edge_chosen
    ok_types = {'VariancesError': C.B.const(not has_var), 'DimensionError': ndim != 1, 'ValueError': masks | (ncoords == 0) | ambiguous, 'CoordError': edge_chosen}
    nsaved = 0
    for k, p in enumerate(paths):
        if p.inconclusive:
            obs.append({'name': f'{tag}:path{k}', 'status': 'inconclusive', 'detail': p.inconclusive[:200], 't': 0})
            continue
        if p.exc is not None:
            tname = type(p.exc).__name__
            cond = ok_types.get(tname)
            if cond is None:
                obs.append({'name': f'{tag}:path{k}:unexpected exception', 'status': 'violated', 'detail': repr(p.exc)[:200], 't': 0})
                cands.append(('C15:save:raises', {**case, 'model': _zmodel(C, [*C.CTX.assumptions, *p.pc])}, repr(p.exc)[:100]))
                continue
            ob = C.prove(f'{tag}:path{k}:{tname} only when its condition holds', cond, pc=p.pc)
            obs.append(ob_dict(ob))
            if ob.status == 'violated':
                cands.append(('C15:refusal', {**case, 'model': _zmodel(C, [*C.CTX.assumptions, *p.pc, ~cond])}, f'{tname} raised for representable data'))
            continue
        nsaved += 1
        da, saved, fmt, header = p.value
        ob = C.prove(f'{tag}:path{k}:written => representable (nothing refused)', ~refuse, pc=p.pc)
        obs.append(ob_dict(ob))
        if ob.status == 'violated':
            cands.append(('C15:refusal', {**case, 'model': _zmodel(C, [*C.CTX.assumptions, *p.pc, refuse])}, 'unrepresentable data written'))
        # matrix handed to savetxt: (coord, values, sqrt(variances)) with the documented coordinate
        if saved is None or saved.shape != (n, 3):
            obs.append({'name': f'{tag}:path{k}:table shape', 'status': 'violated', 't': 0, 'detail': str(None if saved is None else saved.shape)})
            cands.append(('C15:table', {**case, 'model': _zmodel(C, [*C.CTX.assumptions, *p.pc])}, 'table shape'))
            continue
        for cond, cname in chosen_cases:
            if C.solve([*C.CTX.assumptions, *p.pc, cond], want_model=False).status == 'unsat':
                continue
            xs = da.x[cname]
            good = C.all_of([(saved[i, 0] == xs[i]) & (saved[i, 1] == da.y[i]) & (saved[i, 2] * saved[i, 2] == da.v[i]) & (saved[i, 2] >= 0) for i in range(n)])
            ob = C.prove(f'{tag}:path{k}:columns = ({cname} coordinate, values, sqrt(variances))', good, pc=[*p.pc, cond])
            obs.append(ob_dict(ob))
            if ob.status == 'violated':
                cands.append(('C15:table', {**case, 'model': _zmodel(C, [*C.CTX.assumptions, *p.pc, cond])}, f'first column is not the {cname} coordinate'))
        # text precision: the format has >= 17 significant digits (Matula): 10^(p+1-1) > 2^53 for %.{p}e
        import re as _re
        mm = _re.fullmatch(r'%\.(\d+)e', fmt if isinstance(fmt, str) else '')
        digits = int(mm.group(1)) + 1 if mm else 0
        d = C.sym_var('sigdigits', is_int=True)
        ob = C.prove(f'{tag}:path{k}:format {fmt!r} keeps doubles exactly (>= 17 significant digits)', d >= 17, assumptions=[d == digits])
        obs.append(ob_dict(ob))
        if ob.status != 'discharged':
            cands.append(('C15:precision', case, f'format {fmt!r}'))
        ob = C.prove(f'{tag}:path{k}:user header passed through unchanged', C.B.const(header == 'user header\nline 2'))
        obs.append(ob_dict(ob))
    return {'obligations': obs, 'candidates': cands, 'paths': len(paths)}


def job_bits(j, seed):
    """Bit-for-bit (QF_FP, Float64): the coordinate and value columns handed to the text layer carry the IEEE bit pattern
    of the input (signed zeros included) for every non-NaN double; the uncertainty column is sqrt(variance) correctly
    rounded.  Any arithmetic applied to the table on the way (+0.0, *1.0, -0.0 ...) must be the identity on bits."""
    n = j
    import numpy as np
    import z3
    from symex import core as C
    from symex.fp import FPV
    from symsc.variable import Variable
    from .symutil import fresh_run

    sc, xye = _load()
    fresh_run()
    obs, cands = [], []
    case = {'kind': 'bits', 'n': n}
    da = XDA(sc, C, True, n)
    for c in (da.ndim == 1, ~da.masks.b, da.ncoords == 1, da.has_dim, ~da.edges['DIM']):
        C.CTX.assume(c)
    xs = [FPV.var(f'x{i}') for i in range(n)]
    ys = [FPV.var(f'y{i}') for i in range(n)]
    vs = [FPV.var(f'v{i}') for i in range(n)]
    for t in (*xs, *ys, *vs):
        C.CTX.assume(C.B('z3', z3.Not(z3.fpIsNaN(t.e))))
    for t in vs:
        C.CTX.assume(C.B('z3', z3.Not(z3.fpIsNegative(t.e))))

    def arr(vals):
        a = np.empty((len(vals),), dtype=object)
        for i, t in enumerate(vals):
            a[i] = t
        return a

    da.values = arr(ys)
    da.variances = arr(vs)
    da.coords.vars['DIM'] = Variable(_arr=arr(xs), dims=('DIM',), unit=sc.Unit('us'), dtype=sc.DType.float64)
    da.coords.vars['DIM']._aligned = True
    C.CTX.fork_timeout_ms = 20000

    def run():
        _Calls.saved = None
        xye.save_xye('FILE', da)
        return _Calls.saved

    paths = C.explore(run, max_paths=8)
    for k, p in enumerate(paths):
        if p.exc is not None or p.inconclusive:
            obs.append({'name': f'bits[n={n}]:path{k}', 'status': 'inconclusive' if p.inconclusive else 'violated', 'detail': str(p.inconclusive or repr(p.exc))[:200], 't': 0})
            if p.exc is not None:
                cands.append(('C15:bits:raises', case, repr(p.exc)[:100]))
            continue
        saved = p.value
        if saved is None or saved.shape != (n, 3) or not all(isinstance(saved[i, c_], FPV) for i in range(n) for c_ in range(3)):
            obs.append({'name': f'bits[n={n}]:path{k}:table of doubles', 'status': 'inconclusive', 'detail': 'table entries are not IEEE terms', 't': 0})
            continue
        for i in range(n):
            for cname, col, src in (('coordinate', 0, xs), ('value', 1, ys)):
                ob = C.prove(f'bits[n={n}]:path{k}:row {i} {cname} has the bit pattern of the input (signed zeros kept)', saved[i, col].bits_equal(src[i]), pc=p.pc, timeout_ms=60000)
                obs.append(ob_dict(ob))
                if ob.status == 'violated':
                    cands.append(('C15:bits', {**case, 'column': cname}, f'{cname} column is not passed through bit-for-bit'))
            want = vs[i].sym_sqrt()
            # the same z3 term (one correctly rounded square root of the input) needs no bit-blasting of fp.sqrt
            goal = C.TRUE if z3.eq(saved[i, 2].e, want.e) else saved[i, 2].bits_equal(want)
            ob = C.prove(f'bits[n={n}]:path{k}:row {i} uncertainty = sqrt(variance), correctly rounded', goal, pc=p.pc, timeout_ms=60000)
            obs.append(ob_dict(ob))
            if ob.status == 'violated':
                cands.append(('C15:bits', {**case, 'column': 'uncertainty'}, 'uncertainty column is not sqrt(variance)'))
    return {'obligations': obs, 'candidates': cands, 'paths': len(paths)}


class FileObj:
    """A caller-owned file object (text stream at an arbitrary position: the caller may have written or skipped something
    in front of the table).  Every attribute the code under test looks up or calls is recorded; numpy (the text layer) is
    the only one allowed to use it."""

    def __init__(self):
        object.__setattr__(self, 'log', [])

    def __getattr__(self, name):
        if name.startswith('__') and name.endswith('__'):
            raise AttributeError(name)
        log = object.__getattribute__(self, 'log')
        log.append(('getattr', name))

        def method(*a, **kw):
            log.append(('call', name, a))
            return 0
        return method


def job_roundtrip(j, seed):
    n, target, *more = j if isinstance(j, tuple) else (j, 'path')
    cdt = more[0] if more else 'float64'  # element type of the coordinate that is written
    from symex import core as C
    from .symutil import fresh_run

    sc, xye = _load()
    fresh_run()
    obs, cands = [], []
    case = {'kind': 'roundtrip', 'n': n, 'target': target, 'coord_dtype': cdt}
    da = XDA(sc, C, True, n, cdt)
    for c in (da.ndim == 1, ~da.masks.b, da.ncoords == 1, da.has_dim, ~da.edges['DIM']):
        C.CTX.assume(c)
    C.CTX.fork_timeout_ms = 3000

    fobj_w, fobj_r = ('FILE', 'FILE') if target == 'path' else (FileObj(), FileObj())

    def run():
        _Calls.saved = None
        for fo in (fobj_w, fobj_r):
            if target != 'path':
                fo.log.clear()
        xye.save_xye(fobj_w, da)
        hdr = _Calls.header
        given_w = _Calls.fname
        out = xye.load_xye(fobj_r, dim='DIM', unit='counts', coord_unit='us')
        return out, hdr, given_w, _Calls.loaded_from, ([] if target == 'path' else list(fobj_w.log)), ([] if target == 'path' else list(fobj_r.log))

    paths = C.explore(run)
    for k, p in enumerate(paths):
        if p.exc is None and not p.inconclusive:
            out, hdr, given_w, given_r, log_w, log_r = p.value
            p.value = (out, hdr)
            ob = C.prove(f'roundtrip[n={n},{target}]:path{k}:the target is handed to the text layer as given and is not touched otherwise (no seek / read / write / truncate by the package; calls: {[c_[1] for c_ in log_w + log_r]})',
                         C.B.const(given_w is fobj_w and given_r is fobj_r and not log_w and not log_r))
            obs.append(ob_dict(ob))
            if ob.status != 'discharged':
                cands.append(('C15:target', case, f'file object used by the package itself: {[c_[:2] for c_ in log_w + log_r][:4]}'))
        if p.exc is not None or p.inconclusive:
            obs.append({'name': f'roundtrip[n={n},{cdt} coordinate]:path{k}', 'status': 'inconclusive' if p.inconclusive else 'violated', 'detail': str(p.inconclusive or repr(p.exc))[:200], 't': 0})
            if p.exc is not None:
                cands.append(('C15:roundtrip:raises', case, repr(p.exc)[:100]))
            continue
        out, hdr = p.value
        good = C.B.const(out.dims == ('DIM',) and len(out.data) == n)
        if len(out.data) == n:
            for i in range(n):
                good = good & (out.coords['DIM'].values[i] == da.x['DIM'][i]) & (out.data.values[i] == da.y[i]) & (out.data.variances[i] == da.v[i])
        ob = C.prove(f'roundtrip[n={n},{cdt} coordinate]:path{k}:coordinate and values identical, variances = (sqrt v)^2 = v over the reals', good, pc=p.pc)
        obs.append(ob_dict(ob))
        if ob.status == 'violated':
            cands.append(('C15:roundtrip', case, 'round trip changes the data'))
        ob = C.prove(f'roundtrip[n={n},{cdt} coordinate]:path{k}:generated header is a single line', C.B.const('\n' not in hdr and '\r' not in hdr))
        obs.append(ob_dict(ob))
        ob = C.prove(f'roundtrip[n={n},{cdt} coordinate]:path{k}:units attached as requested', C.B.const(out.data.unit == sc.Unit('counts') and out.coords['DIM'].unit == sc.Unit('us')))
        obs.append(ob_dict(ob))
    # rounding of sqrt followed by squaring: (1+d1)^2 (1+d2) within 4 ulp (relative), first-order model
    u = Fraction(1, 2**53)
    d1, d2 = C.sym_var('d1'), C.sym_var('d2')
    rel = (1 + d1) * (1 + d1) * (1 + d2) - 1
    ob = C.prove('roundtrip: |fl(fl(sqrt v)^2)/v - 1| <= 4u in the (1+delta) model', (rel <= 4 * u) & (rel >= -4 * u), assumptions=[d1 >= -u, d1 <= u, d2 >= -u, d2 <= u])
    obs.append(ob_dict(ob))
    return {'obligations': obs, 'candidates': cands, 'paths': len(paths)}


def run(chk):
    sc, xye = _load()
    from symex import loader

    chk.functions = loader.describe_exprs(['xye.save_xye', 'xye.load_xye', 'xye._deduce_coord', 'xye._generate_xye_header'], {**globals(), **locals()})
    jobs = [(hv, cg, n) for hv in (True, False) for cg in (None, 'DIM', 'other') for n in ((1, 2) if chk.tier == 'quick' else (1, 2, 3, 4))]
    run_jobs(chk, job_refusal, jobs)
    run_jobs(chk, job_roundtrip, [(1, 'path'), (2, 'path'), (3, 'path'), (2, 'file-object'), (2, 'path', 'int64'), (2, 'path', 'float32'), (1, 'path', 'int32')] + ([(4, 'path'), (5, 'path'), (6, 'path'), (1, 'file-object'), (3, 'file-object'), (5, 'file-object')] if chk.tier == 'thorough' else []))
    run_jobs(chk, job_bits, [1, 2] if chk.tier == 'quick' else [1, 2, 3, 4])
    chk.bounds = {'configuration': 'ndim (symbolic integer), number of coordinates (symbolic, 0..3), masks / dimension-coordinate present / per-coordinate bin-edge and alignment flags (symbolic Booleans); variances present and coord argument (None, dimension-coordinate, another coordinate) enumerated',
                  'rows': ('1..3' if chk.tier == 'quick' else '1..6') + ' with symbolic values; path and file-object targets'}
    chk.stubs = ['numpy c_/sqrt/savetxt/loadtxt: text layer = identity on doubles given >= 17 significant digits (Matula); a single row is returned 1-d as numpy does',
                 'logger -> no-op', 'DataArray -> stand-in with symbolic structural properties']
    chk.axioms = ['correctly rounded printf/strtod (trusted)', '(1+delta) rounding model for sqrt and square']
    chk.assumptions = ['a coordinate named explicitly exists', 'numpy prefixes every header line with the comment marker (trusted)', 'bit-level equality of coordinate/values follows from the text-layer identity']


def replay_real(case):
    import io

    import numpy as np
    import scipp as sc
    from scippneutron.io import xye

    rng = np.random.default_rng(8)
    bad = []
    if case.get('signature', '').startswith('C15:target'):
        # file objects positioned by the caller: two tables in one stream, a title line in front of a table
        def table(n):
            return sc.DataArray(sc.array(dims=['tof'], values=rng.normal(size=n) * 10, variances=np.abs(rng.normal(size=n)) + 0.5, unit='counts'),
                                coords={'tof': sc.array(dims=['tof'], values=np.sort(rng.normal(size=n) * 100), unit='us')})
        for first, n in (('table', 4), ('title', 5), ('nothing', 3)):
            f = io.StringIO()
            if first == 'table':
                xye.save_xye(f, table(7))
            elif first == 'title':
                f.write('1 2 3\n')
            off = f.tell()
            da = table(n)
            xye.save_xye(f, da)
            f.seek(off)
            try:
                out = xye.load_xye(f, dim='tof', unit='counts', coord_unit='us')
            except Exception as e:  # noqa: BLE001
                bad.append(f'load from a stream positioned behind a {first}: {type(e).__name__}: {e}'[:200])
                continue
            if out.sizes != da.sizes or not np.array_equal(out.values, da.values) or not np.array_equal(out.coords['tof'].values, da.coords['tof'].values):
                bad.append(f'load from a stream positioned behind a {first}: {out.sizes["tof"]} rows loaded, {n} rows saved at that position')
        return {'reproduced': bool(bad), 'detail': '; '.join(bad[:2])}
    if case.get('kind') == 'save' and case.get('model'):
        m = case['model']

        def geti(suffix, default):
            for k_, v_ in m.items():
                if k_ == suffix or k_.endswith('_' + suffix):
                    try:
                        return int(v_)
                    except ValueError:
                        return default
            return default

        def getb(name, default):
            return {'True': True, 'False': False}.get(m.get(name), default)

        n = case['n']
        ndim, ncoords = geti('ndim', 1), max(0, geti('ncoords', 1))
        hd = getb('dim_coord_present', ncoords >= 1)
        masks = getb('has_masks', False)
        present = (['DIM'] if hd else []) + OTHERS[:ncoords - (1 if hd else 0)]
        real = {'DIM': 'tof', 'other': 'a', 'other2': 'b', 'other3': 'c'}
        y = rng.normal(size=n) * 10
        v = np.abs(rng.normal(size=n)) + 0.5
        if ndim == 1:
            data = sc.array(dims=['tof'], values=y, variances=v if case['has_var'] else None, unit='counts')
        elif ndim <= 0:
            data = sc.scalar(1.5, variance=0.5 if case['has_var'] else None, unit='counts')
        else:
            data = sc.array(dims=['q', 'tof'], values=y[None, :], variances=v[None, :] if case['has_var'] else None, unit='counts')
        coords, xs = {}, {}
        for nm in present:
            edge = getb(f'edges_{nm}', False)
            xs[nm] = np.sort(rng.normal(size=n + (1 if edge else 0)) * 100)
            if ndim >= 1:
                coords[real[nm]] = sc.array(dims=['tof'], values=xs[nm], unit='us')
            else:
                coords[real[nm]] = sc.scalar(float(xs[nm][0]), unit='us')
        da = sc.DataArray(data, coords=coords)
        for nm in present:
            if not getb(f'aligned_{nm}', True):
                da.coords.set_aligned(real[nm], False)
        if masks and ndim >= 1:
            da.masks['m'] = sc.array(dims=['tof'], values=np.zeros(n, bool))
        given = case.get('coord_given')
        # the documented rule, independently
        if given:
            chosen, ambiguous = given, False
        elif ncoords == 1:
            chosen, ambiguous = present[0], False
        elif ncoords > 1 and hd:
            chosen, ambiguous = 'DIM', False
        else:
            chosen, ambiguous = None, ncoords > 1
        refuse = (not case['has_var']) or ndim != 1 or masks or ncoords == 0 or ambiguous or (chosen is not None and getb(f'edges_{chosen}', False))
        f = io.StringIO()
        try:
            xye.save_xye(f, da, coord=real[given] if given else None)
            wrote = True
        except (sc.VariancesError, sc.DimensionError, sc.CoordError, ValueError) as e:
            wrote = False
            err = f'{type(e).__name__}: {e}'
        except Exception as e:  # noqa: BLE001
            return {'reproduced': True, 'detail': f'unexpected {type(e).__name__}: {e}'[:300]}
        desc = f'ndim={ndim}, coords={[(real[nm], "aligned" if getb(f"aligned_{nm}", True) else "unaligned", "edges" if getb(f"edges_{nm}", False) else "") for nm in present]}, masks={masks}, variances={case["has_var"]}, coord={real[given] if given else None}'
        if wrote and refuse:
            bad.append(f'unrepresentable data written: {desc}')
        elif not wrote and not refuse:
            bad.append(f'representable data refused ({err[:80]}): {desc}')
        elif wrote:
            f.seek(0)
            tab = np.loadtxt(f, ndmin=2)
            if tab.shape != (n, 3) or not np.array_equal(tab[:, 0], xs[chosen]) or not np.array_equal(tab[:, 1], y):
                bad.append(f'first column is not the {real[chosen]} coordinate (or values changed): {desc}')
        return {'reproduced': bool(bad), 'detail': '; '.join(bad[:3])}
    if case.get('kind') == 'bits':
        specials = np.array([-0.0, 0.0, 5e-324, -5e-324, 1.7976931348623157e308, -1.7976931348623157e308, 1.0, -1.5, 2.2250738585072014e-308, 1e-310])
        for n in (1, 2, len(specials)):
            xs_ = specials[:n][::-1].copy()
            ys_ = specials[:n].copy()
            da = sc.DataArray(sc.array(dims=['tof'], values=ys_, variances=np.abs(specials[:n]) , unit='counts'), coords={'tof': sc.array(dims=['tof'], values=xs_, unit='us')})
            f = io.StringIO()
            xye.save_xye(f, da)
            f.seek(0)
            out = xye.load_xye(f, dim='tof', unit='counts', coord_unit='us')
            for nm, a, b in (('coordinate', out.coords['tof'].values, xs_), ('values', out.values, ys_)):
                if not np.array_equal(a.view(np.int64), b.view(np.int64)):
                    bad.append(f'n={n}: {nm} {a.tolist()} loaded for {b.tolist()} (bit patterns differ)')
        return {'reproduced': bool(bad), 'detail': '; '.join(bad[:2])}
    if case.get('coord_dtype', 'float64') != 'float64':
        # a coordinate that is not double precision (sc.arange gives int64): the data values and variances are still doubles
        cdt = case['coord_dtype']
        for n in (1, 2, 7):
            vals = rng.normal(size=n) * 3 + 0.37
            var = np.abs(rng.normal(size=n)) + 0.25
            x = (np.arange(n) * 3 + 1).astype(cdt)
            da = sc.DataArray(sc.array(dims=['tof'], values=vals, variances=var, unit='counts'), coords={'tof': sc.array(dims=['tof'], values=x, unit='us')})
            f = io.StringIO()
            xye.save_xye(f, da)
            f.seek(0)
            out = xye.load_xye(f, dim='tof', unit='counts', coord_unit='us')
            if not np.array_equal(out.coords['tof'].values, x.astype('float64')) or not np.array_equal(out.values, vals):
                bad.append(f'n={n}, {cdt} coordinate: values {vals.tolist()} come back as {out.values.tolist()}')
            elif not np.allclose(out.variances, var, rtol=1e-15, atol=0):
                bad.append(f'n={n}, {cdt} coordinate: variances {var.tolist()} come back as {out.variances.tolist()}')
        return {'reproduced': bool(bad), 'detail': '; '.join(bad[:2])[:500]}
    for n in (1, 2, 5, 50):
        vals = np.concatenate([rng.normal(size=n) * 10.0 ** rng.integers(-300, 300, size=n)])[:n]
        var = np.abs(rng.normal(size=n)) * 10.0 ** rng.integers(-200, 200, size=n)
        var[::3] = [0.0, 5e-324, 1e-320, 2.5e-308, 1e-300][n % 5]  # empty bins (variance 0), subnormal and tiny variances
        x = np.sort(rng.normal(size=n) * 1e3)
        da = sc.DataArray(sc.array(dims=['tof'], values=vals, variances=var, unit='counts'), coords={'tof': sc.array(dims=['tof'], values=x, unit='us')})
        for header in (xye.GenerateHeader, 'user\n# header\n1 2 3'):
            f = io.StringIO()
            xye.save_xye(f, da, header=header)
            f.seek(0)
            out = xye.load_xye(f, dim='tof', unit='counts', coord_unit='us')
            if not np.array_equal(out.coords['tof'].values, x) or not np.array_equal(out.values, vals):
                bad.append(f'n={n}: coordinate/values not bit-identical')
            # (sqrt v)^2 in doubles: within a few ulp for normal v, and at most one subnormal step from v below the normal range
            if not np.all(np.abs(out.variances - var) <= 4 * np.spacing(var) + 8 * 5e-324 * (var < 1e-290)):
                k_ = int(np.argmax(np.abs(out.variances - var) > 4 * np.spacing(var) + 8 * 5e-324 * (var < 1e-290)))
                bad.append(f'n={n}: variance {var[k_]!r} comes back as {out.variances[k_]!r}')
    base = sc.DataArray(sc.array(dims=['tof'], values=[1.0, 2.0], variances=[1.0, 1.0], unit='counts'), coords={'tof': sc.array(dims=['tof'], values=[1.0, 2.0], unit='us')})
    refusals = [
        (sc.values(base), sc.VariancesError),
        (sc.DataArray(sc.array(dims=['a', 'tof'], values=[[1.0, 2.0]], variances=[[1.0, 1.0]]), coords={'tof': sc.array(dims=['tof'], values=[1.0, 2.0])}), sc.DimensionError),
        (base.assign_masks(m=sc.array(dims=['tof'], values=[True, False])), ValueError),
        (base.drop_coords('tof'), ValueError),
        (base.assign_coords(tof=sc.array(dims=['tof'], values=[1.0, 2.0, 3.0], unit='us')), sc.CoordError),
        (base.drop_coords('tof').assign_coords(a=base.coords['tof'], b=base.coords['tof']), ValueError),
    ]
    for da, exc in refusals:
        try:
            xye.save_xye(io.StringIO(), da)
            bad.append(f'unrepresentable data written (expected {exc.__name__})')
        except exc:
            pass
        except Exception as e:  # noqa: BLE001
            bad.append(f'wrong refusal {type(e).__name__} (expected {exc.__name__})')
    return {'reproduced': bool(bad), 'detail': '; '.join(bad[:3])}
