"""C15 - XYE files round-trip coordinates and values exactly, uncertainties to rounding."""
from __future__ import annotations

import inspect
import itertools
from fractions import Fraction

from .common import ob_dict, run_jobs


class _Calls:
    saved = None
    fmt = None
    header = None
    loaded_from = None


class _C:
    def __getitem__(self, cols):
        import numpy as np

        cols = [np.asarray(c, dtype=object).reshape(-1) for c in cols]
        n = len(cols[0])
        m = np.empty((n, len(cols)), dtype=object)
        for j, c in enumerate(cols):
            if len(c) != n:
                raise ValueError('all the input array dimensions must match')
            m[:, j] = c
        return m


class NPX:
    """numpy stand-in for xye.py: c_, sqrt (element-wise symbolic), savetxt/loadtxt = text layer."""

    c_ = _C()
    newaxis = None

    def __getattr__(self, name):
        import numpy as np

        return getattr(np, name)

    def sqrt(self, a):
        import numpy as np
        from symex import core as C

        a = np.asarray(a, dtype=object)
        out = np.empty(a.shape, dtype=object)
        for idx in np.ndindex(a.shape):
            out[idx] = C.rsqrt(a[idx])
        return out

    def savetxt(self, fname, X, fmt=None, delimiter=' ', newline='\n', header='', footer='', comments='# ', encoding=None):
        import numpy as np

        real_default = inspect.signature(np.savetxt).parameters['fmt'].default
        _Calls.saved = np.array(X, dtype=object)
        _Calls.fmt = real_default if fmt is None else fmt
        _Calls.header = header
        _Calls.delim = delimiter
        _Calls.fname = fname

    def loadtxt(self, fname, delimiter=None, unpack=False, **kw):
        import numpy as np

        m = _Calls.saved
        _Calls.loaded_from = fname
        if m.shape[0] == 1:
            out = m[0].copy()  # numpy squeezes a single row to 1-d
            return out
        return m.T.copy() if unpack else m.copy()


class SymCoordsX:
    def __init__(self, names, ncoords, has_dim, edges):
        self.names, self.ncoords, self.has_dim, self.edges = names, ncoords, has_dim, edges
        self.vars = {}

    def __symlen__(self):
        return self.ncoords

    def __contains__(self, name):
        if name == 'DIM':
            return bool(self.has_dim)
        return name in self.names

    def __iter__(self):
        return iter(self.names)

    def keys(self):
        return list(self.names)

    def is_edges(self, name, dim=None):
        return bool(self.edges[name])

    def __getitem__(self, name):
        return self.vars[name]


class _Masks:
    def __init__(self, b):
        self.b = b

    def __bool__(self):
        return bool(self.b)

    def keys(self):
        return ['m']


class XDA:
    """DataArray stand-in whose structural properties are symbolic."""

    def __init__(self, sc, C, has_var, n):
        import numpy as np
        from symsc.variable import Variable

        self.ndim = C.sym_var('ndim', is_int=True)
        self.dims = ('DIM',)
        self.dim = 'DIM'
        self.unit = sc.Unit('counts')
        self.masks = _Masks(C.B('z3', __import__('z3').Bool('has_masks')))
        self.ncoords = C.sym_var('ncoords', is_int=True, sign='0+')
        self.has_dim = C.B('z3', __import__('z3').Bool('dim_coord_present'))
        self.names = ['DIM', 'other']
        self.edges = {k: C.B('z3', __import__('z3').Bool(f'edges_{k}')) for k in (*self.names, 'given')}
        self.coords = SymCoordsX(self.names, self.ncoords, self.has_dim, self.edges)
        self.y = [C.sym_var(f'y{i}') for i in range(n)]
        self.v = [C.sym_var(f'v{i}', sign='0+') for i in range(n)]
        self.x = {k: [C.sym_var(f'{k}_{i}') for i in range(n)] for k in (*self.names, 'given')}

        def arr(vals):
            a = np.empty((len(vals),), dtype=object)
            for i, t in enumerate(vals):
                a[i] = t
            return a

        self.values = arr(self.y)
        self.variances = arr(self.v) if has_var else None
        for k in self.x:
            self.coords.vars[k] = Variable(_arr=arr(self.x[k]), dims=('DIM',), unit=sc.Unit('us'), dtype=sc.DType.float64)


def _load():
    from symex import loader
    import types, sys

    sc = loader.install_shim()
    if 'scippneutron.logging' not in sys.modules or not hasattr(sys.modules['scippneutron.logging'], '_verif'):
        lg = types.ModuleType('scippneutron.logging')
        lg._verif = True

        class _L:
            def info(self, *a, **k):
                pass

        lg.get_logger = lambda: _L()
        sys.modules['scippneutron.logging'] = lg
        sys.modules['scippneutron'].logging = lg
    xye = loader.load('io.xye')
    from .sqwsym import symlen

    def slen(x):
        return x.__symlen__() if hasattr(x, '__symlen__') else len(x)

    xye.len = slen
    xye.np = NPX()
    return sc, xye


def job_refusal(j, seed):
    has_var, coord_given, n = j
    import z3
    from symex import core as C
    from .symutil import fresh_run

    sc, xye = _load()
    fresh_run()
    obs, cands = [], []
    tag = f'save[variances={has_var},coord={"given" if coord_given else "None"},rows={n}]'
    case = {'kind': 'save', 'has_var': has_var, 'coord_given': coord_given, 'n': n}
    C.CTX.fork_timeout_ms = 3000
    holder = {}

    def run():
        da = XDA(sc, C, has_var, n)
        holder['da'] = da
        _Calls.saved = None
        xye.save_xye('FILE', da, coord='given' if coord_given else None, header='user header\nline 2')
        return da, _Calls.saved, _Calls.fmt, _Calls.header

    # len(coords) is consulted as ==0, ==1, >1: keep the count small
    paths = C.explore(run, max_paths=400)
    da0 = XDA(sc, C, has_var, n)
    ndim, ncoords, has_dim, masks = da0.ndim, da0.ncoords, da0.has_dim, da0.masks.b
    edges = da0.edges
    # chosen coordinate per the documented rule
    if coord_given:
        ambiguous = C.FALSE
        edge_chosen = edges['given']
        chosen_cases = [(C.TRUE, 'given')]
    else:
        ambiguous = (ncoords > 1) & ~has_dim
        # one coordinate: that one (called 'DIM' first in our naming), more: the dimension-coordinate
        chosen_cases = [(ncoords == 1, 'DIM'), ((ncoords > 1) & has_dim, 'DIM')]
        edge_chosen = edges['DIM']
    refuse = C.B.const(not has_var) | (ndim != 1) | masks | (ncoords == 0) | ambiguous | edge_chosen
    ok_types = {'VariancesError': C.B.const(not has_var), 'DimensionError': ndim != 1, 'ValueError': masks | (ncoords == 0) | ambiguous, 'CoordError': edge_chosen}
    nsaved = 0
    for k, p in enumerate(paths):
        if p.inconclusive:
            obs.append({'name': f'{tag}:path{k}', 'status': 'inconclusive', 'detail': p.inconclusive[:200], 't': 0})
            continue
        if p.exc is not None:
            tname = type(p.exc).__name__
            cond = ok_types.get(tname)
            if cond is None:
                obs.append({'name': f'{tag}:path{k}:unexpected exception', 'status': 'violated', 'detail': repr(p.exc)[:200], 't': 0})
                cands.append(('C15:save:raises', case, repr(p.exc)[:100]))
                continue
            ob = C.prove(f'{tag}:path{k}:{tname} only when its condition holds', cond, pc=p.pc)
            obs.append(ob_dict(ob))
            if ob.status == 'violated':
                cands.append(('C15:refusal', case, f'{tname} raised for representable data'))
            continue
        nsaved += 1
        da, saved, fmt, header = p.value
        ob = C.prove(f'{tag}:path{k}:written => representable (nothing refused)', ~refuse, pc=p.pc)
        obs.append(ob_dict(ob))
        if ob.status == 'violated':
            m = C.solve([*C.CTX.assumptions, *p.pc, refuse])
            mod = {}
            if m.status == 'sat':
                zm = m.solver.model()
                mod = {str(d): str(zm[d]) for d in zm.decls()}
            cands.append(('C15:refusal', {**case, 'model': mod}, 'unrepresentable data written'))
        # matrix handed to savetxt: (coord, values, sqrt(variances)) with the documented coordinate
        if saved is None or saved.shape != (n, 3):
            obs.append({'name': f'{tag}:path{k}:table shape', 'status': 'violated', 't': 0, 'detail': str(None if saved is None else saved.shape)})
            cands.append(('C15:table', case, 'table shape'))
            continue
        for cond, cname in chosen_cases:
            if C.solve([*C.CTX.assumptions, *p.pc, cond], want_model=False).status == 'unsat':
                continue
            xs = da.x[cname]
            good = C.all_of([(saved[i, 0] == xs[i]) & (saved[i, 1] == da.y[i]) & (saved[i, 2] * saved[i, 2] == da.v[i]) & (saved[i, 2] >= 0) for i in range(n)])
            ob = C.prove(f'{tag}:path{k}:columns = ({cname} coordinate, values, sqrt(variances))', good, pc=[*p.pc, cond])
            obs.append(ob_dict(ob))
            if ob.status == 'violated':
                cands.append(('C15:table', case, 'wrong columns'))
        # text precision: the format has >= 17 significant digits (Matula): 10^(p+1-1) > 2^53 for %.{p}e
        import re as _re
        mm = _re.fullmatch(r'%\.(\d+)e', fmt if isinstance(fmt, str) else '')
        digits = int(mm.group(1)) + 1 if mm else 0
        d = C.sym_var('sigdigits', is_int=True)
        ob = C.prove(f'{tag}:path{k}:format {fmt!r} keeps doubles exactly (>= 17 significant digits)', d >= 17, assumptions=[d == digits])
        obs.append(ob_dict(ob))
        if ob.status != 'discharged':
            cands.append(('C15:precision', case, f'format {fmt!r}'))
        ob = C.prove(f'{tag}:path{k}:user header passed through unchanged', C.B.const(header == 'user header\nline 2'))
        obs.append(ob_dict(ob))
    return {'obligations': obs, 'candidates': cands, 'paths': len(paths)}


def job_roundtrip(j, seed):
    n = j
    from symex import core as C
    from .symutil import fresh_run

    sc, xye = _load()
    fresh_run()
    obs, cands = [], []
    case = {'kind': 'roundtrip', 'n': n}
    da = XDA(sc, C, True, n)
    for c in (da.ndim == 1, ~da.masks.b, da.ncoords == 1, ~da.edges['DIM']):
        C.CTX.assume(c)
    C.CTX.fork_timeout_ms = 3000

    def run():
        _Calls.saved = None
        xye.save_xye('FILE', da)
        hdr = _Calls.header
        out = xye.load_xye('FILE', dim='DIM', unit='counts', coord_unit='us')
        return out, hdr

    paths = C.explore(run)
    for k, p in enumerate(paths):
        if p.exc is not None or p.inconclusive:
            obs.append({'name': f'roundtrip[n={n}]:path{k}', 'status': 'inconclusive' if p.inconclusive else 'violated', 'detail': str(p.inconclusive or repr(p.exc))[:200], 't': 0})
            if p.exc is not None:
                cands.append(('C15:roundtrip:raises', case, repr(p.exc)[:100]))
            continue
        out, hdr = p.value
        good = C.B.const(out.dims == ('DIM',) and len(out.data) == n)
        if len(out.data) == n:
            for i in range(n):
                good = good & (out.coords['DIM'].values[i] == da.x['DIM'][i]) & (out.data.values[i] == da.y[i]) & (out.data.variances[i] == da.v[i])
        ob = C.prove(f'roundtrip[n={n}]:path{k}:coordinate and values identical, variances = (sqrt v)^2 = v over the reals', good, pc=p.pc)
        obs.append(ob_dict(ob))
        if ob.status == 'violated':
            cands.append(('C15:roundtrip', case, 'round trip changes the data'))
        ob = C.prove(f'roundtrip[n={n}]:path{k}:generated header is a single line', C.B.const('\n' not in hdr and '\r' not in hdr))
        obs.append(ob_dict(ob))
        ob = C.prove(f'roundtrip[n={n}]:path{k}:units attached as requested', C.B.const(out.data.unit == sc.Unit('counts') and out.coords['DIM'].unit == sc.Unit('us')))
        obs.append(ob_dict(ob))
    # rounding of sqrt followed by squaring: (1+d1)^2 (1+d2) within 4 ulp (relative), first-order model
    u = Fraction(1, 2**53)
    d1, d2 = C.sym_var('d1'), C.sym_var('d2')
    rel = (1 + d1) * (1 + d1) * (1 + d2) - 1
    ob = C.prove('roundtrip: |fl(fl(sqrt v)^2)/v - 1| <= 4u in the (1+delta) model', (rel <= 4 * u) & (rel >= -4 * u), assumptions=[d1 >= -u, d1 <= u, d2 >= -u, d2 <= u])
    obs.append(ob_dict(ob))
    return {'obligations': obs, 'candidates': cands, 'paths': len(paths)}


def run(chk):
    sc, xye = _load()
    from symex import loader

    chk.functions = loader.describe([xye.save_xye, xye.load_xye, xye._deduce_coord, xye._generate_xye_header])
    jobs = [(hv, cg, n) for hv in (True, False) for cg in (True, False) for n in ((1, 2) if chk.tier == 'quick' else (1, 2, 3))]
    run_jobs(chk, job_refusal, jobs)
    run_jobs(chk, job_roundtrip, [1, 2, 3])
    chk.bounds = {'configuration': 'ndim, number of coordinates (symbolic integers), masks / dimension-coordinate / bin-edge flags (symbolic Booleans); variances present and coord argument enumerated',
                  'rows': '1..3 with symbolic values'}
    chk.stubs = ['numpy c_/sqrt/savetxt/loadtxt: text layer = identity on doubles given >= 17 significant digits (Matula); a single row is returned 1-d as numpy does',
                 'logger -> no-op', 'DataArray -> stand-in with symbolic structural properties']
    chk.axioms = ['correctly rounded printf/strtod (trusted)', '(1+delta) rounding model for sqrt and square']
    chk.assumptions = ['numpy prefixes every header line with the comment marker (trusted)', 'bit-level equality of coordinate/values follows from the text-layer identity']


def replay_real(case):
    import io

    import numpy as np
    import scipp as sc
    from scippneutron.io import xye

    rng = np.random.default_rng(8)
    bad = []
    for n in (1, 2, 5, 50):
        vals = np.concatenate([rng.normal(size=n) * 10.0 ** rng.integers(-300, 300, size=n)])[:n]
        var = np.abs(rng.normal(size=n)) * 10.0 ** rng.integers(-200, 200, size=n)
        x = np.sort(rng.normal(size=n) * 1e3)
        da = sc.DataArray(sc.array(dims=['tof'], values=vals, variances=var, unit='counts'), coords={'tof': sc.array(dims=['tof'], values=x, unit='us')})
        for header in (xye.GenerateHeader, 'user\n# header\n1 2 3'):
            f = io.StringIO()
            xye.save_xye(f, da, header=header)
            f.seek(0)
            out = xye.load_xye(f, dim='tof', unit='counts', coord_unit='us')
            if not np.array_equal(out.coords['tof'].values, x) or not np.array_equal(out.values, vals):
                bad.append(f'n={n}: coordinate/values not bit-identical')
            if not np.allclose(out.variances, var, rtol=1e-15, atol=0):
                bad.append(f'n={n}: variances off by more than a few ulp')
    base = sc.DataArray(sc.array(dims=['tof'], values=[1.0, 2.0], variances=[1.0, 1.0], unit='counts'), coords={'tof': sc.array(dims=['tof'], values=[1.0, 2.0], unit='us')})
    refusals = [
        (sc.values(base), sc.VariancesError),
        (sc.DataArray(sc.array(dims=['a', 'tof'], values=[[1.0, 2.0]], variances=[[1.0, 1.0]]), coords={'tof': sc.array(dims=['tof'], values=[1.0, 2.0])}), sc.DimensionError),
        (base.assign_masks(m=sc.array(dims=['tof'], values=[True, False])), ValueError),
        (base.drop_coords('tof'), ValueError),
        (base.assign_coords(tof=sc.array(dims=['tof'], values=[1.0, 2.0, 3.0], unit='us')), sc.CoordError),
        (base.drop_coords('tof').assign_coords(a=base.coords['tof'], b=base.coords['tof']), ValueError),
    ]
    for da, exc in refusals:
        try:
            xye.save_xye(io.StringIO(), da)
            bad.append(f'unrepresentable data written (expected {exc.__name__})')
        except exc:
            pass
        except Exception as e:  # noqa: BLE001
            bad.append(f'wrong refusal {type(e).__name__} (expected {exc.__name__})')
    return {'reproduced': bool(bad), 'detail': '; '.join(bad[:3])}
