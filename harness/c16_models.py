"""C16 - peak and background models satisfy their analytic definitions."""
from __future__ import annotations

from fractions import Fraction

from .common import ob_dict, run_jobs

PREFIXES = ['', 'p_', 'a', 'amplitude', 'loc', 'a0', 'scale_', 'x' * 3, 'é']


def adversarial_names(prefix, name, all_names):
    """Keys that differ from prefix + name but would pass a sloppy check (same length, prefix dropped / doubled / truncated,
    suffix added, another case).  Names that are valid keys of the model are excluded."""
    valid = {prefix + n for n in all_names}
    alt = ''.join('y' if c == 'z' else chr(ord(c) + 1) if c.isascii() and c.isalnum() and c not in 'zZ9' else 'q' for c in prefix)
    cands = [alt + name, name if prefix else None, prefix + name + '_', '_' + prefix + name, (prefix[:-1] + name) if prefix else None,
             (prefix + prefix + name) if prefix else None, (prefix + name).upper(), prefix + name[1:], prefix + ' ' + name, name + prefix if prefix else None]
    out = []
    for c in cands:
        if c is not None and c not in valid and c not in out and c.isidentifier() or (c is not None and ' ' in c and c not in valid and c not in out):
            out.append(c)
    return out


from symsc.mathshim import SymMath  # noqa: E402,F401


def _load():
    from symex import loader

    sc = loader.install_shim()
    mod = loader.load('peaks.model')
    mod.math = SymMath()
    return sc, mod


def _ln2_axioms(C):
    """exp(-ln 2) = 1/2 as an assumption on the corresponding atom."""
    ln2 = C.sym_var('ln2', sign='+')
    C.CTX.assume(ln2 > Fraction(693, 1000))
    C.CTX.assume(ln2 < Fraction(694, 1000))
    return [C.rfn('exp', -ln2, sign='+') == Fraction(1, 2)]


def _setup(sc, kind):
    from symex import core as C
    from .symutil import sym_scalar, sym_unit

    ux = sym_unit('x', 'm')
    uy = sym_unit('y', 'counts')
    mu = sym_scalar('mu', ux, sign=None)
    scale = sym_scalar('scale', ux)
    C.CTX.assume(scale.value >= Fraction(1, 10**6))
    C.CTX.assume(scale.value <= 10**6)
    amp = sym_scalar('A', uy * ux, sign=None)
    frac = sc.scalar(C.sym_var('eta'), unit='dimensionless')
    C.CTX.assume(frac.value >= 0)
    C.CTX.assume(frac.value <= 1)
    return ux, uy, mu, scale, amp, frac


def job_peak(j, seed):
    kind, prefix = j
    from symex import core as C
    from symsc import variable as V
    from .symutil import fresh_run, PI

    sc, mod = _load()
    fresh_run()
    obs, cands = [], []
    tag = f'{kind}[prefix={prefix!r}]'
    case = {'kind': kind, 'prefix': prefix}
    ux, uy, mu, scale, amp, frac = _setup(sc, kind)
    ax = _ln2_axioms(C)
    cls = {'gaussian': mod.GaussianModel, 'lorentzian': mod.LorentzianModel, 'pseudo_voigt': mod.PseudoVoigtModel}[kind]
    model = cls(prefix=prefix)
    d = C.sym_var('d')
    params = {'amplitude': amp, 'loc': mu, 'scale': scale}
    if kind == 'pseudo_voigt':
        params['fraction'] = frac

    def xs(vals):
        import numpy as np

        a = np.empty((len(vals),), dtype=object)
        for i, v in enumerate(vals):
            a[i] = v
        return V.Variable(_arr=a, dims=('x',), unit=ux, dtype=V.DType.float64)

    C.CTX.fork_timeout_ms = 3000
    ln2 = C.sym_var('ln2', sign='+')
    m_, s_, A_ = mu.value, scale.value, amp.value

    def run():
        fw = model.fwhm({prefix + k: v for k, v in params.items()})
        x = xs([m_ + d, m_ - d, m_, m_ + fw.value / 2, m_ - fw.value / 2])
        V.WRITE_LOG.clear()
        y = model(x, **{prefix + k: v for k, v in params.items()})
        written = {b.id for b in V.WRITE_LOG}
        return x, y, fw, written

    paths = C.explore(run)

    def chk(name, goal, pc, sig):
        ob = C.prove(f'{tag}:{name}', goal, assumptions=ax, pc=pc, timeout_ms=20000)
        obs.append(ob_dict(ob))
        if ob.status == 'violated':
            cands.append((sig, case, name))

    n = 0
    for k, p in enumerate(paths):
        if p.inconclusive:
            obs.append({'name': f'{tag}:path{k}', 'status': 'inconclusive', 'detail': p.inconclusive[:200], 't': 0})
            continue
        if p.exc is not None:
            obs.append({'name': f'{tag}:path{k}:raises', 'status': 'violated', 'detail': repr(p.exc)[:200], 't': 0})
            cands.append(('C16:raises', case, repr(p.exc)[:100]))
            continue
        n += 1
        x, y, fw, written = p.value
        yv = list(y.values)
        # closed form (documented): exp uninterpreted, same normalised argument
        with C.oracle():
            def gauss(xx, sig):
                return A_ / (C.rsqrt(2 * PI(), nonneg=True) * sig) * C.rfn('exp', -(xx - m_) * (xx - m_) / (2 * sig * sig), sign='+')

            def lor(xx):
                return A_ * s_ / PI() / ((xx - m_) * (xx - m_) + s_ * s_)

            def closed(xx):
                if kind == 'gaussian':
                    return gauss(xx, s_)
                if kind == 'lorentzian':
                    return lor(xx)
                eta = frac.value
                return eta * lor(xx) + (1 - eta) * gauss(xx, s_ / C.rsqrt(2 * ln2, nonneg=True))

            exp_vals = [closed(v) for v in x.values]
        for i, nm in enumerate(['mu+d', 'mu-d', 'mu', 'mu+fwhm/2', 'mu-fwhm/2']):
            chk(f'path{k}:f({nm}) = documented closed form', yv[i] == exp_vals[i], p.pc, 'C16:closed-form')
        chk(f'path{k}:symmetric about the location', yv[0] == yv[1], p.pc, 'C16:symmetry')
        chk(f'path{k}:half of the peak value at loc +/- FWHM/2 (with the reported FWHM)', (2 * yv[3] == yv[2]) & (2 * yv[4] == yv[2]), p.pc, 'C16:fwhm')
        chk(f'path{k}:unit = amplitude unit / scale unit', C.B.const(y.unit == amp.unit / scale.unit), p.pc, 'C16:unit')
        chk(f'path{k}:fwhm has the unit of scale', C.B.const(fw.unit == scale.unit), p.pc, 'C16:unit')
        argb = {v._buf.id for v in (x, mu, scale, amp, frac)}
        chk(f'path{k}:no argument written', C.B.const(not (argb & written)), p.pc, 'C16:mutation')
    ob = C.prove(f'{tag}:some path returns', C.B.const(n >= 1))
    obs.append(ob_dict(ob))
    # parameter handling: missing / unknown names are refused
    for bad_params, what in (({prefix + 'amplitude': amp, prefix + 'loc': mu}, 'missing'),
                             ({**{prefix + k_: v for k_, v in params.items()}, prefix + 'bogus': mu}, 'unknown'),
                             ({k_: v for k_, v in params.items()} if prefix else None, 'unprefixed')):
        if bad_params is None:
            continue
        try:
            model(xs([m_]), **bad_params)
            ok = False
        except ValueError:
            ok = True
        except Exception:  # noqa: BLE001
            ok = False
        ob = C.prove(f'{tag}:{what} parameters refused with ValueError', C.B.const(ok))
        obs.append(ob_dict(ob))
        if not ok:
            cands.append(('C16:params', case, f'{what} parameters accepted'))
    # near-miss names: a key that is not exactly prefix + name is refused, whether it replaces the right key or comes on top
    accepted = []
    for pname in params:
        for key in adversarial_names(prefix, pname, set(params)):
            full = {prefix + k_: v for k_, v in params.items()}
            for mode in ('replaces', 'extra'):
                bp = dict(full)
                if mode == 'replaces':
                    del bp[prefix + pname]
                bp[key] = params[pname]
                for p_ in C.explore(lambda bp=bp: model(xs([m_]), **bp), max_paths=4)[:1]:
                    if p_.exc is None or not isinstance(p_.exc, ValueError):
                        accepted.append((key, mode, pname))
    ob = C.prove(f'{tag}:near-miss parameter names refused with ValueError' + (f': accepted {accepted[:3]}' if accepted else ''), C.B.const(not accepted))
    obs.append(ob_dict(ob))
    if accepted:
        cands.append(('C16:params', {**case, 'near_miss': [list(a) for a in accepted[:5]]}, f'near-miss parameter name accepted: {accepted[0]}'))
    ob = C.prove(f'{tag}:param_names carry the prefix', C.B.const(model.param_names == {prefix + k_ for k_ in params}))
    obs.append(ob_dict(ob))
    # with_prefix gives an independent model
    m2 = model.with_prefix('q_' + prefix)
    okp = model.param_names == {prefix + k_ for k_ in params} and m2.param_names == {'q_' + prefix + k_ for k_ in params}
    ob = C.prove(f'{tag}:with_prefix (of a model that has been used) gives a model with the new names and leaves the original untouched', C.B.const(okp))
    obs.append(ob_dict(ob))
    if not okp:
        cands.append(('C16:with_prefix', {**case, 'renamed_after_use': True}, f'param_names of the renamed model: {sorted(m2.param_names)}'))
    else:
        # the renamed model takes its own names and refuses the old ones
        acc = []
        for nm_, pref_ in (('new', 'q_' + prefix), ('old', prefix)):
            for p_ in C.explore(lambda pref_=pref_: m2(xs([m_]), **{pref_ + k_: v for k_, v in params.items()}), max_paths=4)[:1]:
                good = (p_.exc is None) if nm_ == 'new' else isinstance(p_.exc, ValueError)
                if not good:
                    acc.append(f'{nm_} names: {"accepted" if p_.exc is None else repr(p_.exc)[:80]}')
        ob = C.prove(f'{tag}:renamed model takes the new names and refuses the old ones' + (': ' + '; '.join(acc) if acc else ''), C.B.const(not acc))
        obs.append(ob_dict(ob))
        if acc:
            cands.append(('C16:with_prefix', {**case, 'renamed_after_use': True}, acc[0]))
    return {'obligations': obs, 'candidates': cands, 'paths': len(paths)}


def job_poly(j, seed):
    degree, prefix = j
    from symex import core as C
    from symsc import variable as V
    from symsc.units import Unit
    from .symutil import fresh_run, sym_unit, sym_array

    sc, mod = _load()
    fresh_run()
    obs, cands = [], []
    tag = f'polynomial[degree={degree},prefix={prefix!r}]'
    case = {'kind': 'polynomial', 'degree': degree, 'prefix': prefix}
    ux = sym_unit('x', 'm')
    uy = sym_unit('y', 'counts')
    x = sym_array('x', 'x', 2, ux, sign=None)
    a = [sc.scalar(C.sym_var(f'a{i}'), unit=uy / ux ** i) for i in range(degree + 1)]
    model = mod.PolynomialModel(degree=degree, prefix=prefix)
    V.WRITE_LOG.clear()
    paths = C.explore(lambda: model(x, **{f'{prefix}a{i}': a[i] for i in range(degree + 1)}))
    p = paths[0]
    if p.exc is not None or p.inconclusive or len(paths) != 1:
        obs.append({'name': f'{tag}:runs', 'status': 'inconclusive' if p.inconclusive else 'violated', 'detail': str(p.inconclusive or repr(p.exc))[:200], 't': 0})
        if p.exc is not None:
            cands.append(('C16:raises', case, repr(p.exc)[:100]))
        return {'obligations': obs, 'candidates': cands, 'paths': len(paths)}
    y = p.value
    for k in range(2):
        xv = x.values[k]
        exp = C.R.lift(0)
        for i in range(degree + 1):
            exp = exp + a[i].value * xv ** i
        ob = C.prove(f'{tag}:value[{k}] = sum a_i x^i', y.values[k] == exp)
        obs.append(ob_dict(ob))
        if ob.status == 'violated':
            cands.append(('C16:polynomial', case, 'Horner != monomial sum'))
    ob = C.prove(f'{tag}:unit of a0', C.B.const(y.unit == uy))
    obs.append(ob_dict(ob))
    written = {b.id for b in V.WRITE_LOG}
    ob = C.prove(f'{tag}:no argument written', C.B.const(not ({x._buf.id, *[t._buf.id for t in a]} & written)))
    obs.append(ob_dict(ob))
    if ob.status != 'discharged':
        cands.append(('C16:mutation', case, 'argument written'))
    return {'obligations': obs, 'candidates': cands, 'paths': 1}


def job_poly_units(j, seed):
    """Coefficient units: a polynomial evaluated with a coefficient whose unit is not a0.unit / x.unit**i (same dimension
    with another scale, e.g. K/cm for x in m, or another dimension) is either refused (UnitError) or evaluated with the
    physical value of that coefficient - never with the bare number."""
    degree, which, kind = j
    from symex import core as C
    from symsc.units import UnitError
    from .symutil import fresh_run, sym_unit, sym_array

    sc, mod = _load()
    fresh_run()
    obs, cands = [], []
    tag = f'polynomial-units[degree={degree}, a{which} in {"a scaled unit of the right dimension" if kind == "scaled" else "a unit of another dimension"}]'
    case = {'kind': 'polynomial-units', 'degree': degree, 'which': which, 'unit_kind': kind}
    ux = sym_unit('x', 'm')
    uy = sym_unit('y', 'counts')
    x = sym_array('x', 'x', 2, ux, sign=None)
    units = [uy / ux ** i for i in range(degree + 1)]
    if kind == 'scaled':
        units[which] = sym_unit('c', 'counts') / ux ** which  # scale sigma_c instead of sigma_y
    else:
        units[which] = sym_unit('c', 's')
    a = [sc.scalar(C.sym_var(f'a{i}'), unit=units[i]) for i in range(degree + 1)]
    model = mod.PolynomialModel(degree=degree, prefix='')
    paths = C.explore(lambda: model(x, **{f'a{i}': a[i] for i in range(degree + 1)}))
    for k_, p in enumerate(paths):
        if p.inconclusive:
            obs.append({'name': f'{tag}:path{k_}', 'status': 'inconclusive', 'detail': p.inconclusive[:200], 't': 0})
            continue
        if p.exc is not None:
            ok = isinstance(p.exc, UnitError)
            ob = C.prove(f'{tag}:path{k_}: refused with UnitError', C.B.const(ok), pc=p.pc)
            obs.append(ob_dict(ob))
            if not ok:
                cands.append(('C16:polynomial:units', case, f'raises {type(p.exc).__name__} instead of UnitError'))
            continue
        y = p.value
        good = C.B.const(kind == 'scaled' and y.unit.dim == uy.dim)
        if kind == 'scaled' and y.unit.dim == uy.dim:
            sx = C.R(ux.scale_rat())
            for k in range(2):
                with C.oracle():
                    exp = C.R.lift(0)
                    for i in range(degree + 1):
                        exp = exp + a[i].value * C.R(units[i].scale_rat()) * (x.values[k] * sx) ** i
                good = good & (y.values[k] * C.R(y.unit.scale_rat()) == exp)
        ob = C.prove(f'{tag}:path{k_}: a returned value is the physical sum a_i x^i', good, pc=p.pc)
        obs.append(ob_dict(ob))
        if ob.status != 'discharged':
            cands.append(('C16:polynomial:units', case, 'a coefficient in another unit is used as a bare number'))
    return {'obligations': obs, 'candidates': cands, 'paths': len(paths)}


def job_composite(j, seed):
    from symex import core as C
    from symsc import variable as V
    from .symutil import fresh_run, sym_array

    sc, mod = _load()
    fresh_run()
    obs, cands = [], []
    case = {'kind': 'composite'}
    ux, uy, mu, scale, amp, frac = _setup(sc, 'composite')
    x = sym_array('x', 'x', 2, ux, sign=None)
    a0 = sc.scalar(C.sym_var('a0'), unit=uy)
    a1 = sc.scalar(C.sym_var('a1'), unit=uy / ux)
    peak = mod.LorentzianModel(prefix='peak_')
    bkg = mod.PolynomialModel(degree=1, prefix='bkg_')
    comp = peak + bkg
    pp = {'peak_amplitude': amp, 'peak_loc': mu, 'peak_scale': scale}
    bp = {'bkg_a0': a0, 'bkg_a1': a1}
    C.CTX.fork_timeout_ms = 3000
    paths = C.explore(lambda: (comp(x, **pp, **bp), peak(x, **pp), bkg(x, **bp)))
    for k, p in enumerate(paths):
        if p.exc is not None or p.inconclusive:
            obs.append({'name': f'composite:path{k}', 'status': 'inconclusive' if p.inconclusive else 'violated', 'detail': str(p.inconclusive or repr(p.exc))[:200], 't': 0})
            continue
        c, a, b = p.value
        ob = C.prove(f'composite:path{k}:value = sum of the parts', C.all_of([c.values[i] == a.values[i] + b.values[i] for i in range(2)]), pc=p.pc)
        obs.append(ob_dict(ob))
        if ob.status == 'violated':
            cands.append(('C16:composite', case, 'composite != sum'))
    ob = C.prove('composite:param names = union', C.B.const(comp.param_names == set(pp) | set(bp)))
    obs.append(ob_dict(ob))
    try:
        mod.LorentzianModel() + mod.GaussianModel()
        ok = False
    except ValueError:
        ok = True
    ob = C.prove('composite:overlapping parameter names refused', C.B.const(ok))
    obs.append(ob_dict(ob))
    return {'obligations': obs, 'candidates': cands, 'paths': len(paths)}


def run(chk):
    sc, mod = _load()
    from symex import loader

    chk.functions = loader.describe_exprs(['mod._gaussian', 'mod._lorentzian', 'mod.PseudoVoigtModel._call', 'mod.PolynomialModel._call', 'mod.CompositeModel._call', 'mod.GaussianModel.fwhm', 'mod.LorentzianModel.fwhm', 'mod.PseudoVoigtModel.fwhm', 'mod.Model.__call__', 'mod.Model.with_prefix'], {**globals(), **locals()})
    pref = PREFIXES[:4] if chk.tier == 'quick' else PREFIXES
    run_jobs(chk, job_peak, [(k, p) for k in ('gaussian', 'lorentzian', 'pseudo_voigt') for p in pref])
    degs = [1, 2, 3, 6] if chk.tier == 'quick' else [1, 2, 3, 4, 5, 6]
    run_jobs(chk, job_poly, [(d, p) for d in degs for p in (['', 'a'] if chk.tier == 'quick' else pref)])
    run_jobs(chk, job_poly_units, [(d, w, k) for d in ((1, 2) if chk.tier == 'quick' else (1, 2, 3, 6)) for w in range(1, d + 1) for k in ('scaled', 'other')])
    run_jobs(chk, job_composite, [0])
    chk.bounds = {'parameters': 'amplitude, location any real; scale in [1e-6, 1e6]; fraction in [0,1]; symbolic unit scales for x and y',
                  'x': 'loc +/- d (d arbitrary), loc, loc +/- FWHM/2', 'degrees': degs, 'prefixes': pref}
    chk.stubs = ['scipp -> symsc', 'math -> symbolic pi, sqrt, ln 2']
    chk.axioms = ['exp uninterpreted with exp(0) = 1, exp(-ln 2) = 1/2', 'integral = amplitude follows from the closed forms (meta-lemma, not proved here)']
    chk.assumptions = ['prefix strings enumerated concretely (they select dictionary keys)']


def replay_real(case):
    import numpy as np
    import scipp as sc
    from scippneutron.peaks import model as M

    rng = np.random.default_rng(7)
    bad = []
    kind = case['kind']
    pre = case.get('prefix', '')
    if kind == 'polynomial-units':
        deg, which = case['degree'], case['which']
        m = M.PolynomialModel(degree=deg, prefix='')
        xs = np.array([0.5, 2.0, -3.0])
        x = sc.array(dims=['x'], values=xs, unit='m')
        coef = rng.uniform(0.5, 2.0, size=deg + 1)
        for bad_unit, factor in (((f'K/cm^{which}' if which > 1 else 'K/cm'), 100.0 ** which), ('s', None)):
            P = {f'a{i}': sc.scalar(float(coef[i]), unit=('K' if i == 0 else (f'K/m^{i}' if i > 1 else 'K/m'))) for i in range(deg + 1)}
            P[f'a{which}'] = sc.scalar(float(coef[which]), unit=bad_unit)
            try:
                y = m(x, **P)
            except sc.UnitError:
                continue
            except Exception as e:  # noqa: BLE001
                bad.append(f'degree {deg}, a{which} in {bad_unit}: raises {type(e).__name__} instead of UnitError')
                continue
            if factor is None:
                bad.append(f'degree {deg}: a{which} given in {bad_unit} is accepted, result labelled {y.unit}')
                continue
            exp = sum((coef[i] * (factor if i == which else 1.0)) * xs ** i for i in range(deg + 1))
            got = y.to(unit='K').values
            if not np.allclose(got, exp, rtol=1e-12):
                bad.append(f'degree {deg}: a{which} = {coef[which]!r} {bad_unit} with x in m is used as {coef[which]!r} K/m^{which}: result {got.tolist()}, physical value {exp.tolist()}')
        return {'reproduced': bool(bad), 'detail': '; '.join(bad[:2])[:500]}
    if kind in ('gaussian', 'lorentzian', 'pseudo_voigt'):
        cls = {'gaussian': M.GaussianModel, 'lorentzian': M.LorentzianModel, 'pseudo_voigt': M.PseudoVoigtModel}[kind]
        m = cls(prefix=pre)
        for trial_ in range(50):
            A, mu, s, eta = rng.normal() * 10, rng.normal() * 5, 10 ** rng.uniform(-3, 3), rng.uniform(0, 1)
            if trial_ % 5 == 0:
                mu = 0.0  # a peak located exactly at the origin of the axis (x - loc is x)
            P = {pre + 'amplitude': sc.scalar(A, unit='counts*us'), pre + 'loc': sc.scalar(mu, unit='us'), pre + 'scale': sc.scalar(s, unit='us')}
            if kind == 'pseudo_voigt':
                P[pre + 'fraction'] = sc.scalar(eta)
            fw = m.fwhm(P).value
            d = rng.uniform(0, 3 * s)
            x = sc.array(dims=['x'], values=[mu + d, mu - d, mu, mu + fw / 2, mu - fw / 2], unit='us')
            keep = {k: v.copy() for k, v in P.items()}
            xkeep = x.copy()
            try:
                y = m(x, **P).values
            except Exception as e:  # noqa: BLE001
                bad.append(f'{kind} with loc = {mu!r}: raises {type(e).__name__}: {e}'[:200])
                break
            if not sc.identical(x, xkeep):
                bad.append(f'{kind} with loc = {mu!r} us and x in us: the caller\'s x is overwritten (now {x.values.tolist()} {x.unit})')
                break
            g = lambda xx, sig: A / (np.sqrt(2 * np.pi) * sig) * np.exp(-(xx - mu) ** 2 / (2 * sig ** 2))  # noqa: E731
            lo = lambda xx: A * s / np.pi / ((xx - mu) ** 2 + s ** 2)  # noqa: E731
            f = {'gaussian': lambda xx: g(xx, s), 'lorentzian': lo, 'pseudo_voigt': lambda xx: eta * lo(xx) + (1 - eta) * g(xx, s / np.sqrt(2 * np.log(2)))}[kind]
            exp = f(x.values)
            if not np.allclose(y, exp, rtol=1e-9, atol=1e-300):
                bad.append(f'{kind}: {y} vs {exp}')
                break
            if not np.isclose(y[3], y[2] / 2, rtol=1e-9) or not np.isclose(y[0], y[1], rtol=1e-9):
                bad.append('half maximum / symmetry')
                break
            if any(not sc.identical(P[k], keep[k]) for k in P):
                bad.append('argument modified')
                break
        try:
            m(sc.array(dims=['x'], values=[0.0], unit='us'), **{pre + 'amplitude': sc.scalar(1.0), pre + 'loc': sc.scalar(0.0, unit='us')})
            bad.append('missing parameter accepted')
        except ValueError:
            pass
        if case.get('renamed_after_use'):
            x0 = sc.array(dims=['x'], values=[0.0, 1.0], unit='us')
            base = {'amplitude': sc.scalar(1.0, unit='counts*us'), 'loc': sc.scalar(0.5, unit='us'), 'scale': sc.scalar(0.3, unit='us')}
            if kind == 'pseudo_voigt':
                base['fraction'] = sc.scalar(0.4)
            used = cls(prefix=pre)
            used(x0, **{pre + k: v for k, v in base.items()})  # use it once, as a fit does
            m2 = used.with_prefix('q_' + pre)
            if m2.param_names != {'q_' + pre + k for k in base}:
                bad.append(f'with_prefix after use: param_names {sorted(m2.param_names)}')
            try:
                y2 = m2(x0, **{'q_' + pre + k: v for k, v in base.items()})
                y1 = used(x0, **{pre + k: v for k, v in base.items()})
                if not np.array_equal(y1.values, y2.values):
                    bad.append('renamed model evaluates differently')
            except Exception as e:  # noqa: BLE001
                bad.append(f'renamed model refuses its own names: {type(e).__name__}: {str(e)[:100]}')
            if pre:
                try:
                    m2(x0, **{pre + k: v for k, v in base.items()})
                    bad.append('renamed model accepts the old names')
                except ValueError:
                    pass
        for key, mode, pname in case.get('near_miss', []):
            bp = dict(P)
            if mode.startswith('replaces'):
                bp.pop(pre + pname, None)
            bp[key] = P[pre + pname]
            try:
                m(sc.array(dims=['x'], values=[0.0], unit='us'), **bp)
                bad.append(f'model with prefix {pre!r} accepts the parameter name {key!r} ({mode} {pre + pname!r})')
            except ValueError:
                pass
    elif kind == 'polynomial':
        deg = case['degree']
        m = M.PolynomialModel(degree=deg, prefix=pre)
        x = sc.array(dims=['x'], values=rng.normal(size=5), unit='us')
        a = rng.normal(size=deg + 1)
        y = m(x, **{f'{pre}a{i}': sc.scalar(a[i], unit=sc.Unit('counts') / sc.Unit('us') ** i) for i in range(deg + 1)})
        exp = sum(a[i] * x.values ** i for i in range(deg + 1))
        if not np.allclose(y.values, exp, rtol=1e-10):
            bad.append(f'polynomial {y.values} vs {exp}')
    elif kind == 'composite':
        comp = M.LorentzianModel(prefix='peak_') + M.PolynomialModel(degree=1, prefix='bkg_')
        x = sc.array(dims=['x'], values=rng.normal(size=5), unit='us')
        pp = {'peak_amplitude': sc.scalar(2.0, unit='counts*us'), 'peak_loc': sc.scalar(0.1, unit='us'), 'peak_scale': sc.scalar(0.7, unit='us')}
        bp = {'bkg_a0': sc.scalar(1.0, unit='counts'), 'bkg_a1': sc.scalar(-0.3, unit='counts/us')}
        c = comp(x, **pp, **bp)
        s = M.LorentzianModel(prefix='peak_')(x, **pp) + M.PolynomialModel(degree=1, prefix='bkg_')(x, **bp)
        if not np.allclose(c.values, s.values, rtol=1e-13):
            bad.append('composite != sum')
    return {'reproduced': bool(bad), 'detail': '; '.join(bad[:2])}
