"""C17 - peak fitting returns one coherent result per peak; removal touches only windows."""
from __future__ import annotations

import os
import sys

import itertools
from fractions import Fraction

from .common import ob_dict, run_jobs


class _NP:
    inf = float('inf')
    nan = float('nan')

    def __getattr__(self, name):
        import numpy as np

        return getattr(np, name)

    def nextafter(self, values, direction):
        import numpy as np
        from symex import core as C

        vals = np.asarray(values, dtype=object)
        out = np.empty(vals.shape, dtype=object)
        for idx in np.ndindex(vals.shape):
            _NP.n += 1
            out[idx] = vals[idx] + C.sym_var(f'ulp{_NP.n}', sign='+')
        return out

    n = 0


def _load():
    from symex import loader

    sc = loader.install_shim()
    import sys, types
    # scipp.scipy.optimize / scipy.stats are environment: stubs installed per job
    for name in ('scipp.scipy', 'scipp.scipy.optimize'):
        if name not in sys.modules:
            m = types.ModuleType(name)
            m.curve_fit = lambda *a, **k: (_ for _ in ()).throw(RuntimeError('unstubbed curve_fit'))
            sys.modules[name] = m
    model = loader.load('peaks.model')
    fp = loader.load('peaks._fit_peaks')
    rp = loader.load('peaks._remove_peaks')
    fp.np = _NP()
    return sc, model, fp, rp


def _data(sc, m, uniform=False):
    import numpy as np
    from symex import core as C
    from symsc.variable import Variable

    if uniform:
        x0, dx = C.sym_var('x0'), C.sym_var('dx', sign='+')
        xs = [x0 + i * dx for i in range(m)]
    else:
        xs = [C.sym_var(f'x{i}') for i in range(m)]
        for a, b in zip(xs, xs[1:]):
            C.CTX.assume(a < b)
    ys = [C.sym_var(f'y{i}') for i in range(m)]
    vs = [C.sym_var(f'v{i}', sign='+') for i in range(m)]

    def arr(v):
        a = np.empty((len(v),), dtype=object)
        for i, t in enumerate(v):
            a[i] = t
        return a

    da = sc.DataArray(Variable(_arr=arr(ys), _var=arr(vs), dims=('x',), unit=sc.Unit('dimensionless'), dtype=sc.DType.float64),
                      coords={'x': Variable(_arr=arr(xs), dims=('x',), unit=sc.Unit('dimensionless'), dtype=sc.DType.float64)})
    return da, xs, ys, vs


def _install_stubs(sc, model, fp, tagbox):
    """Model.guess: arbitrary values, raises on empty input (numpy/scipp contract); curve_fit: arbitrary result or RuntimeError;
    chi2(nu).cdf: uninterpreted in [0,1]."""
    import z3
    from symex import core as C

    def guess(self, data, *, coord=None):
        if len(data) == 0:
            raise ValueError('attempt to get argmax of an empty sequence')
        tagbox['g'] = tagbox.get('g', 0) + 1
        return {self._prefix + n: sc.scalar(C.sym_var(f'guess{tagbox["g"]}_{n}'), unit='dimensionless') for n in sorted(self._param_names)}

    model.Model.guess = guess
    model.CompositeModel.guess = guess

    def curve_fit(f, da, p0=None, bounds=None, **kw):
        tagbox['f'] = tagbox.get('f', 0) + 1
        k = tagbox['f']
        fails = C.B('z3', z3.Bool(f'fit{k}_fails'))
        if bool(fails):
            raise RuntimeError('Optimal parameters not found')
        popt = {}
        for name in p0:
            sign = None
            popt[name] = sc.scalar(C.sym_var(f'popt{k}_{name}', sign=sign), variance=C.sym_var(f'pvar{k}_{name}', sign='0+'), unit='dimensionless')
        return popt, None

    fp.curve_fit = curve_fit

    class Chi2:
        def __init__(self, ndof):
            self.ndof = ndof

        def cdf(self, x):
            v = C.rfn('chi2cdf', C.R.lift(self.ndof), C.R.lift(x))
            from symex import terms as T
            a = T.fn_atom_of(v.t)
            if a is not None:
                a.meta['bounds'] = (0, 1)
            return v

    fp._scipy_chi2 = Chi2


def _fit_one_public(C, sc, fp, da, xs, background, peak):
    """The per-peak fit through the PUBLIC entry point: one estimate, an explicit window that contains every data point
    (symbolic edges: lo <= first coordinate, hi > last coordinate), so that the window slice is the whole data set."""
    wlo, whi, c0 = C.sym_var('wlo'), C.sym_var('whi'), C.sym_var('estimate')
    C.CTX.assume(wlo < whi)
    if xs:
        C.CTX.assume(wlo <= xs[0])
        C.CTX.assume(whi > xs[-1])
    C.CTX.assume(wlo <= c0)
    C.CTX.assume(c0 <= whi)
    est = sc.array(dims=['x'], values=[c0], unit='dimensionless')
    win = sc.array(dims=['x', 'range'], values=[[wlo, whi]], unit='dimensionless')

    def run():
        out = fp.fit_peaks(da, peak_estimates=est, windows=win, background=background, peak=peak)
        if len(out) != 1:
            raise AssertionError(f'{len(out)} results for one estimate')
        return out[0]
    return run


def job_length(j, seed):
    """(i) for every window point count m the per-peak call returns a FitResult (window_too_narrow iff m < #parameters)."""
    m, peak_name, bkg_name = j
    from symex import core as C
    from .symutil import fresh_run

    sc, model, fp, rp = _load()
    fresh_run()
    obs, cands = [], []
    tag = f'length[m={m},{peak_name}+{bkg_name}]'
    case = {'kind': 'length', 'm': m, 'peak': peak_name, 'background': bkg_name}
    box = {}
    _install_stubs(sc, model, fp, box)
    real_assess, real_perform = fp._assess_fit, fp._perform_fit
    fp._assess_fit = lambda *a, **k: fp.FitAssessment.success  # the assessment cascade is job_assess's subject

    def perform(model_, data_, p0, bounds):
        # curve_fit outcome + statistics as arbitrary values (statistics are job_stats' subject)
        popt, _ = fp.curve_fit(None, data_, p0=p0, bounds=bounds)
        box['s'] = box.get('s', 0) + 1
        return popt, {'red_chisq': sc.scalar(C.sym_var(f'rc{box["s"]}')), 'p_value': sc.scalar(C.sym_var(f'pv{box["s"]}')), 'aic': sc.scalar(C.sym_var(f'aic{box["s"]}'))}

    fp._perform_fit = perform
    da, xs, ys, vs = _data(sc, m)
    (peak,) = fp._parse_model_spec(peak_name, prefix='peak_')
    (bkg,) = fp._parse_model_spec(bkg_name, prefix='bkg_')
    npar = len(peak.param_names | bkg.param_names)
    C.CTX.fork_timeout_ms = 2000
    try:
        # through the public entry point, so that changes of the private per-peak / per-model helpers are followed
        paths = C.explore(_fit_one_public(C, sc, fp, da, xs, bkg_name, peak_name), max_paths=64)
    finally:
        fp._assess_fit, fp._perform_fit = real_assess, real_perform
    for k, p in enumerate(paths):
        if p.inconclusive:
            obs.append({'name': f'{tag}:path{k}', 'status': 'inconclusive', 'detail': p.inconclusive[:200], 't': 0})
            continue
        if p.exc is not None:
            obs.append({'name': f'{tag}:path{k}:returns a FitResult instead of raising', 'status': 'violated', 'detail': repr(p.exc)[:200], 't': 0})
            cands.append(('C17:length:raises', case, f'm={m}: {p.exc!r}'[:150]))
            continue
        r = p.value
        want_narrow = m < npar
        ok = isinstance(r, fp.FitResult) and ((r.assessment == fp.FitAssessment.window_too_narrow) == want_narrow)
        ob = C.prove(f'{tag}:path{k}:FitResult, window_too_narrow iff fewer points ({m}) than parameters ({npar})', C.B.const(bool(ok)), pc=p.pc)
        obs.append(ob_dict(ob))
        if not ok:
            cands.append(('C17:length:assessment', case, f'assessment {getattr(r, "assessment", None)}'))
    return {'obligations': obs, 'candidates': cands, 'paths': len(paths)}


def job_bkgstats(j, seed):
    """Every candidate (peak model, background model) is assessed against the background-only fit of ITS OWN background
    model, and against its own full fit: with the optimiser boundary (_perform_fit) returning tagged statistics and the
    assessment replaced by a recorder, the statistics handed to the assessment are identified by object."""
    peak_names, bkg_names = j
    from symex import core as C
    from .symutil import fresh_run

    sc, model, fp, rp = _load()
    fresh_run()
    obs, cands = [], []
    tag = f'bkgstats[{"+".join(peak_names)} x {"+".join(bkg_names)}]'
    case = {'kind': 'bkgstats', 'peaks': list(peak_names), 'backgrounds': list(bkg_names)}
    box = {}
    _install_stubs(sc, model, fp, box)
    real_assess, real_perform = fp._assess_fit, fp._perform_fit
    produced = []   # (frozenset(param names of the fitted model), stats dict)
    assessed = []   # (peak model, stats, bkg stats)

    def perform(model_, data_, p0, bounds):
        box['s'] = box.get('s', 0) + 1
        popt = {name: sc.scalar(C.sym_var(f'popt{box["s"]}_{name}'), variance=C.sym_var(f'pvar{box["s"]}_{name}', sign='0+'), unit='dimensionless') for name in p0}
        st = {'red_chisq': sc.scalar(C.sym_var(f'rc{box["s"]}')), 'p_value': sc.scalar(C.sym_var(f'pv{box["s"]}')), 'aic': sc.scalar(C.sym_var(f'aic{box["s"]}'))}
        produced.append((frozenset(model_.param_names), st))
        return popt, st

    def assess(data_, peak_, popt, stats, bkg_stats, **kw):
        assessed.append((peak_, popt, stats, bkg_stats))
        return fp.FitAssessment.failed  # keep the loop going through every candidate

    fp._perform_fit, fp._assess_fit = perform, assess
    da, xs, ys, vs = _data(sc, 9)
    peaks = fp._parse_model_spec(tuple(peak_names), prefix='peak_')
    bkgs = fp._parse_model_spec(tuple(bkg_names), prefix='bkg_')
    one = _fit_one_public(C, sc, fp, da, xs, tuple(bkg_names), tuple(peak_names))
    try:
        def run():
            produced.clear()
            assessed.clear()
            r = one()
            return r, list(produced), list(assessed)
        paths = C.explore(run, max_paths=16)
    finally:
        fp._assess_fit, fp._perform_fit = real_assess, real_perform
    for k, p in enumerate(paths):
        if p.inconclusive or p.exc is not None:
            obs.append({'name': f'{tag}:path{k}', 'status': 'inconclusive' if p.inconclusive else 'violated', 'detail': str(p.inconclusive or repr(p.exc))[:200], 't': 0})
            if p.exc is not None:
                cands.append(('C17:bkgstats:raises', case, repr(p.exc)[:100]))
            continue
        r, prod, asd = p.value
        want = [(pk, bg) for pk in peaks for bg in bkgs]
        ok_n = len(asd) == len(want)
        bad = []
        for (pk, bg), (apk, popt, st, bst) in zip(want, asd):
            full_key = frozenset(pk.param_names | bg.param_names)
            own_full = [s_ for k_, s_ in prod if k_ == full_key]
            own_bkg = [s_ for k_, s_ in prod if k_ == frozenset(bg.param_names)]
            if type(apk) is not type(pk) or apk.param_names != pk.param_names:
                bad.append(f'candidate ({type(pk).__name__}, degree {len(bg.param_names) - 1}) assessed with another peak model')
            if not any(st is s_ for s_ in own_full):
                bad.append(f'candidate with background of {len(bg.param_names)} parameters assessed with statistics of another fit')
            if bst is not None and not any(bst is s_ for s_ in own_bkg):
                whose = [len(k_) for k_, s_ in prod if s_ is bst]
                bad.append(f'candidate with background of {len(bg.param_names)} parameters compared with the background-only fit of a model with {whose} parameters')
        ob = C.prove(f'{tag}:path{k}:{len(want)} candidates in product order, each assessed against its own fit and its own background-only fit' + (': ' + bad[0] if bad else ''),
                     C.B.const(ok_n and not bad), pc=p.pc)
        obs.append(ob_dict(ob))
        if ob.status != 'discharged':
            cands.append(('C17:bkgstats', case, bad[0] if bad else f'{len(asd)} candidates assessed, {len(want)} expected'))
    return {'obligations': obs, 'candidates': cands, 'paths': len(paths)}


def job_stats(j, seed):
    """(iii) red. chi-square, p-value, AIC are those recomputed from parameters and data."""
    n, k = j
    import numpy as np
    from symex import core as C
    from symsc.variable import Variable
    from .symutil import fresh_run

    sc, model, fp, rp = _load()
    fresh_run()
    obs, cands = [], []
    case = {'kind': 'stats', 'n': n, 'k': k}
    box = {}
    _install_stubs(sc, model, fp, box)
    da, xs, ys, vs = _data(sc, n)
    fit = [C.sym_var(f'f{i}') for i in range(n)]
    a = np.empty((n,), dtype=object)
    for i, t in enumerate(fit):
        a[i] = t
    best = sc.DataArray(Variable(_arr=a, dims=('x',), unit=sc.Unit('dimensionless'), dtype=sc.DType.float64), coords=dict(da.coords))
    params = {f'p{i}': sc.scalar(1.0) for i in range(k)}
    C.CTX.fork_timeout_ms = 2000
    paths = C.explore(lambda: fp._goodness_of_fit_statistics(da, best, params))
    for kk, p in enumerate(paths):
        if isinstance(p.exc, TypeError | AttributeError) and '_goodness_of_fit_statistics' in repr(p.exc):
            # the private helper no longer has the signature this job calls it with (refactoring): job_stats_public covers the clause
            obs.append({'name': f'stats[n={n},k={k}]:private helper callable as (data, best_fit, params)', 'status': 'inconclusive', 'detail': repr(p.exc)[:160], 't': 0})
            continue
        if p.exc is not None or p.inconclusive:
            obs.append({'name': f'stats[n={n},k={k}]:path{kk}', 'status': 'inconclusive' if p.inconclusive else 'violated', 'detail': str(p.inconclusive or repr(p.exc))[:200], 't': 0})
            if p.exc is not None:
                cands.append(('C17:stats:raises', case, repr(p.exc)[:100]))
            continue
        st = p.value
        with C.oracle():
            chi2 = sum(((ys[i] - fit[i]) ** 2 / vs[i] for i in range(n)), C.R.lift(0))
        goals = {}
        if n - k != 0:
            goals['reduced chi-square = chi2 / (n - k)'] = st['red_chisq'].value == chi2 / (n - k)
        goals['p-value = 1 - F_nu(chi2)'] = st['p_value'].value == 1 - C.rfn('chi2cdf', C.R.lift(n - k), chi2)
        v = st['aic'].value
        if not v.special:
            with C.oracle():
                goals['AIC = n log(chi2 / n) + 2 k'] = v == n * C.rfn('log', chi2 / n) + 2 * k
        for nm, g in goals.items():
            ob = C.prove(f'stats[n={n},k={k}]:path{kk}:{nm}', g, pc=p.pc)
            obs.append(ob_dict(ob))
            if ob.status == 'violated':
                cands.append(('C17:stats', case, nm))
    return {'obligations': obs, 'candidates': cands, 'paths': len(paths)}


def job_stats_public(j, seed):
    """(iii) through the public entry point: with the optimiser returning arbitrary parameters, the reduced chi-square,
    p-value and AIC REPORTED in the FitResult are those recomputed from the returned parameters (FitResult.eval_model)
    and the data in the window."""
    n, peak_name, bkg_name = j
    from symex import core as C
    from .symutil import fresh_run

    sc, model, fp, rp = _load()
    fresh_run()
    obs, cands = [], []
    tag = f'stats-public[n={n},{peak_name}+{bkg_name}]'
    case = {'kind': 'stats', 'n': n, 'k': 0}
    box = {}
    _install_stubs(sc, model, fp, box)
    real_assess = getattr(fp, '_assess_fit', None)
    if real_assess is not None:
        fp._assess_fit = lambda *a, **k: fp.FitAssessment.success  # the assessment is job_assess's subject
    da, xs, ys, vs = _data(sc, n)
    C.CTX.fork_timeout_ms = 2000
    one = _fit_one_public(C, sc, fp, da, xs, bkg_name, peak_name)
    # evaluating a model is C16's subject: here a model value is an uninterpreted function of (model, parameter values, x),
    # the same arguments giving the same values (so that the oracle's re-evaluation meets the implementation's)
    memo = {}
    real_call = model.Model.__call__

    def call(self, x, **params):
        import numpy as np
        from symsc.variable import Variable

        key = (type(self).__name__, tuple(sorted((k_, repr(getattr(v_, 'value', v_))) for k_, v_ in params.items())), tuple(repr(t_) for t_ in x.values))
        if key not in memo:
            a = np.empty((len(x.values),), dtype=object)
            for i_ in range(len(a)):
                a[i_] = C.sym_var(f'model{len(memo)}_{i_}')
            memo[key] = a
        return Variable(_arr=memo[key].copy(), dims=x.dims, unit=sc.Unit('dimensionless'), dtype=sc.DType.float64)

    model.Model.__call__ = call
    comp_call = model.CompositeModel.__dict__.get('__call__')
    if comp_call is not None:
        model.CompositeModel.__call__ = call

    def run():
        r_ = one()
        best_ = r_.eval_model(da.coords['x']) if r_.popt else None  # public; evaluated on the same path
        return r_, best_

    try:
        paths = C.explore(run, max_paths=64)
    finally:
        model.Model.__call__ = real_call
        if comp_call is not None:
            model.CompositeModel.__call__ = comp_call
        if real_assess is not None:
            fp._assess_fit = real_assess
    nok = 0
    for kk, p in enumerate(paths):
        if p.inconclusive:
            obs.append({'name': f'{tag}:path{kk}', 'status': 'inconclusive', 'detail': p.inconclusive[:200], 't': 0})
            continue
        if p.exc is not None:
            obs.append({'name': f'{tag}:path{kk}:returns', 'status': 'violated', 'detail': repr(p.exc)[:200], 't': 0})
            cands.append(('C17:stats:raises', case, repr(p.exc)[:100]))
            continue
        r, best = p.value
        if best is None or getattr(r.red_chisq.value, 'special', None) == 'nan':
            continue  # failed fit (the optimiser stub may raise): the result carries NaN statistics, nothing to compare
        nok += 1
        k = len(r.popt)
        f = list(best.values)
        with C.oracle():
            chi2 = sum(((ys[i] - f[i]) ** 2 / vs[i] for i in range(n)), C.R.lift(0))
        goals = {}
        if n - k != 0:
            goals[f'reported reduced chi-square = chi2 / ({n} - {k})'] = r.red_chisq.value == chi2 / (n - k)
        goals['reported p-value = 1 - F_nu(chi2)'] = r.p_value.value == 1 - C.rfn('chi2cdf', C.R.lift(n - k), chi2)
        v = r.aic.value
        if not v.special:
            with C.oracle():
                goals['reported AIC = n log(chi2 / n) + 2 k'] = v == n * C.rfn('log', chi2 / n) + 2 * k
        if os.environ.get('C17_DEBUG'):
            print('PATH', kk, [repr(b)[:80] for b in p.pc], 'red', repr(r.red_chisq.value)[:200], 'chi2', repr(chi2)[:200], file=sys.stderr)
        for nm, g in goals.items():
            ob = C.prove(f'{tag}:path{kk}:{nm}', g, pc=p.pc, timeout_ms=30000)
            obs.append(ob_dict(ob))
            if ob.status == 'violated':
                cands.append(('C17:stats', {**case, 'k': k}, nm))
    ob = C.prove(f'{tag}:some fit returns statistics', C.B.const(nok >= 1))
    obs.append(ob_dict(ob))
    return {'obligations': obs, 'candidates': cands, 'paths': len(paths)}


def job_assess(j, seed):
    """(iv) a result marked successful satisfies every stated requirement (non-uniform grids; index arithmetic in range)."""
    n, peak_name, *more = j
    symreq = bool(more and more[0])  # requirements given by the caller (arbitrary factors) instead of the defaults
    from symex import core as C
    from .symutil import fresh_run

    sc, model, fp, rp = _load()
    fresh_run()
    obs, cands = [], []
    tag = f'assess[n={n},{peak_name}' + (',caller-supplied requirements]' if symreq else ']')
    case = {'kind': 'assess', 'n': n, 'peak': peak_name, 'custom_requirements': symreq}
    model.math = __import__('harness.c16_models', fromlist=['SymMath']).SymMath()
    ln2 = C.sym_var('ln2', sign='+')
    C.CTX.assume(ln2 > Fraction(693, 1000))
    C.CTX.assume(ln2 < Fraction(694, 1000))
    da, xs, ys, vs = _data(sc, n)
    (peak,) = fp._parse_model_spec(peak_name, prefix='peak_')
    loc, amp, scale = C.sym_var('loc'), C.sym_var('amp'), C.sym_var('scale', sign='+')
    popt = {'peak_loc': sc.scalar(loc), 'peak_amplitude': sc.scalar(amp), 'peak_scale': sc.scalar(scale), 'bkg_a0': sc.scalar(0.0), 'bkg_a1': sc.scalar(0.0)}
    if peak_name == 'pseudo_voigt':
        popt['peak_fraction'] = sc.scalar(C.sym_var('eta'))
    pval, aic, baic = C.sym_var('pval'), C.sym_var('aic'), C.sym_var('bkg_aic')
    stats = {'red_chisq': sc.scalar(1.0), 'p_value': sc.scalar(pval), 'aic': sc.scalar(aic)}
    bstats = {'red_chisq': sc.scalar(1.0), 'p_value': sc.scalar(0.5), 'aic': sc.scalar(baic)}
    req = fp.FitRequirements()
    r_pmin, r_fmax, r_fmin = Fraction(req.min_p_value), Fraction(req.max_peak_width_factor), Fraction(req.min_peak_width_factor)
    if symreq:
        r_pmin, r_fmax, r_fmin = C.sym_var('req_min_p', sign='+'), C.sym_var('req_max_width_factor', sign='+'), C.sym_var('req_min_width_factor', sign='+')
        C.CTX.assume(r_pmin < 1)
        req = fp.FitRequirements(min_p_value=r_pmin, max_peak_width_factor=r_fmax, min_peak_width_factor=r_fmin)
    C.CTX.fork_timeout_ms = 2000
    paths = C.explore(lambda: fp._assess_fit(da, peak, popt, stats, bstats, fit_requirements=req), max_paths=3000)
    with C.oracle():
        fwhm = peak.fwhm(popt).value
    steps = [xs[i + 1] - xs[i] for i in range(n - 1)]
    nsucc = 0
    for k, p in enumerate(paths):
        if p.inconclusive:
            obs.append({'name': f'{tag}:path{k}', 'status': 'inconclusive', 'detail': p.inconclusive[:200], 't': 0})
            continue
        if p.exc is not None:
            obs.append({'name': f'{tag}:path{k}:assessment returns', 'status': 'violated', 'detail': repr(p.exc)[:200], 't': 0})
            m = C.solve([*C.CTX.assumptions, *p.pc])
            mod = {k_: float(v) for k_, v in (m.model or {}).items()} if m.status == 'sat' else {}
            cands.append(('C17:assess:raises', {**case, 'model': mod}, repr(p.exc)[:100]))
            continue
        if p.value != fp.FitAssessment.success:
            continue
        nsucc += 1
        # documented requirements
        mins = C.all_of([C.any_of([s_ <= t_ for t_ in steps]) for s_ in steps])  # placeholder true
        near = C.any_of([(loc - xs[0] < 2 * s_) | (xs[-1] - loc < 2 * s_) for s_ in steps])  # holds for the minimal step iff for some step? no: use min explicitly
        # min step as a fresh variable
        ms = C.sym_var('minstep', sign='+')
        defs = [*[ms <= s_ for s_ in steps], C.any_of([ms == s_ for s_ in steps])]
        goals = {
            'background not better (AIC)': ~(baic < aic),
            'p-value >= minimum': pval >= r_pmin,
            'not within two steps of either edge': (loc - xs[0] >= 2 * ms) & (xs[-1] - loc >= 2 * ms),
            'amplitude not negative': amp >= 0,
            'FWHM <= max factor * window width': fwhm <= r_fmax * (xs[-1] - xs[0]),
        }
        for nm, g in goals.items():
            ob = C.prove(f'{tag}:path{k}:success => {nm}', g, assumptions=defs, pc=p.pc, timeout_ms=20000)
            obs.append(ob_dict(ob))
            if ob.status == 'violated':
                cands.append(('C17:assess:' + nm.split()[0], {**case, 'model': {k_: float(v) for k_, v in (ob.model or {}).items()}}, nm))
        # width test: spacing of the coordinate around the grid point nearest to the centre
        # (mean of the neighbouring intervals that exist: one-sided at the ends of the grid, never a wrapped index)
        width_ok = C.FALSE
        for c in range(n):
            lo_, hi_ = max(c - 1, 0), min(c + 1, n - 1)
            nearest = C.all_of([abs(xs[c] - loc) <= abs(xs[i] - loc) for i in range(n)])
            width_ok = width_ok | (nearest & (fwhm >= r_fmin * (xs[hi_] - xs[lo_]) / (hi_ - lo_)))
        ob = C.prove(f'{tag}:path{k}:success => FWHM >= min factor * coordinate spacing around the nearest grid point', width_ok, assumptions=defs, pc=p.pc, timeout_ms=30000)
        obs.append(ob_dict(ob))
        if ob.status == 'violated':
            cands.append(('C17:assess:width-index', {**case, 'model': {k_: float(v) for k_, v in (ob.model or {}).items()}}, 'width test uses a spacing that is not around the peak centre'))
    ob = C.prove(f'{tag}:success reachable', C.B.const(nsucc >= 1))
    obs.append(ob_dict(ob))
    return {'obligations': obs, 'candidates': cands, 'paths': len(paths)}


def job_windows(j, seed):
    """(v) automatic windows stay inside the data range, contain their estimate and keep the stated distance from neighbours."""
    npk = j
    from symex import core as C
    from .symutil import fresh_run

    sc, model, fp, rp = _load()
    fresh_run()
    _NP.n = 0
    obs, cands = [], []
    case = {'kind': 'windows', 'npeaks': npk}
    lo, hi = C.sym_var('lo'), C.sym_var('hi')
    C.CTX.assume(lo < hi)
    da = sc.DataArray(sc.array(dims=['x'], values=[1.0, 2.0, 3.0]), coords={'x': sc.array(dims=['x'], values=[lo, (lo + hi) / 2, hi])})
    # estimates sorted (the documented requirement), anywhere on the axis: an estimate outside the data range is
    # not refused by fit_peaks, it has to end in an (empty) window inside the range, not in an inverted or outlying one
    cs = [C.sym_var(f'c{i}') for i in range(npk)]
    for a, b in zip(cs, cs[1:]):
        C.CTX.assume(a <= b)
    w = C.sym_var('width', sign='+')
    centers = sc.array(dims=['x'], values=cs)
    params = fp.FitParameters()
    fac = Fraction(params.neighbor_separation_factor)
    C.CTX.fork_timeout_ms = 2000
    paths = C.explore(lambda: fp._fit_windows(da, centers, sc.scalar(w), params), max_paths=2000)
    for k, p in enumerate(paths):
        if p.exc is not None or p.inconclusive:
            obs.append({'name': f'windows[{npk}]:path{k}', 'status': 'inconclusive' if p.inconclusive else 'violated', 'detail': str(p.inconclusive or repr(p.exc))[:200], 't': 0})
            if p.exc is not None:
                cands.append(('C17:windows:raises', case, repr(p.exc)[:100]))
            continue
        win = p.value
        good = C.TRUE
        for i in range(npk):
            l, r = win.values[i][0], win.values[i][1]
            inrange = (lo <= cs[i]) & (cs[i] <= hi)
            good = good & (lo <= l) & (l <= r) & (r <= hi) & (~inrange | ((l <= cs[i]) & (cs[i] <= r)))
            # the distance to a neighbour is owed by every window that can hold a point (l < r)
            if i > 0:
                good = good & (~(l < r) | (l >= cs[i - 1] + (cs[i] - cs[i - 1]) * fac))
            if i < npk - 1:
                good = good & (~(l < r) | (r <= cs[i + 1] - (cs[i + 1] - cs[i]) * fac))
        ob = C.prove(f'windows[{npk}]:path{k}:inside the data range and not inverted (any estimate), contain an in-range estimate, keep the neighbour separation', good, pc=p.pc, timeout_ms=20000)
        obs.append(ob_dict(ob))
        if ob.status == 'violated':
            cands.append(('C17:windows', {**case, 'model': {k_: float(v) for k_, v in (ob.model or {}).items()}}, 'window property'))
    return {'obligations': obs, 'candidates': cands, 'paths': len(paths)}


def job_loop(j, seed):
    """(ii) one result per estimate, in order, each from its own window slice; model product order, first success wins."""
    from symex import core as C
    from .symutil import fresh_run

    sc, model, fp, rp = _load()
    fresh_run()
    obs, cands = [], []
    case = {'kind': 'loop'}
    da, xs, ys, vs = _data(sc, 3)
    wins = [[C.sym_var(f'w{i}lo'), C.sym_var(f'w{i}hi')] for i in range(2)]
    windows = sc.array(dims=['x', 'range'], values=wins)
    rec = []
    if not hasattr(fp, '_fit_peak') or not hasattr(fp, '_fit_peak_single_model'):
        obs.append({'name': 'loop:per-peak and per-model helpers can be replaced by recorders', 'status': 'inconclusive', 'detail': 'helpers _fit_peak / _fit_peak_single_model not found (renamed): dispatch order not checked', 't': 0})
        return {'obligations': obs, 'candidates': cands, 'paths': 0}
    real = fp._fit_peak

    def fake(data, window, backgrounds, peaks, fpar, freq):
        rec.append((data, window, backgrounds, peaks))
        return f'result{len(rec)}'

    fp._fit_peak = fake
    C.CTX.fork_timeout_ms = 2000
    try:
        def run():
            rec.clear()
            out = fp.fit_peaks(da, peak_estimates=sc.array(dims=['x'], values=[1.0, 2.0]), windows=windows, background=('linear', 'quadratic'), peak='gaussian')
            return out, list(rec)
        paths = C.explore(run, max_paths=600)
    finally:
        fp._fit_peak = real
    for k, p in enumerate(paths[:400]):
        if p.exc is not None or p.inconclusive:
            obs.append({'name': f'loop:path{k}', 'status': 'inconclusive' if p.inconclusive else 'violated', 'detail': str(p.inconclusive or repr(p.exc))[:200], 't': 0})
            continue
        out, calls = p.value
        ok = out == ['result1', 'result2'] and len(calls) == 2
        good = C.B.const(bool(ok))
        if ok:
            for i, (d, wdw, bk, pk) in enumerate(calls):
                good = good & (wdw.values[0] == wins[i][0]) & (wdw.values[1] == wins[i][1])
                # slice = points with lo <= x < hi, in order
                sel = list(d.coords['x'].values)
                inside = [(xs[q] >= wins[i][0]) & (xs[q] < wins[i][1]) for q in range(3)]
                # the selected coordinates are exactly the inside ones (path condition decides them)
                cond = C.TRUE
                qsel = 0
                for q in range(3):
                    is_sel = any((s_ - xs[q]).t.is_zero() for s_ in sel)
                    cond = cond & (inside[q] if is_sel else ~inside[q])
                good = good & cond
                good = good & C.B.const(len(bk) == 2 and len(pk) == 1 and bk[0].degree == 1 and bk[1].degree == 2)
        ob = C.prove(f'loop:path{k}:one result per estimate, in order, each from its own window slice', good, pc=p.pc)
        obs.append(ob_dict(ob))
        if ob.status == 'violated':
            cands.append(('C17:loop', case, 'loop'))
    # product order / first success wins
    order = []
    real_single = fp._fit_peak_single_model

    class R:
        def __init__(self, a):
            self.assessment = a

    def fake_single(data, peak, background, window, fit_parameters, fit_requirements, **_kw):
        order.append((type(peak).__name__, background.degree))
        return R(fp.FitAssessment.success if len(order) == 3 else fp.FitAssessment.p_too_small)

    fp._fit_peak_single_model = fake_single
    try:
        peaks = fp._parse_model_spec(('gaussian', 'lorentzian'), prefix='peak_')
        bkgs = fp._parse_model_spec(('linear', 'quadratic'), prefix='bkg_')
        res = fp._fit_peak(da, sc.array(dims=['range'], values=[0.0, 1.0]), bkgs, peaks, fp.FitParameters(), fp.FitRequirements())
        ok = order == [('GaussianModel', 1), ('GaussianModel', 2), ('LorentzianModel', 1)] and res.assessment == fp.FitAssessment.success
        order.clear()
        fp._fit_peak_single_model = lambda *a, **k: (order.append(1), R(fp.FitAssessment.p_too_small if len(order) == 1 else fp.FitAssessment.failed))[1]
        res2 = fp._fit_peak(da, sc.array(dims=['range'], values=[0.0, 1.0]), bkgs, peaks, fp.FitParameters(), fp.FitRequirements())
        ok = ok and len(order) == 4 and res2.assessment == fp.FitAssessment.p_too_small
    finally:
        fp._fit_peak_single_model = real_single
    ob = C.prove('loop:documented model product order; first success wins; otherwise the first candidate', C.B.const(bool(ok)))
    obs.append(ob_dict(ob))
    if not ok:
        cands.append(('C17:loop', {**case, 'what': 'order'}, 'model order'))
    return {'obligations': obs, 'candidates': cands, 'paths': len(paths)}


def job_remove(j, seed):
    """(vi) remove_peaks: inputs unwritten; outside successful windows unchanged; inside, minus the fitted peak."""
    from symex import core as C
    from symsc import variable as V
    from .symutil import fresh_run

    sc, model, fp, rp = _load()
    fresh_run()
    obs, cands = [], []
    case = {'kind': 'remove'}
    model.math = __import__('harness.c16_models', fromlist=['SymMath']).SymMath()
    NPT = 3  # grid points: every placement of the four window bounds relative to them is a path
    da, xs, ys, vs = _data(sc, NPT)
    data = sc.DataArray(sc.values(da.data) if False else V.Variable(_arr=da.data._a.copy(), dims=('x',), unit=sc.Unit('dimensionless'), dtype=sc.DType.float64), coords=dict(da.coords))
    peak = model.LorentzianModel(prefix='peak_')
    bkg = model.PolynomialModel(degree=1, prefix='bkg_')
    A, mu, s = C.sym_var('A'), C.sym_var('mu'), C.sym_var('s', sign='+')
    C.CTX.assume(s >= Fraction(1, 10**6))
    popt = {'peak_amplitude': sc.scalar(A, variance=1.0), 'peak_loc': sc.scalar(mu, variance=1.0), 'peak_scale': sc.scalar(s, variance=1.0),
            'bkg_a0': sc.scalar(C.sym_var('a0')), 'bkg_a1': sc.scalar(C.sym_var('a1'))}
    wl, wh = C.sym_var('wl'), C.sym_var('wh')
    mk = lambda assess, lo_, hi_: fp.FitResult(aic=sc.scalar(0.0), assessment=assess, background=bkg, message='', p_value=sc.scalar(1.0), peak=peak, popt=popt,  # noqa: E731
                                               red_chisq=sc.scalar(1.0), window=sc.array(dims=['range'], values=[lo_, hi_]))
    # a second successful result with its own window and parameters: windows of neighbouring peaks may overlap, and in the
    # overlap both fitted peaks are subtracted
    A2, mu2, s2 = C.sym_var('A2'), C.sym_var('mu2'), C.sym_var('s2', sign='+')
    C.CTX.assume(s2 >= Fraction(1, 10**6))
    popt2 = {**popt, 'peak_amplitude': sc.scalar(A2, variance=1.0), 'peak_loc': sc.scalar(mu2, variance=1.0), 'peak_scale': sc.scalar(s2, variance=1.0)}
    wl2, wh2 = C.sym_var('wl2'), C.sym_var('wh2')
    second = fp.FitResult(aic=sc.scalar(0.0), assessment=fp.FitAssessment.success, background=bkg, message='', p_value=sc.scalar(1.0), peak=peak, popt=popt2,
                          red_chisq=sc.scalar(1.0), window=sc.array(dims=['range'], values=[wl2, wh2]))
    results = [mk(fp.FitAssessment.success, wl, wh), mk(fp.FitAssessment.p_too_small, xs[0], xs[-1]), second]
    C.CTX.fork_timeout_ms = 2000

    def run():
        V.WRITE_LOG.clear()
        out = rp.remove_peaks(data, results)
        return out, {b.id for b in V.WRITE_LOG}

    paths = C.explore(run, max_paths=600)
    from symex import terms as T
    for k, p in enumerate(paths):
        if p.exc is not None or p.inconclusive:
            obs.append({'name': f'remove:path{k}', 'status': 'inconclusive' if p.inconclusive else 'violated', 'detail': str(p.inconclusive or repr(p.exc))[:200], 't': 0})
            if p.exc is not None:
                cands.append(('C17:remove:raises', case, repr(p.exc)[:100]))
            continue
        out, written = p.value
        good = C.TRUE
        for i in range(NPT):
            inside = (xs[i] >= wl) & (xs[i] < wh)
            inside2 = (xs[i] >= wl2) & (xs[i] < wh2)
            with C.oracle():
                pk = A * s / C.R(T.PI()) / ((xs[i] - mu) ** 2 + s * s)
                pk2 = A2 * s2 / C.R(T.PI()) / ((xs[i] - mu2) ** 2 + s2 * s2)
            o = out.data.values[i]
            good = good & ((inside & inside2 & (o == ys[i] - pk - pk2)) | (inside & ~inside2 & (o == ys[i] - pk)) | (~inside & inside2 & (o == ys[i] - pk2)) | (~inside & ~inside2 & (o == ys[i])))
        ob = C.prove(f'remove:path{k}:unchanged outside successful windows, minus the fitted peak inside', good, pc=p.pc, timeout_ms=20000)
        obs.append(ob_dict(ob))
        if ob.status == 'violated':
            cands.append(('C17:remove:values', case, 'values'))
        argb = {data.data._buf.id, data.coords['x']._buf.id, *[v._buf.id for v in popt.values()], *[v._buf.id for v in popt2.values()]}
        unchanged = all((a - b).t.is_zero() for a, b in zip(data.data.values, ys, strict=True))
        ob = C.prove(f'remove:path{k}:input not modified', C.B.const(not (argb & written) and unchanged), pc=p.pc)
        obs.append(ob_dict(ob))
        if ob.status != 'discharged':
            cands.append(('C17:remove:mutation', case, 'input modified'))
    return {'obligations': obs, 'candidates': cands, 'paths': len(paths)}


def run(chk):
    sc, model, fp, rp = _load()
    from symex import loader

    chk.functions = loader.describe_exprs(['fp.fit_peaks', 'fp._fit_peak', 'fp._fit_peak_single_model', 'fp._guess_background', 'fp._guess_peak', 'fp._goodness_of_fit_statistics', 'fp._chi_square', 'fp._akaike_information_criterion', 'fp._assess_fit', 'fp._peak_is_near_edge', 'fp._peak_is_too_wide', 'fp._peak_is_too_narrow', 'fp._fit_windows', 'fp._clip_to_data_range', 'fp._separate_from_neighbors_in_place', 'fp._parse_model_spec', 'rp.remove_peaks', 'fp.FitResult.for_failure', 'fp.FitResult.eval_peak'], {**globals(), **locals()})
    ms = list(range(0, 9)) if chk.tier == 'quick' else list(range(0, 13))
    run_jobs(chk, job_length, [(m, 'gaussian', 'linear') for m in ms] + [(m, 'pseudo_voigt', 'quadratic') for m in ms[::2]])
    run_jobs(chk, job_stats, [(3, 2), (4, 2), (2, 2), (4, 5)])
    run_jobs(chk, job_stats_public, [(6, 'gaussian', 'linear'), (7, 'lorentzian', 'quadratic')])
    run_jobs(chk, job_bkgstats, [(('gaussian',), ('linear', 'quadratic')), (('gaussian', 'lorentzian'), ('linear', 'quadratic'))] + ([] if chk.tier == 'quick' else [(('pseudo_voigt', 'gaussian', 'lorentzian'), ('quadratic', 'linear'))]))
    run_jobs(chk, job_assess, [(4, 'gaussian'), (5, 'lorentzian'), (4, 'gaussian', True)] if chk.tier == 'quick' else [(4, 'gaussian'), (5, 'gaussian'), (5, 'lorentzian'), (5, 'pseudo_voigt'), (4, 'gaussian', True), (5, 'lorentzian', True)])
    run_jobs(chk, job_windows, [1, 2, 3])
    run_jobs(chk, job_loop, [0])
    run_jobs(chk, job_remove, [0])
    chk.bounds = {'window point counts': ms, 'statistics': 'n <= 4 points', 'assessment': 'ascending non-uniform grids of 4..5 points, symbolic fitted parameters and statistics',
                  'windows': '1..3 estimates inside the data range', 'removal': '4 points, one successful and one failed result'}
    chk.stubs = ['curve_fit -> arbitrary parameters or RuntimeError', 'Model.guess -> arbitrary values, raises on empty input (numpy/scipp contract)',
                 'chi2(nu).cdf -> uninterpreted in [0,1]', 'numpy.nextafter -> x + positive ulp', 'math -> symbolic constants']
    chk.axioms = ['log, exp uninterpreted']
    chk.assumptions = ["the optimiser's numerical behaviour is outside the claim", 'estimates inside the data range for the window obligations', 'dimensionless x and y']


def replay_real(case):
    import numpy as np
    import scipp as sc
    from scippneutron import peaks
    from scippneutron.peaks import _fit_peaks as fp

    rng = np.random.default_rng(10)
    bad = []
    kind = case['kind']

    def mkdata(n, lo=0.0, hi=10.0, nonuniform=False):
        x = np.linspace(lo, hi, n)
        if nonuniform:
            x = np.sort(rng.uniform(lo, hi, size=n))
        y = 3.0 + 0.1 * x + 20 * np.exp(-(x - 5.0) ** 2 / (2 * 0.3 ** 2)) + rng.normal(size=n) * 0.1
        return sc.DataArray(sc.array(dims=['x'], values=y, variances=np.full(n, 0.01)), coords={'x': sc.array(dims=['x'], values=x)})

    if kind == 'length':
        m = case['m']
        full = mkdata(200)
        x = full.coords['x'].values
        centre = 5.0
        idx = np.argsort(abs(x - centre))[:max(m, 0)]
        if m == 0:
            lo, hi = 5.001, 5.002
        else:
            lo, hi = x[idx].min(), np.nextafter(x[idx].max(), np.inf)
        try:
            res = peaks.fit_peaks(full, peak_estimates=sc.array(dims=['x'], values=[centre]), windows=sc.array(dims=['x', 'range'], values=[[lo, hi]]),
                                  background=case['background'], peak=case['peak'])
            if len(res) != 1:
                bad.append(f'{len(res)} results')
            npar = len(res[0].peak.param_names | res[0].background.param_names)
            if (res[0].assessment == fp.FitAssessment.window_too_narrow) != (m < npar):
                bad.append(f'm={m}: assessment {res[0].assessment}')
        except Exception as e:  # noqa: BLE001
            bad.append(f'window with {m} points: fit_peaks raises {type(e).__name__}: {e}')
    elif kind == 'bkgstats' or (kind == 'loop' and case.get('what') == 'order'):
        import warnings

        case = {'peaks': ['gaussian', 'lorentzian'], 'backgrounds': ['linear', 'quadratic'], **case}

        produced, assessed = [], []
        real_perform, real_assess = fp._perform_fit, fp._assess_fit

        def perform(model_, data_, p0, bounds):
            popt, st = real_perform(model_, data_, p0, bounds)
            produced.append((frozenset(model_.param_names), st))
            return popt, st

        def assess(data_, peak_, popt, stats, bkg_stats, **kw):
            assessed.append((peak_, stats, bkg_stats))
            return real_assess(data_, peak_, popt, stats, bkg_stats, **kw)

        fp._perform_fit, fp._assess_fit = perform, assess
        try:
            x = np.linspace(0.0, 10.0, 60)
            # curved background with a peak: the linear-background candidate is rejected (p-value), the quadratic one is tried and assessed
            y = 5.0 + 0.4 * (x - 5.0) ** 2 + 4.0 * np.exp(-(x - 5.0) ** 2 / (2 * 0.4 ** 2)) + rng.normal(size=60) * 0.2
            da = sc.DataArray(sc.array(dims=['x'], values=y, variances=np.full(60, 0.04)), coords={'x': sc.array(dims=['x'], values=x)})
            with warnings.catch_warnings():
                warnings.simplefilter('ignore')
                peaks.fit_peaks(da, peak_estimates=sc.array(dims=['x'], values=[5.0]), windows=sc.scalar(6.0), background=tuple(case['backgrounds']), peak=tuple(case['peaks']))
        finally:
            fp._perform_fit, fp._assess_fit = real_perform, real_assess
        # candidates are tried in the documented product order: peak models outermost, background models varied first
        names = {'gaussian': 'GaussianModel', 'lorentzian': 'LorentzianModel', 'pseudo_voigt': 'PseudoVoigtModel'}
        nbkg = {'linear': 2, 'quadratic': 3}
        want_order = [(names[p_], nbkg[b_]) for p_ in case['peaks'] for b_ in case['backgrounds']]
        got_order = []
        for peak_, st, bst in assessed:
            full_ = [k_ for k_, s_ in produced if s_ is st]
            got_order.append((type(peak_).__name__, len(full_[0] - peak_.param_names) if full_ else -1))
        if got_order != want_order[:len(got_order)]:
            bad.append(f'candidates assessed in the order {got_order}, documented order {want_order}')
        for peak_, st, bst in assessed:
            full = [k_ for k_, s_ in produced if s_ is st]
            if not full:
                bad.append('a candidate was assessed with statistics that no fit produced')
                continue
            bkey = frozenset(full[0] - peak_.param_names)
            if bst is not None and not any(s_ is bst for k_, s_ in produced if k_ == bkey):
                whose = [sorted(k_) for k_, s_ in produced if s_ is bst]
                bad.append(f'candidate with background parameters {sorted(bkey)} was compared with the background-only fit of {whose}')
    elif kind == 'assess' and case.get('custom_requirements'):
        # caller-supplied requirements through the public API: peaks of 2.4, 7 and 14 grid steps FWHM on a noisy linear
        # background; every result marked successful must satisfy each requirement as recomputed here
        rng_ = np.random.default_rng(4)
        x = np.arange(0.0, 240.0)
        centres = [40.0, 120.0, 200.0]
        sig = [1.0, 3.0, 6.0]
        y = 5.0 + 0.01 * x
        for c_, s_ in zip(centres, sig, strict=True):
            y = y + 200.0 / (np.sqrt(2 * np.pi) * s_) * np.exp(-(x - c_) ** 2 / (2 * s_ ** 2))
        var = np.full_like(y, 0.04)
        da = sc.DataArray(sc.array(dims=['x'], values=y + rng_.normal(size=len(x)) * 0.2, variances=var), coords={'x': sc.array(dims=['x'], values=x)})
        for fmin, fmax, pmin in ((4.0, 0.6, 0.001), (1.0, 0.2, 0.001), (10.0, 1.0, 0.001)):
            req = peaks.FitRequirements(min_p_value=pmin, max_peak_width_factor=fmax, min_peak_width_factor=fmin)
            res = peaks.fit_peaks(da, peak_estimates=sc.array(dims=['x'], values=centres), windows=sc.scalar(60.0), background='linear', peak='gaussian', fit_requirements=req)
            for c_, r_ in zip(centres, res, strict=True):
                if not r_.success:
                    continue
                fw = float(r_.peak.fwhm(r_.popt).value)
                lo_, hi_ = (float(t_) for t_ in r_.window.values)
                ctr = float(sc.values(r_.popt['peak_loc']).value)
                i_ = int(np.argmin(abs(x - ctr)))
                spacing = (x[min(i_ + 1, len(x) - 1)] - x[max(i_ - 1, 0)]) / (min(i_ + 1, len(x) - 1) - max(i_ - 1, 0))
                if fw < fmin * spacing:
                    bad.append(f'peak at {c_} marked successful with FWHM {fw:.3g} = {fw / spacing:.3g} grid steps although min_peak_width_factor = {fmin}')
                if fw > fmax * (hi_ - lo_):
                    bad.append(f'peak at {c_} marked successful with FWHM {fw:.3g} in a window of width {hi_ - lo_:.3g} although max_peak_width_factor = {fmax}')
                if float(r_.p_value.value) < pmin:
                    bad.append(f'peak at {c_} marked successful with p = {float(r_.p_value.value):.3g} < {pmin}')
    elif kind == 'assess':
        model = case.get('model', {})
        n = case['n']
        try:
            xs = np.array([model[f'x{i}'] for i in range(n)])
            da = sc.DataArray(sc.array(dims=['x'], values=np.ones(n), variances=np.ones(n)), coords={'x': sc.array(dims=['x'], values=xs)})
            (pk,) = fp._parse_model_spec(case['peak'], prefix='peak_')
            popt = {'peak_loc': sc.scalar(model['loc']), 'peak_amplitude': sc.scalar(model.get('amp', 1.0)), 'peak_scale': sc.scalar(model['scale']), 'bkg_a0': sc.scalar(0.0), 'bkg_a1': sc.scalar(0.0)}
            if case['peak'] == 'pseudo_voigt':
                popt['peak_fraction'] = sc.scalar(model.get('eta', 0.5))
            stats = {'red_chisq': sc.scalar(1.0), 'p_value': sc.scalar(model.get('pval', 0.5)), 'aic': sc.scalar(model.get('aic', 0.0))}
            bst = {'red_chisq': sc.scalar(1.0), 'p_value': sc.scalar(0.5), 'aic': sc.scalar(model.get('bkg_aic', 1.0))}
            try:
                a = fp._assess_fit(da, pk, popt, stats, bst, fit_requirements=fp.FitRequirements())
            except IndexError as e:
                bad.append(f'assessment raises IndexError on grid {xs.tolist()} with centre {model["loc"]}: {e}')
                a = None
            if a == fp.FitAssessment.success:
                c = int(np.argmin(abs(xs - model['loc'])))
                fwhm = pk.fwhm(popt).value
                lo_, hi_ = max(c - 1, 0), min(c + 1, n - 1)
                if fwhm < (xs[hi_] - xs[lo_]) / (hi_ - lo_):
                    bad.append(f'peak with FWHM {fwhm} marked successful on grid {xs.tolist()} (centre {model["loc"]}, nearest point {c}): spacing taken from a wrapped index')
        except KeyError:
            pass
    elif kind == 'windows' and case.get('model'):
        m = case['model']
        npk = case['npeaks']
        lo, hi, width = m['lo'], m['hi'], m['width']
        cs = [m[f'c{i}'] for i in range(npk)]
        x = np.linspace(lo, hi, 60)
        rng = np.random.default_rng(3)
        y = 1.0 + rng.random(60)
        da = sc.DataArray(sc.array(dims=['x'], values=y, variances=0.01 + 0 * y), coords={'x': sc.array(dims=['x'], values=x)})
        est = sc.array(dims=['x'], values=cs)
        pars = fp.FitParameters()
        fac = pars.neighbor_separation_factor
        try:
            import warnings
            with warnings.catch_warnings():
                warnings.simplefilter('ignore')
                res = peaks.fit_peaks(da, peak_estimates=est, windows=sc.scalar(width), background='linear', peak='gaussian')
        except Exception as e:  # noqa: BLE001
            res = None
            bad.append(f'fit_peaks raises {type(e).__name__}: {e} for estimates {cs} on data range [{lo}, {hi}]')
        if res is not None:
            if len(res) != npk:
                bad.append(f'{len(res)} results for {npk} estimates')
            # the windows that were used are reported with the results (public API)
            for i, (c, r_) in enumerate(zip(cs, res)):
                l, r = (float(t) for t in r_.window.values)
                if not (lo <= l <= r <= hi):
                    bad.append(f'window {[l, r]} for estimate {c} (data range [{lo}, {hi}]) is inverted or leaves the data range')
                elif lo <= c <= hi and not (l <= c <= r):
                    bad.append(f'window {[l, r]} does not contain its estimate {c}')
                elif l < r and ((i > 0 and l < cs[i - 1] + (c - cs[i - 1]) * fac - 1e-12 * abs(c)) or (i < npk - 1 and r > cs[i + 1] - (cs[i + 1] - c) * fac + 1e-12 * abs(c))):
                    bad.append(f'window {[l, r]} of estimate {c} too close to a neighbouring estimate ({cs})')
    elif kind == 'remove' and case.get('signature', '').startswith('C17:remove:values'):
        # hand-made fit results: window bounds on grid values, between grid values, on the ends of the data
        from scippneutron.peaks import model as pm
        pk, bk = pm.LorentzianModel(prefix='peak_'), pm.PolynomialModel(degree=1, prefix='bkg_')
        x = np.arange(0.0, 21.0)
        y = 5.0 + 0.1 * x
        plain = sc.DataArray(sc.array(dims=['x'], values=y.copy()), coords={'x': sc.array(dims=['x'], values=x)})
        for lo_, hi_ in ((8.0, 14.0), (8.5, 13.5), (0.0, 5.0), (15.0, 20.0), (3.0, 3.0), (-5.0, 2.0), (18.0, 30.0)):
            popt = {'peak_amplitude': sc.scalar(3.0, variance=1.0), 'peak_loc': sc.scalar((lo_ + hi_) / 2, variance=1.0), 'peak_scale': sc.scalar(2.0, variance=1.0),
                    'bkg_a0': sc.scalar(5.0), 'bkg_a1': sc.scalar(0.1)}
            mk = lambda a_, l_, h_: peaks.FitResult(aic=sc.scalar(0.0), assessment=a_, background=bk, message='', p_value=sc.scalar(1.0), peak=pk, popt=popt,  # noqa: E731,B023
                                                    red_chisq=sc.scalar(1.0), window=sc.array(dims=['range'], values=[l_, h_]))
            res = [mk(peaks.FitAssessment.success, lo_, hi_), mk(peaks.FitAssessment.p_too_small, 0.0, 20.0)]
            keep = plain.copy()
            try:
                out = peaks.remove_peaks(plain, res)
            except Exception as e:  # noqa: BLE001
                bad.append(f'remove_peaks raises {type(e).__name__} for window [{lo_}, {hi_})')
                continue
            if not sc.identical(plain, keep):
                bad.append('remove_peaks modified its input')
            inside = (x >= lo_) & (x < hi_)
            mu_ = (lo_ + hi_) / 2
            exp = np.where(inside, y - 3.0 * 2.0 / np.pi / ((x - mu_) ** 2 + 4.0), y)
            if not np.array_equal(out.values[~inside], y[~inside]):
                i_ = int(np.flatnonzero(out.values != np.where(inside, out.values, y))[0])
                bad.append(f'window [{lo_}, {hi_}): point x={x[i_]} outside the window changed from {y[i_]!r} to {out.values[i_]!r}')
            elif not np.allclose(out.values, exp, rtol=1e-12, atol=0):
                bad.append(f'window [{lo_}, {hi_}): inside values are not data - peak')
        # two successful results whose windows overlap: both peaks are subtracted in the overlap
        for (l1, h1), (l2, h2) in (((2.5, 9.5), (6.5, 14.5)), ((3.0, 8.0), (8.0, 12.0)), ((2.0, 15.0), (5.0, 9.0))):
            def res_(l_, h_, amp_):
                po = {'peak_amplitude': sc.scalar(amp_, variance=1.0), 'peak_loc': sc.scalar((l_ + h_) / 2, variance=1.0), 'peak_scale': sc.scalar(2.0, variance=1.0),
                      'bkg_a0': sc.scalar(5.0), 'bkg_a1': sc.scalar(0.1)}
                return peaks.FitResult(aic=sc.scalar(0.0), assessment=peaks.FitAssessment.success, background=bk, message='', p_value=sc.scalar(1.0), peak=pk, popt=po,
                                       red_chisq=sc.scalar(1.0), window=sc.array(dims=['range'], values=[l_, h_]))
            out = peaks.remove_peaks(plain, [res_(l1, h1, 3.0), res_(l2, h2, 7.0)])
            exp = y.copy()
            for (l_, h_), amp_ in (((l1, h1), 3.0), ((l2, h2), 7.0)):
                m_ = (x >= l_) & (x < h_)
                exp = exp - np.where(m_, amp_ * 2.0 / np.pi / ((x - (l_ + h_) / 2) ** 2 + 4.0), 0.0)
            if not np.allclose(out.values, exp, rtol=1e-12, atol=0):
                i_ = int(np.argmax(abs(out.values - exp)))
                bad.append(f'windows [{l1}, {h1}) and [{l2}, {h2}): at x={x[i_]} the result is {out.values[i_]!r}, data minus the fitted peaks of the windows containing it is {exp[i_]!r}')
    elif kind in ('windows', 'loop', 'stats', 'remove'):
        da = mkdata(300)
        est = sc.array(dims=['x'], values=[2.0, 5.0, 5.6, 9.9])
        res = peaks.fit_peaks(da, peak_estimates=est, windows=sc.scalar(2.0), background='linear', peak='gaussian')
        for c, r_ in zip(est.values, res):
            l, r = (float(t) for t in r_.window.values)
            if not (0.0 <= l <= c <= r <= 10.0):
                bad.append(f'window {[l, r]} for estimate {c}')
        if len(res) != 4:
            bad.append('number of results')
        plain = sc.values(da)
        keep = plain.copy()
        out = peaks.remove_peaks(plain, res)
        if not sc.identical(plain, keep):
            bad.append('remove_peaks modified its input')
        x = da.coords['x'].values
        mask = np.zeros(len(x), bool)
        for r in res:
            if r.success:
                mask |= (x >= r.window[0].value) & (x < r.window[1].value)
        if not np.array_equal(out.values[~mask], plain.values[~mask]):
            bad.append('points outside successful windows changed')
        for r in res:
            if r.success:
                sel = (x >= r.window[0].value) & (x < r.window[1].value)
                sub = da['x', r.window[0]:r.window[1]]
                n_, k_ = len(sub), len(r.popt)
                best = r.eval_model(sub.coords['x']).values
                chi2 = (((sub.values - best) ** 2) / sub.variances).sum()
                if abs(r.red_chisq.value - chi2 / (n_ - k_)) > 1e-9 * max(1, chi2):
                    bad.append('reduced chi-square')
                if abs(r.aic.value - (n_ * np.log(chi2 / n_) + 2 * k_)) > 1e-9 * max(1, abs(r.aic.value)):
                    bad.append('AIC')
    return {'reproduced': bool(bad), 'detail': '; '.join(bad[:2])}
