"""C18 - cylinder absorption: path lengths, quadrature and transmission are geometric."""
from __future__ import annotations

import os
from fractions import Fraction

from .common import ob_dict, run_jobs


def _load():
    from symex import loader
    from symsc.npshim import NPShim
    import sys, types

    sc = loader.install_shim()
    # quadratures.py holds large numpy tables; keep the real module but it needs real numpy only
    cyl = loader.load('absorption.cylinder')
    cyl.np = NPShim()
    base = loader.load('absorption.base')
    return sc, cyl, base


def _unit_vec(C, name, pole=None):
    """All unit vectors: stereographic parametrisation (u, v) -> (2u, 2v, 1-u^2-v^2)/(1+u^2+v^2)
    (every unit vector except the south pole, which is covered by pole='south')."""
    if pole == 'south':
        return [C.R.lift(0), C.R.lift(0), C.R.lift(-1)]
    if pole == 'north':
        return [C.R.lift(0), C.R.lift(0), C.R.lift(1)]
    u, v = C.sym_var(f'{name}_u'), C.sym_var(f'{name}_v')
    with C.oracle():
        d = 1 + u * u + v * v
        return [2 * u / d, 2 * v / d, (1 - u * u - v * v) / d]


def _vecvar(sc, comps, unit):
    import numpy as np
    from symsc import variable as V

    a = np.empty((3,), dtype=object)
    for i in range(3):
        a[i] = comps[i]
    return V.Variable(_arr=a, dims=(), unit=V.parse_unit(unit) if isinstance(unit, str) else unit, dtype=V.DType.vector3)


def job_cyl_helper(j, seed):
    """_line_infinite_cylinder_intersection: Vieta + discriminant identities against |p_perp(t)|^2 - r^2."""
    apole = j
    from symex import core as C
    from .symutil import fresh_run, sym_unit, vdot, vcross, vsub, vscale, vnorm2

    sc, cyl, base = _load()
    fresh_run()
    obs, cands = [], []
    tag = f'cyl[a={apole or "generic"}]'
    case = {'kind': 'path-length', 'part': 'cylinder'}
    uL = sym_unit('L', 'm')
    a = _unit_vec(C, 'a', apole)
    # the interval end points are parameters t of the point t*n: the identities hold for any direction vector n
    n = [C.sym_var(f'n_{c}') for c in 'xyz']
    b = [C.sym_var(f'b_{c}') for c in 'xyz']
    r = C.sym_var('r', sign='+')
    A, N, Bv = _vecvar(sc, a, 'dimensionless'), _vecvar(sc, n, 'dimensionless'), _vecvar(sc, b, uL)
    R_ = sc.scalar(r, unit=uL)
    C.CTX.fork_timeout_ms = 1500
    paths = C.explore(lambda: cyl._line_infinite_cylinder_intersection(A, Bv, R_, N), max_paths=40)
    # oracle polynomial: |(t n - b) - ((t n - b).a) a|^2 - r^2 = q t^2 - 2 m t + Cc   (|a| = 1)
    with C.oracle():
        nxa = vcross(n, a)
        q = vnorm2(nxa)
        bxa = vcross(b, a)
        m = vdot(nxa, bxa)
        Cc = vnorm2(bxa) - r * r
        t = C.sym_var('t')
        p = vsub(vscale(n, t), b)
        perp = vsub(p, vscale(a, vdot(p, a)))
        rad = vnorm2(perp) - r * r

    def chk(name, goal, pc=(), sig='C18:path-length:cylinder', assumptions=()):
        ob = C.prove(f'{tag}:{name}', goal, pc=pc, assumptions=assumptions, timeout_ms=30000)
        if os.environ.get('SYMEX_DEBUG'):
            print(round(ob.t, 2), ob.status, name, flush=True)
        obs.append(ob_dict(ob))
        if ob.status == 'violated':
            cands.append((sig, case, name))
        return ob

    chk('radial polynomial = q t^2 - 2 m t + C (|a|=1 by parametrisation)', rad == q * t * t - 2 * m * t + Cc)
    nfinite = 0
    for k, p_ in enumerate(paths):
        if p_.inconclusive:
            if p_.maybe_infeasible:
                continue
            obs.append({'name': f'{tag}:path{k}', 'status': 'inconclusive', 'detail': p_.inconclusive[:200], 't': 0})
            continue
        if p_.exc is not None:
            obs.append({'name': f'{tag}:path{k}:raises', 'status': 'violated', 'detail': repr(p_.exc)[:200], 't': 0})
            cands.append(('C18:path-length:raises', case, repr(p_.exc)[:100]))
            continue
        flag, left, right = p_.value
        fl = flag.value
        l, rr = left.value, right.value
        if l.special == 'nan' or rr.special == 'nan':
            # negative discriminant: the square root is NaN, the flag must say "no intersection"
            chk(f'path{k}:NaN end points only for a negative discriminant, flag False', (m * m - q * Cc < 0) & ~C.B.lift(fl), pc=p_.pc)
            continue
        if l.special or rr.special:
            # parallel branch: the whole line is inside or outside the infinite cylinder
            chk(f'path{k}:parallel branch only when n x a = 0', q == 0, pc=p_.pc)
            chk(f'path{k}:parallel: (-inf, inf)', C.B.const(l.special == '-inf' and rr.special == 'inf'), pc=p_.pc)
            with C.oracle():
                bperp2 = vnorm2(vsub(b, vscale(a, vdot(b, a))))
            chk(f'path{k}:parallel: flag <=> axis distance <= r', C.B.lift(fl) == (bperp2 <= r * r), pc=p_.pc)
            continue
        nfinite += 1
        # Vieta: left, right are the roots of the oracle quadratic, left <= right
        with C.oracle():
            chk(f'path{k}:left + right = 2 m / q', (l + rr) * q == 2 * m, pc=p_.pc)
            chk(f'path{k}:left * right = C / q', (l * rr) * q == Cc, pc=p_.pc)
        # right - left = 2 s / q with s a square root (>= 0) and q > 0: shown via ((right-left) q)^2 = 4 (m^2 - q C) and the sign of the term
        with C.oracle():
            gap = (rr - l) * q
        chk(f'path{k}:((right - left) q)^2 = 4 (m^2 - q C)', gap * gap == 4 * (m * m - q * Cc), pc=p_.pc)
        sg = gap.t.sign()
        if sg in ('+', '0+', '0'):
            chk(f'path{k}:(right - left) q is a non-negative square-root term => left <= right (q > 0)', C.B.const(True), pc=p_.pc)
        else:
            chk(f'path{k}:left <= right', l <= rr, pc=p_.pc)
        chk(f'path{k}:intersection flag <=> discriminant m^2 - q C >= 0', C.B.lift(fl) == (m * m - q * Cc >= 0), pc=p_.pc)
        chk(f'path{k}:units', C.B.const(left.unit == uL and right.unit == uL), pc=p_.pc)
    # abstract root lemma (1-d): q > 0, roots l <= r by Vieta  =>  (q t^2 - 2 m t + C <= 0  <=>  l <= t <= r)
    qq, mm, cc, ll, rr2, tt = (C.sym_var(x) for x in ('Q', 'M', 'CC', 'Lr', 'Rr', 'T'))
    ass = [qq > 0, (ll + rr2) * qq == 2 * mm, ll * rr2 * qq == cc, ll <= rr2]
    chk('root lemma: inside the infinite cylinder <=> left <= t <= right', (qq * tt * tt - 2 * mm * tt + cc <= 0) == ((ll <= tt) & (tt <= rr2)), assumptions=ass)
    chk('some non-parallel path', C.B.const(nfinite >= 1 or apole is not None))
    return {'obligations': obs, 'candidates': cands, 'paths': len(paths)}


def job_slab_helper(j, seed):
    from symex import core as C
    from .symutil import fresh_run, sym_unit, vdot, vsub, vscale

    sc, cyl, base = _load()
    fresh_run()
    obs, cands = [], []
    case = {'kind': 'path-length', 'part': 'slab'}
    uL = sym_unit('L', 'm')
    a = _unit_vec(C, 'a')
    n = [C.sym_var(f'n_{c}') for c in 'xyz']  # interval end points are parameters of t*n: any direction vector
    b = [C.sym_var(f'b_{c}') for c in 'xyz']
    h = C.sym_var('h', sign='+')
    A, N, Bv = _vecvar(sc, a, 'dimensionless'), _vecvar(sc, n, 'dimensionless'), _vecvar(sc, b, uL)
    C.CTX.fork_timeout_ms = 4000
    paths = C.explore(lambda: cyl._line_slab_intersection(A, Bv, sc.scalar(h, unit=uL), N), max_paths=40)
    t = C.sym_var('t')
    with C.oracle():
        along = vdot(vsub(vscale(n, t), b), a)  # (x - c).a for x = p + t n, b = c - p
        inside = (along >= 0) & (along <= h)
        nda = vdot(n, a)
    for k, p_ in enumerate(paths):
        if p_.inconclusive:
            if p_.maybe_infeasible:
                continue
            obs.append({'name': f'slab:path{k}', 'status': 'inconclusive', 'detail': p_.inconclusive[:200], 't': 0})
            continue
        if p_.exc is not None:
            obs.append({'name': f'slab:path{k}:raises', 'status': 'violated', 'detail': repr(p_.exc)[:200], 't': 0})
            cands.append(('C18:path-length:raises', case, repr(p_.exc)[:100]))
            continue
        flag, left, right = p_.value
        l, r = left.value, right.value
        if l.special or r.special:
            goal = (nda == 0) & C.B.const(l.special == '-inf' and r.special == 'inf') & (C.B.lift(flag.value) == inside)
            nm = 'parallel: whole line inside iff the start point is between the planes'
        else:
            goal = (nda != 0) & C.B.lift(flag.value) & (inside == ((l <= t) & (t <= r)))
            nm = 'between the planes <=> left <= t <= right'
        ob = C.prove(f'slab:path{k}:{nm}', goal, pc=p_.pc, timeout_ms=30000)
        obs.append(ob_dict(ob))
        if ob.status == 'violated':
            cands.append(('C18:path-length:slab', case, nm))
    return {'obligations': obs, 'candidates': cands, 'paths': len(paths)}


def job_interval(j, seed):
    """_positive_interval_intersection over reals and +-inf ends = length of [max(l), min(r)] cut to t >= 0."""
    kinds = j
    from symex import core as C
    from .symutil import fresh_run

    sc, cyl, base = _load()
    fresh_run()
    obs, cands = [], []
    case = {'kind': 'path-length', 'part': 'interval'}

    def mk(name, kind):
        if kind == 'ninf':
            return sc.scalar(float('-inf'), unit='m')
        if kind == 'inf':
            return sc.scalar(float('inf'), unit='m')
        return sc.scalar(C.sym_var(name), unit='m')

    l1, r1, l2, r2 = mk('l1', kinds[0]), mk('r1', kinds[1]), mk('l2', kinds[2]), mk('r2', kinds[3])
    for lo, hi in ((l1, r1), (l2, r2)):
        if not lo.value.special and not hi.value.special:
            C.CTX.assume(lo.value <= hi.value)
    C.CTX.fork_timeout_ms = 3000
    paths = C.explore(lambda: cyl._positive_interval_intersection([l1, r1], [l2, r2]), max_paths=200)

    def mx(a, b):  # oracle max over extended reals, decided by the solver under the path condition
        return None

    for k, p_ in enumerate(paths):
        if p_.inconclusive or p_.exc is not None:
            obs.append({'name': f'interval{kinds}:path{k}', 'status': 'inconclusive' if p_.inconclusive else 'violated', 'detail': str(p_.inconclusive or repr(p_.exc))[:200], 't': 0})
            continue
        v = p_.value.value
        # characterisation: with L = max(l1,l2,0), R = min(r1,r2): value = R - L if R > L else 0 (inf if unbounded)
        fin = [x.value for x in (l1, l2) if not x.value.special]
        fr = [x.value for x in (r1, r2) if not x.value.special]
        if not fr:
            goal = C.B.const(v.special == 'inf')
            ob = C.prove(f'interval{kinds}:path{k}:unbounded ray => infinite length', goal, pc=p_.pc)
        else:
            if v.special:
                ob = C.prove(f'interval{kinds}:path{k}:finite right end => finite length', C.FALSE, pc=p_.pc)
            else:
                lows = [*fin, C.R.lift(0)]
                Lm, Rm = C.sym_var('Lmax'), C.sym_var('Rmin')
                defs = [*[Lm >= x for x in lows], C.any_of([Lm == x for x in lows]), *[Rm <= x for x in fr], C.any_of([Rm == x for x in fr])]
                goal = ((Rm > Lm) & (v == Rm - Lm)) | ((Rm <= Lm) & (v == 0))
                ob = C.prove(f'interval{kinds}:path{k}:value = length of [max(l1,l2,0), min(r1,r2)] (0 if empty)', goal, assumptions=defs, pc=p_.pc)
        obs.append(ob_dict(ob))
        if ob.status == 'violated':
            cands.append(('C18:path-length:interval', case, 'clipping'))
    return {'obligations': obs, 'candidates': cands, 'paths': len(paths)}


def job_wiring(j, seed):
    """beam_intersection hands (axis, base - start, radius|height, direction) to the helpers and combines them as documented;
    describing the solid from its other end gives the same cylinder and slab intervals."""
    from symex import core as C
    from .symutil import fresh_run, sym_unit, vadd, vscale, vsub

    sc, cyl, base = _load()
    fresh_run()
    obs, cands = [], []
    case = {'kind': 'path-length', 'part': 'wiring'}
    uL = sym_unit('L', 'm')
    a = _unit_vec(C, 'a')
    n = [C.sym_var(f'n_{x}') for x in 'xyz']
    c = [C.sym_var(f'c_{x}') for x in 'xyz']
    p = [C.sym_var(f'p_{x}') for x in 'xyz']
    r, h = C.sym_var('r', sign='+'), C.sym_var('h', sign='+')
    rec = {}
    rc, rs, rp = cyl._line_infinite_cylinder_intersection, cyl._line_slab_intersection, cyl._positive_interval_intersection

    def fc(a_, b_, r_, n_):
        rec['cyl'] = (a_, b_, r_, n_)
        return sc.scalar(True), sc.scalar(C.sym_var('cl'), unit=uL), sc.scalar(C.sym_var('cr'), unit=uL)

    def fs(a_, b_, h_, n_):
        rec['slab'] = (a_, b_, h_, n_)
        return sc.scalar(True), sc.scalar(C.sym_var('sl'), unit=uL), sc.scalar(C.sym_var('sr'), unit=uL)

    def fp(x, y):
        rec['pos'] = (x, y)
        return sc.scalar(C.sym_var('LEN', sign='0+'), unit=uL)

    shape = cyl.Cylinder(symmetry_line=_vecvar(sc, a, 'dimensionless'), center_of_base=_vecvar(sc, c, uL), radius=sc.scalar(r, unit=uL), height=sc.scalar(h, unit=uL))
    cyl._line_infinite_cylinder_intersection, cyl._line_slab_intersection, cyl._positive_interval_intersection = fc, fs, fp
    try:
        paths = C.explore(lambda: shape.beam_intersection(_vecvar(sc, p, uL), _vecvar(sc, n, 'dimensionless')))
    finally:
        cyl._line_infinite_cylinder_intersection, cyl._line_slab_intersection, cyl._positive_interval_intersection = rc, rs, rp
    p_ = paths[0]
    if p_.exc is not None or p_.inconclusive:
        obs.append({'name': 'wiring:runs', 'status': 'inconclusive' if p_.inconclusive else 'violated', 'detail': str(p_.inconclusive or repr(p_.exc))[:200], 't': 0})
    else:
        def veq(x, y):
            return C.all_of([u == v for u, v in zip(x, y, strict=True)])
        from .symutil import vec
        ok = veq(vec(rec['cyl'][0]), a) & veq(vec(rec['cyl'][1]), vsub(c, p)) & (rec['cyl'][2].value == r) & veq(vec(rec['cyl'][3]), n)
        ok = ok & veq(vec(rec['slab'][0]), a) & veq(vec(rec['slab'][1]), vsub(c, p)) & (rec['slab'][2].value == h) & veq(vec(rec['slab'][3]), n)
        ob = C.prove('wiring: helpers receive (axis, base - start, radius / height, direction): translation invariance is structural', ok)
        obs.append(ob_dict(ob))
        if ob.status == 'violated':
            cands.append(('C18:path-length:wiring', case, 'arguments'))
        ob = C.prove('wiring: result = clipped intersection of the two intervals when both intersect', p_.value.value == C.sym_var('LEN', sign='0+'))
        obs.append(ob_dict(ob))
    # other-end description: (c + h a, -a) gives identical cylinder roots and slab interval
    C.CTX.fork_timeout_ms = 1500
    b = vsub(c, p)
    b2 = vsub(vadd(c, vscale(a, h)), p)
    A1, A2 = _vecvar(sc, a, 'dimensionless'), _vecvar(sc, vscale(a, -1), 'dimensionless')
    N = _vecvar(sc, n, 'dimensionless')
    pa = []
    for nm, runner in (('cylinder', lambda: (cyl._line_infinite_cylinder_intersection(A1, _vecvar(sc, b, uL), sc.scalar(r, unit=uL), N),
                                             cyl._line_infinite_cylinder_intersection(A2, _vecvar(sc, b2, uL), sc.scalar(r, unit=uL), N))),
                       ('slab', lambda: (cyl._line_slab_intersection(A1, _vecvar(sc, b, uL), sc.scalar(h, unit=uL), N),
                                         cyl._line_slab_intersection(A2, _vecvar(sc, b2, uL), sc.scalar(h, unit=uL), N)))):
        ps = C.explore(runner, max_paths=40)
        pa += ps
        for k, q in enumerate(ps):
            if q.exc is not None or q.inconclusive:
                continue
            x, y = q.value
            good = C.TRUE
            for u, v in zip(x[1:], y[1:], strict=True):
                if u.value.special or v.value.special:
                    good = good & C.B.const(u.value.special == v.value.special)
                else:
                    good = good & (u.value == v.value)
            good = good & (C.B.lift(x[0].value) == C.B.lift(y[0].value))
            ob = C.prove(f'other-end:{nm}:path{k}:interval identical for (base + h a, -a)', good, pc=q.pc, timeout_ms=30000)
            obs.append(ob_dict(ob))
            if ob.status == 'violated':
                cands.append(('C18:other-end', case, nm))
    return {'obligations': obs, 'candidates': cands, 'paths': len(paths) + len(pa)}


def job_quadrature(j, seed):
    """Image of a reference point (x^2+y^2<=1, |z|<=1) lies in the solid; weights scale by r^2 h / 2."""
    apole, *more = j if isinstance(j, tuple) else (j,)
    mixed = bool(more and more[0])  # radius given in another length unit than base and height
    import numpy as np
    from symex import core as C
    from .symutil import fresh_run, sym_unit, vdot, vsub, vscale, vnorm2, vec

    sc, cyl, base = _load()
    fresh_run()
    obs, cands = [], []
    tag = f'quadrature[a={apole or "generic"}' + (', radius in its own unit]' if mixed else ']')
    case = {'kind': 'quadrature', 'pole': apole, 'mixed_units': mixed}
    uL = sym_unit('L', 'm')
    uR = sym_unit('R', 'm') if mixed else uL
    kR = C.R(uR.scale_rat()) / C.R(uL.scale_rat())  # radius expressed in the unit of the base
    a = _unit_vec(C, 'a', apole)
    c = [C.sym_var(f'c_{x}') for x in 'xyz']
    r, h = C.sym_var('r', sign='+'), C.sym_var('h', sign='+')
    x, y, z, w = C.sym_var('qx'), C.sym_var('qy'), C.sym_var('qz'), C.sym_var('qw', sign='+')
    ref_ok = [x * x + y * y <= 1, z >= -1, z <= 1]
    shape = cyl.Cylinder(symmetry_line=_vecvar(sc, a, 'dimensionless'), center_of_base=_vecvar(sc, c, uL), radius=sc.scalar(r, unit=uR), height=sc.scalar(h, unit=uL))

    def arr1(v):
        return sc.array(dims=['quad'], values=[v])

    shape._select_quadrature_points = lambda kind: {'x': arr1(x), 'y': arr1(y), 'z': arr1(z), 'weights': arr1(w)}
    if apole is None:
        from symex import terms as T
        # cos(asin(|z^ x a|)) = sqrt(a_z^2): tell the term layer the radicand is a perfect square
        au, av = C.sym_var('a_u'), C.sym_var('a_v')
        T.register_square((1 - au * au - av * av).t)
        # generic axes: |z^ x a| >= 1e-10 (below that threshold the code treats the axis as +-z^: covered by the pole jobs)
        un2 = a[0] * a[0] + a[1] * a[1]
        C.CTX.assume(un2 >= Fraction(1e-10) * Fraction(1e-10))
    C.CTX.fork_timeout_ms = 4000
    paths = C.explore(lambda: shape.quadrature('cheap'), max_paths=20)
    n = 0
    for k, p_ in enumerate(paths):
        if p_.inconclusive:
            if p_.maybe_infeasible:
                continue
            obs.append({'name': f'{tag}:path{k}', 'status': 'inconclusive', 'detail': p_.inconclusive[:200], 't': 0})
            continue
        if p_.exc is not None:
            obs.append({'name': f'{tag}:path{k}:raises', 'status': 'violated', 'detail': repr(p_.exc)[:200], 't': 0})
            cands.append(('C18:quadrature:raises', case, repr(p_.exc)[:100]))
            continue
        n += 1
        pts, wts = p_.value
        P = vec(pts, (0,))
        with C.oracle():
            d = vsub(P, c)
            along = vdot(d, a)
            perp2 = vnorm2(vsub(d, vscale(a, along)))
        # (a) exact image: distance along the axis = h/2 + h z / 2, radial^2 = r^2 (x^2 + y^2)   (rotation maps z^ to a)
        ob = C.prove(f'{tag}:path{k}:axial coordinate of the image = h (1 +- z) / 2', (along == h * (1 + z) / 2) | (along == h * (1 - z) / 2), pc=p_.pc, timeout_ms=60000)
        obs.append(ob_dict(ob))
        bad = ob.status == 'violated'
        ob2 = C.prove(f'{tag}:path{k}:radial distance^2 of the image = r^2 (x^2 + y^2)', perp2 == (r * kR) * (r * kR) * (x * x + y * y), pc=p_.pc, timeout_ms=60000)
        obs.append(ob_dict(ob2))
        bad = bad or ob2.status == 'violated'
        if bad:
            m = (ob.model if ob.status == 'violated' else ob2.model) or {}
            cands.append(('C18:quadrature:rotation', {**case, 'model': {k_: float(v) for k_, v in m.items()}}, 'integration point outside the solid'))
        # (b) hence membership for every reference point of the unit cylinder
        A_, R2 = C.sym_var('ALONG'), C.sym_var('PERP2')
        ob = C.prove(f'{tag}:path{k}:image inside the solid (from (a))', (A_ >= 0) & (A_ <= h) & (R2 <= r * r),
                     assumptions=[*ref_ok, (A_ == h * (1 + z) / 2) | (A_ == h * (1 - z) / 2), R2 == r * r * (x * x + y * y)])
        obs.append(ob_dict(ob))
        ob = C.prove(f'{tag}:path{k}:weight = reference weight * r^2 h / 2 (> 0)', (wts.values[0] * C.R(wts.unit.scale_rat()) == w * (r * C.R(uR.scale_rat())) ** 2 * (h * C.R(uL.scale_rat())) / 2) & (wts.values[0] > 0), pc=p_.pc)
        obs.append(ob_dict(ob))
        if ob.status == 'violated':
            cands.append(('C18:quadrature:weights', case, 'weights'))
        ob = C.prove(f'{tag}:path{k}:units', C.B.const(pts.unit == uL and wts.unit.dim == (uL ** 3).dim), pc=p_.pc)
        obs.append(ob_dict(ob))
    ob = C.prove(f'{tag}:some path', C.B.const(n >= 1))
    obs.append(ob_dict(ob))
    return {'obligations': obs, 'candidates': cands, 'paths': len(paths)}


def job_k(j, seed):
    """The number of axial nodes k = round(max(min(c h/r, hi), lo)) stays in [lo, hi] (all such tables are checked in validation)."""
    kind, coef, lo, hi = j
    from symex import core as C
    from .symutil import fresh_run, sym_unit

    sc, cyl, base = _load()
    fresh_run()
    obs = []
    uL = sym_unit('L', 'm')
    r, h = C.sym_var('r', sign='+'), C.sym_var('h', sign='+')
    got = {}

    def fake_cheb(k):
        got['k'] = k
        raise _Stop()

    class _Stop(Exception):
        pass

    shape = cyl.Cylinder(symmetry_line=sc.vector([0.0, 0.0, 1.0]), center_of_base=sc.vector([0.0, 0.0, 0.0], unit=uL), radius=sc.scalar(r, unit=uL), height=sc.scalar(h, unit=uL))
    rc, rl = cyl.chebgauss, cyl.leggauss
    cyl.chebgauss = cyl.leggauss = fake_cheb
    C.CTX.fork_timeout_ms = 4000
    try:
        def run():
            try:
                shape._select_quadrature_points(kind)
            except _Stop:
                return got['k']
        paths = C.explore(run, max_paths=20)
    finally:
        cyl.chebgauss, cyl.leggauss = rc, rl
    for k_, p_ in enumerate(paths):
        if p_.exc is not None or p_.inconclusive or p_.value is None:
            obs.append({'name': f'k[{kind}]:path{k_}', 'status': 'inconclusive', 'detail': str(p_.inconclusive or repr(p_.exc))[:200], 't': 0})
            continue
        kk = C.R.lift(p_.value)
        ob = C.prove(f'k[{kind}]:path{k_}: {lo} <= k <= {hi}', (kk >= lo) & (kk <= hi), pc=p_.pc)
        obs.append(ob_dict(ob))
    return {'obligations': obs, 'candidates': [], 'paths': len(paths)}


def job_transmission(j, seed):
    """Abstract 2-point quadrature with positive weights summing to the volume: map in (0,1], =1 without attenuation, monotone in mu."""
    from symex import core as C
    from .symutil import fresh_run, sym_unit

    sc, cyl, base = _load()
    fresh_run()
    obs, cands = [], []
    case = {'kind': 'transmission'}
    w1, w2 = C.sym_var('w1', sign='+'), C.sym_var('w2', sign='+')
    L = [[C.sym_var(f'L{i}{k}', sign='0+') for k in range(2)] for i in range(2)]  # [point][leg]
    mu1, mu2 = C.sym_var('mu1', sign='0+'), C.sym_var('mu2', sign='0+')

    class Shape:
        volume = sc.scalar(w1 + w2, unit='m**3')

        def quadrature(self, kind):
            return sc.vectors(dims=['quad'], values=[[0.0, 0.0, 0.0], [0.0, 0.0, 0.1]], unit='m'), sc.array(dims=['quad'], values=[w1, w2], unit='m**3')

        def beam_intersection(self, start, direction):
            Shape.calls += 1
            leg = (Shape.calls - 1) % 2
            import numpy as np
            from symsc import variable as V
            a = np.empty((1, 2), dtype=object)
            a[0, 0], a[0, 1] = L[0][leg], L[1][leg]
            return V.Variable(_arr=a, dims=('det', 'quad'), unit=V.parse_unit('m'), dtype=V.DType.float64)

        calls = 0

    class Mat:
        def __init__(self, mu):
            self.mu = mu

        def attenuation_coefficient(self, wavelength):
            return sc.scalar(self.mu, unit='1/m')

    def run(mu):
        Shape.calls = 0
        return base.compute_transmission_map(Shape(), Mat(mu), beam_direction=sc.vector([0.0, 0.0, 1.0]), wavelength=sc.array(dims=['wavelength'], values=[1.0], unit='angstrom'),
                                             detector_position=sc.vectors(dims=['det'], values=[[1.0, 0.0, 0.0]], unit='m'))

    paths = C.explore(lambda: (run(mu1), run(mu2), run(C.R.lift(0))))
    for k, p_ in enumerate(paths):
        if p_.exc is not None or p_.inconclusive:
            obs.append({'name': f'transmission:path{k}', 'status': 'inconclusive' if p_.inconclusive else 'violated', 'detail': str(p_.inconclusive or repr(p_.exc))[:300], 't': 0})
            if p_.exc is not None:
                cands.append(('C18:transmission:raises', case, repr(p_.exc)[:100]))
            continue
        t1, t2, t0 = (x.data.values.reshape(-1)[0] for x in p_.value)
        e = [C.rfn('exp', -(mu1 * (L[i][0] + L[i][1])), sign='+') for i in range(2)]
        with C.oracle():
            exp1 = (w1 * e[0] + w2 * e[1]) / (w1 + w2)
        for nm, goal, sig in (('value = sum w_i exp(-mu (L_in + L_out)) / V', t1 == exp1, 'C18:transmission:value'),
                              ('in (0, 1]', (t1 > 0) & (t1 <= 1), 'C18:transmission:range'),
                              ('= 1 without attenuation', t0 == 1, 'C18:transmission:range'),
                              ('non-increasing in the attenuation coefficient', t2 <= t1, 'C18:transmission:monotone')):
            ass = [mu1 <= mu2] if 'non-increasing' in nm else []
            ob = C.prove(f'transmission:path{k}:{nm}', goal, pc=p_.pc, assumptions=ass, timeout_ms=30000)
            obs.append(ob_dict(ob))
            if ob.status == 'violated':
                cands.append((sig, case, nm))
        ob = C.prove(f'transmission:path{k}:dimensionless', C.B.const(p_.value[0].data.unit == sc.Unit('dimensionless')))
        obs.append(ob_dict(ob))
    return {'obligations': obs, 'candidates': cands, 'paths': len(paths)}


def job_material(j, seed):
    """The transmission map with the package's own Material: the attenuation used at every integration point is
    n (sigma_s + sigma_a lambda / 1.7982 angstrom) for the wavelength as given - float64, float32 or integer-valued,
    in any length unit (abstract 2-point quadrature as in job_transmission)."""
    lam_dtype = j
    import numpy as np
    from symex import core as C
    from symex import loader
    from symsc import variable as V
    from .symutil import fresh_run, si_value, sym_scalar, sym_unit

    sc, cyl, base = _load()
    atoms = loader.load('atoms')
    mat = loader.load('absorption.material')
    fresh_run()
    obs, cands = [], []
    case = {'kind': 'material', 'wavelength_dtype': lam_dtype}
    tag = f'material[{lam_dtype} wavelength]'
    w1, w2 = C.sym_var('w1', sign='+'), C.sym_var('w2', sign='+')
    L = [[C.sym_var(f'L{i}{k}', sign='0+') for k in range(2)] for i in range(2)]
    ss = sym_scalar('sigma_s', 'barn')
    sa = sym_scalar('sigma_a', 'barn')
    n = sym_scalar('n', sym_unit('n', '1/m**3'))
    ulam = sym_unit('lam', 'm')
    lv = C.sym_var('lam', sign='+', is_int=lam_dtype.startswith('int'))
    a_ = np.empty((1,), dtype=object)
    a_[0] = lv
    lam = V.Variable(_arr=a_, dims=('wavelength',), unit=ulam, dtype=V.as_dtype(lam_dtype))
    sp = atoms.ScatteringParams(isotope='X', total_scattering_cross_section=ss, absorption_cross_section=sa)
    material = mat.Material(scattering_params=sp, effective_sample_number_density=n)

    class Shape:
        volume = sc.scalar(w1 + w2, unit='m**3')
        calls = 0

        def quadrature(self, kind):
            return sc.vectors(dims=['quad'], values=[[0.0, 0.0, 0.0], [0.0, 0.0, 0.1]], unit='m'), sc.array(dims=['quad'], values=[w1, w2], unit='m**3')

        def beam_intersection(self, start, direction):
            Shape.calls += 1
            leg = (Shape.calls - 1) % 2
            b = np.empty((1, 2), dtype=object)
            b[0, 0], b[0, 1] = L[0][leg], L[1][leg]
            return V.Variable(_arr=b, dims=('det', 'quad'), unit=V.parse_unit('m'), dtype=V.DType.float64)

    def run():
        Shape.calls = 0
        return base.compute_transmission_map(Shape(), material, beam_direction=sc.vector([0.0, 0.0, 1.0]), wavelength=lam,
                                             detector_position=sc.vectors(dims=['det'], values=[[1.0, 0.0, 0.0]], unit='m'))

    paths = C.explore(run, max_paths=8)
    nret = 0
    for k, p_ in enumerate(paths):
        if p_.exc is not None or p_.inconclusive:
            obs.append({'name': f'{tag}:path{k}', 'status': 'inconclusive' if p_.inconclusive else 'violated', 'detail': str(p_.inconclusive or repr(p_.exc))[:300], 't': 0})
            if p_.exc is not None:
                cands.append(('C18:material:raises', case, repr(p_.exc)[:100]))
            continue
        nret += 1
        t1 = p_.value.data.values.reshape(-1)[0]
        with C.oracle():
            ref = Fraction(1.7982) * Fraction(1, 10**10)
            mu = si_value(n) * (si_value(ss) + si_value(sa) * (lv * C.R(ulam.scale_rat())) / ref)
        e = [C.rfn('exp', -(mu * (L[i][0] + L[i][1])), sign='+') for i in range(2)]
        with C.oracle():
            exp1 = (w1 * e[0] + w2 * e[1]) / (w1 + w2)
        ob = C.prove(f'{tag}:path{k}: map = sum w_i exp(-n (sigma_s + sigma_a lambda / 1.7982 A) (L_in + L_out)) / V', C.B.const(not getattr(t1, 'special', None)) & (C.R.lift(t1) == exp1) if not getattr(t1, 'special', None) else C.FALSE, pc=p_.pc, timeout_ms=30000)
        obs.append(ob_dict(ob))
        if ob.status != 'discharged':
            cands.append(('C18:material:attenuation', case, 'the attenuation used in the map is not n (sigma_s + sigma_a lambda / 1.7982 A) for the wavelength as given'))
    ob = C.prove(f'{tag}: some path returns', C.B.const(nret >= 1))
    obs.append(ob_dict(ob))
    return {'obligations': obs, 'candidates': cands, 'paths': len(paths)}


def run(chk):
    sc, cyl, base = _load()
    from symex import loader

    mat = loader.load('absorption.material')
    chk.functions = loader.describe_exprs(['cyl.Cylinder.beam_intersection', 'cyl.Cylinder.quadrature', 'cyl.Cylinder._select_quadrature_points', 'cyl.Cylinder.center.fget', 'cyl._line_infinite_cylinder_intersection', 'cyl._line_slab_intersection', 'cyl._positive_interval_intersection', 'cyl._cylinder_quadrature_from_product', 'base.compute_transmission_map', 'base._integrate_transmission_fraction', 'base._single_scatter_distance_through_sample', 'base._transmission_fraction', 'mat.Material.attenuation_coefficient'], {**globals(), **locals()})
    run_jobs(chk, job_cyl_helper, [None, 'south'])
    run_jobs(chk, job_slab_helper, [0])
    kinds = [('fin', 'fin', 'fin', 'fin'), ('ninf', 'inf', 'fin', 'fin'), ('fin', 'fin', 'ninf', 'inf'), ('ninf', 'inf', 'ninf', 'inf')]
    run_jobs(chk, job_interval, kinds)
    run_jobs(chk, job_wiring, [0])
    run_jobs(chk, job_quadrature, [None, 'south', 'north', (None, True), ('north', True)])
    run_jobs(chk, job_k, [('cheap', 5, 5, 15), ('medium', 7, 7, 25), ('expensive', 11, 11, 35)])
    run_jobs(chk, job_transmission, [0])
    run_jobs(chk, job_material, ['float64', 'float32', 'int64'] + (['int32'] if chk.tier == 'thorough' else []))
    # table facts: ground arithmetic over the real tables for every k (real numpy process)
    import json, os, subprocess
    from .common import PY, VERIF

    path = os.path.join(VERIF, 'replay', 'C18-tables.json')
    os.makedirs(os.path.dirname(path), exist_ok=True)
    with open(path, 'w') as f:
        json.dump({'kind': 'tables'}, f)
    r = subprocess.run([PY, os.path.join(VERIF, 'bin', 'check.py'), 'C18', '--replay', path], capture_output=True, text=True, timeout=1200)
    out = (r.stdout + r.stderr).strip().splitlines()[-1] if (r.stdout + r.stderr).strip() else ''
    if r.returncode == 0:
        chk.traces_validated += 63
    elif r.returncode == 10:
        chk.violations.append(('C18:tables', path, out))
    else:
        chk.harness_error('quadrature table check failed: ' + out[-300:])
    chk.bounds = {'axis / direction': 'all unit vectors (stereographic parametrisation + the south pole separately)', 'geometry': 'base, start anywhere; r, h > 0; symbolic length unit',
                  'quadrature': 'one symbolic reference point of the unit cylinder; tables for every k in 5..15 / 7..25 / 11..35 checked numerically',
                  'transmission': 'abstract 2-point quadrature, 1 detector, 1 wavelength'}
    chk.stubs = ['scipp -> symsc (rotations_from_rotvecs = Rodrigues, asin/atan2 rewrite rules)', 'numpy pi symbolic', 'helpers replaced by recorders for the wiring obligations']
    chk.axioms = ['sin(asin u) = u, cos(asin u) = sqrt(1-u^2); sin/cos(atan2(y,x)) = y,x / sqrt(x^2+y^2)', 'exp > 0, exp(0) = 1, exp <= 1 on non-positive arguments, monotone (instantiated pairwise)',
                  'path length = measure of {t >= 0} inside (interval characterisation via Vieta + 1-d root lemma)']
    chk.assumptions = ["'mc' quadrature and quadrature accuracy for the exponential integrand outside", 'rotation invariance follows from the rotation-invariant (Euclidean) oracle']


def replay_real(case):
    import numpy as np
    import scipp as sc
    from scippneutron.absorption import cylinder as cy
    from scippneutron.absorption import quadratures

    rng = np.random.default_rng(9)
    bad = []
    kind = case['kind']
    if kind == 'material':
        from scippneutron.absorption import compute_transmission_map
        from scippneutron.absorption.material import Material
        from scippneutron.atoms import ScatteringParams

        ldt = case.get('wavelength_dtype', 'float64')
        sp = ScatteringParams(isotope='X', total_scattering_cross_section=sc.scalar(5.0, unit='barn'), absorption_cross_section=sc.scalar(40.0, unit='barn'))
        m_ = Material(scattering_params=sp, effective_sample_number_density=sc.scalar(0.05, unit='1/angstrom**3'))
        shape = cy.Cylinder(symmetry_line=sc.vector([0.0, 1.0, 0.0]), center_of_base=sc.vector([0.0, -0.5, 0.0], unit='mm'), radius=sc.scalar(1.0, unit='mm'), height=sc.scalar(1.0, unit='mm'))
        det = sc.vectors(dims=['det'], values=[[0.0, 0.0, 100.0], [30.0, 5.0, 60.0]], unit='m')
        for unit, vals in (('angstrom', [1, 2, 5, 9]), ('nm', [1, 2]), ('pm', [150, 420])):
            lam = sc.array(dims=['wavelength'], values=vals, unit=unit, dtype=ldt) if ldt.startswith('int') else sc.array(dims=['wavelength'], values=[float(v_) for v_ in vals], unit=unit, dtype=ldt)
            ref_lam = sc.array(dims=['wavelength'], values=[float(v_) for v_ in vals], unit=unit, dtype='float64')
            got = compute_transmission_map(shape, m_, beam_direction=sc.vector([0.0, 0.0, 1.0]), wavelength=lam, detector_position=det, quadrature_kind='cheap')
            # the physical attenuation coefficient, independently
            mu = 0.05e30 * (5.0 + 40.0 * ref_lam.to(unit='angstrom').values / 1.7982) * 1e-28
            got_mu = sc.values(m_.attenuation_coefficient(lam)).to(unit='1/m', dtype='float64').values
            tol = 1e-6 if ldt == 'float32' else 1e-12
            if not np.allclose(got_mu, mu, rtol=tol):
                bad.append(f'attenuation coefficient for {vals} {unit} ({ldt}): {got_mu.tolist()} 1/m, n (sigma_s + sigma_a lambda / 1.7982 A) = {mu.tolist()} 1/m')
                continue
            ref = compute_transmission_map(shape, m_, beam_direction=sc.vector([0.0, 0.0, 1.0]), wavelength=ref_lam, detector_position=det, quadrature_kind='cheap')
            if not np.all((got.values > 0) & (got.values <= 1)) or not np.allclose(got.values, ref.values, rtol=max(tol, 1e-9)):
                bad.append(f'transmission for {vals} {unit} ({ldt}): {got.values.tolist()} vs {ref.values.tolist()} for the same wavelengths in float64')
        return {'reproduced': bool(bad), 'detail': '; '.join(bad[:2])[:600]}

    def inside(cyl_, pts, tol=1e-9):
        a = cyl_.symmetry_line.value
        c = cyl_.center_of_base.value
        d = pts - c
        al = d @ a
        perp = d - np.outer(al, a)
        rr = np.linalg.norm(perp, axis=1)
        r, h = cyl_.radius.to(unit=cyl_.center_of_base.unit).value, cyl_.height.to(unit=cyl_.center_of_base.unit).value
        return (al >= -tol * h) & (al <= h * (1 + tol)) & (rr <= r * (1 + tol))

    if kind == 'tables':
        first_zz = {}
        for name, disk, lo, hi, gen in (('cheap', quadratures.disk12, 5, 15, 'leg'), ('medium', quadratures.disk55, 7, 25, 'cheb'), ('expensive', quadratures.disk256_cheb, 11, 35, 'cheb')):
            for k in range(lo, hi + 1):
                ratio = k / {'cheap': 5, 'medium': 7, 'expensive': 11}[name]
                c_ = cy.Cylinder(symmetry_line=sc.vector([0.0, 0.0, 1.0]), center_of_base=sc.vector([0.0, 0.0, 0.0], unit='m'), radius=sc.scalar(1.0, unit='m'), height=sc.scalar(ratio, unit='m'))
                q = c_._select_quadrature_points(name)
                x, y, z, w = (q[n_].values for n_ in ('x', 'y', 'z', 'weights'))
                if np.any(x * x + y * y > 1 + 1e-12) or np.any(np.abs(z) > 1 + 1e-12):
                    bad.append(f'{name} k={k}: reference point outside the unit cylinder')
                if np.any(w <= 0):
                    bad.append(f'{name} k={k}: non-positive weight')
                # deterministic: asking again (same solid, same kind; other kinds in between share node tables) gives the same rule
                p1, w1 = c_.quadrature(name)
                p2, w2 = c_.quadrature(name)
                if not (np.array_equal(p1.values, p2.values) and np.array_equal(w1.values, w2.values)):
                    bad.append(f'{name} k={k}: a second call of quadrature() returns different points/weights (max weight change {np.abs(w1.values - w2.values).max():.3g})')
                # the axial rule depends on (generator, k) only: its normalised second moment is the same whichever kind uses it
                zz = (w * z * z).sum() / w.sum()
                first_zz.setdefault((gen, k), zz)
                if abs(zz - first_zz[(gen, k)]) > 1e-9:
                    bad.append(f'{name} k={k}: normalised axial second moment {zz} differs from the first use of this {gen} rule ({first_zz[(gen, k)]})')
                if abs(w.sum() - 2 * np.pi) > 1e-6:
                    bad.append(f'{name} k={k}: sum of weights {w.sum()} != 2 pi')
                # low degree = what the product rule is built to integrate: degree <= 2 in the disk, degree <= 1 along the axis
                # (the Chebyshev-based axial rules are not exact for z^2; weaker reading of "low-degree", see DESIGN)
                for (i, j_, l) in ((1, 0, 0), (0, 1, 0), (0, 0, 1), (2, 0, 0), (0, 2, 0), (1, 1, 0), (1, 0, 1), (2, 0, 1)):
                    exact = {(1, 0, 0): 0, (0, 1, 0): 0, (0, 0, 1): 0, (2, 0, 0): np.pi / 2, (0, 2, 0): np.pi / 2, (1, 1, 0): 0, (1, 0, 1): 0, (2, 0, 1): 0}[(i, j_, l)]
                    got = (w * x ** i * y ** j_ * z ** l).sum()
                    if abs(got - exact) > 1e-6:
                        bad.append(f'{name} k={k}: moment x^{i} y^{j_} z^{l} = {got} != {exact}')
        return {'reproduced': bool(bad), 'detail': '; '.join(bad[:3])}
    if kind == 'quadrature':
        for trial in range(200):
            a = rng.normal(size=3)
            if trial % 4 == 0:
                a[2] = -abs(a[2]) - 0.5
            if trial % 25 == 1:
                a = np.array([0.0, 0.0, -1.0])
            a /= np.linalg.norm(a)
            c_ = cy.Cylinder(symmetry_line=sc.vector(a), center_of_base=sc.vector(rng.normal(size=3), unit='m'), radius=sc.scalar(10 ** rng.uniform(-2, 2), unit='m'),
                             height=sc.scalar(10 ** rng.uniform(-2, 2), unit='m'))
            if case.get('mixed_units'):
                # the radius written in another length unit than base and height
                c_ = cy.Cylinder(symmetry_line=c_.symmetry_line, center_of_base=c_.center_of_base, radius=c_.radius.to(unit=['mm', 'cm', 'km'][trial % 3]), height=c_.height)
            for qk in ('cheap', 'medium'):
                pts, w = c_.quadrature(qk)
                ins = inside(c_, pts.values)
                if not ins.all():
                    bad.append(f'axis {a.tolist()}: {int((~ins).sum())} of {len(ins)} {qk} points outside the solid')
                    break
                vol = np.pi * c_.radius.to(unit='m').value ** 2 * c_.height.to(unit='m').value
                if abs(w.to(unit='m^3').values.sum() - vol) > 1e-6 * vol or np.any(w.values <= 0):
                    bad.append('weights do not sum to the volume')
            if bad:
                break
    elif kind == 'path-length':
        for trial in range(400):
            a = rng.normal(size=3)
            a /= np.linalg.norm(a)
            n = rng.normal(size=3)
            if trial % 10 == 0:
                n = a.copy()
            if trial % 10 == 1:
                n = np.cross(a, rng.normal(size=3))
            n /= np.linalg.norm(n)
            c_ = cy.Cylinder(symmetry_line=sc.vector(a), center_of_base=sc.vector(rng.normal(size=3), unit='m'), radius=sc.scalar(rng.uniform(0.2, 2), unit='m'), height=sc.scalar(rng.uniform(0.2, 3), unit='m'))
            p = rng.normal(size=3) * 2
            got = c_.beam_intersection(sc.vector(p, unit='m'), sc.vector(n)).value
            ts = np.linspace(0, 20, 200001)
            ins = inside(c_, p + np.outer(ts, n), tol=0)
            exp = ins.sum() * (ts[1] - ts[0])
            if abs(got - exp) > 2e-3:
                bad.append(f'path length {got} vs sampled {exp}')
                break
    elif kind == 'transmission':
        pass
    return {'reproduced': bool(bad), 'detail': '; '.join(bad[:3])}
