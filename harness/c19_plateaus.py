"""C19 - plateau finding and in-phase filtering return exactly the defined selections."""
from __future__ import annotations

from fractions import Fraction

from .common import ob_dict, run_jobs


class _NP:
    """numpy stand-in for filtering.py: nextafter(x, inf) = x + eps_x with eps_x > 0 (nothing in between)."""

    inf = float('inf')

    def __getattr__(self, name):
        import numpy as np

        return getattr(np, name)

    def nextafter(self, values, direction):
        import numpy as np
        from symex import core as C

        out = np.empty(values.shape, dtype=object)
        for idx in np.ndindex(values.shape):
            NEXT.setdefault('n', 0)
            NEXT['n'] += 1
            e = C.sym_var(f'ulp{NEXT["n"]}', sign='+')
            out[idx] = values[idx] + e
            NEXT.setdefault('pairs', []).append((values[idx], out[idx]))
        return out


def _spacing(self, values):
    """numpy.spacing(x): signed distance to the next representable value *away from zero*."""
    import numpy as np
    from symex import core as C

    out = np.empty(values.shape, dtype=object)
    for idx in np.ndindex(values.shape):
        NEXT.setdefault('n', 0)
        NEXT['n'] += 1
        e = C.sym_var(f'ulp{NEXT["n"]}', sign='+')
        if bool(C.R.lift(values[idx]) >= 0):
            out[idx] = e
            NEXT.setdefault('pairs', []).append((values[idx], values[idx] + e))
        else:
            out[idx] = -e  # x + spacing(x) is the next value *below* a negative x
    return out


_NP.spacing = _spacing


NEXT: dict = {}


def _load():
    from symex import loader

    sc = loader.install_shim()
    flt = loader.load('chopper.filtering')
    flt.np = _NP()
    return sc, flt


def _mk(sc, n, coord_kind):
    import numpy as np
    from symex import core as C
    from symsc.variable import Variable

    y = [C.sym_var(f'y{i}') for i in range(n)]
    if coord_kind == 'int':
        x = [C.sym_var(f'x{i}', is_int=True) for i in range(n)]
        dt, unit = 'int64', 's'
    elif coord_kind == 'datetime':
        # time stamps in milliseconds since the epoch (integers); the tolerance is given per second
        x = [C.sym_var(f'x{i}', is_int=True) for i in range(n)]
        dt, unit = 'datetime64', 'ms'
    else:
        x = [C.sym_var(f'x{i}') for i in range(n)]
        dt, unit = 'float64', 's'
    for a, b in zip(x, x[1:]):
        C.CTX.assume(a < b)  # strictly ascending (equal coordinates give 0/0 slopes)

    def arr(v, u, d):
        a = np.empty((len(v),), dtype=object)
        for i, t in enumerate(v):
            a[i] = t
        return Variable(_arr=a, dims=('time',), unit=sc.Unit(u) if u else None, dtype=getattr(sc.DType, d))

    da = sc.DataArray(arr(y, 'Hz', 'float64'), coords={'time': arr(x, unit, dt)})
    return da, x, y


def job_plateaus(j, seed):
    n, min_n, coord_kind = j
    from symex import core as C
    from .symutil import fresh_run

    sc, flt = _load()
    fresh_run()
    NEXT.clear()
    obs, cands = [], []
    tag = f'plateaus[n={n},min={min_n},{coord_kind}]'
    case = {'kind': 'plateaus', 'n': n, 'min_n': min_n, 'coord': coord_kind}
    da, x, y = _mk(sc, n, coord_kind)
    atol_v = C.sym_var('atol', sign='+')
    atol = sc.scalar(atol_v, unit='Hz/s')
    C.CTX.fork_timeout_ms = 3000
    # every obligation of this job sits under a path condition whose feasibility was decided fork by fork; the separate
    # premise-only query of the vacuity guard sends z3 (nla, integer coordinates) into a computation it cannot be interrupted in
    C.CTX.vacuity_guard = False

    def run():
        NEXT.clear()
        pl = flt.find_plateaus(da, atol=atol, min_n_points=min_n)
        col = flt.collapse_plateaus(pl, coord='time')
        return pl, col, list(NEXT.get('pairs', []))

    paths = C.explore(run, max_paths=3000)

    def chk(name, goal, pc, sig):
        ob = C.prove(f'{tag}:{name}', goal, pc=pc, timeout_ms=20000)
        obs.append(ob_dict(ob))
        if ob.status == 'violated':
            m = {k_: str(v) for k_, v in (ob.model or {}).items()}
            cands.append((sig, {**case, 'model': m}, name))
        return ob

    with C.oracle():
        per_s = Fraction(1000) if coord_kind == 'datetime' else Fraction(1)  # slope in Hz/s: datetime coordinates count milliseconds
        slope = [(y[i + 1] - y[i]) * per_s / (x[i + 1] - x[i]) for i in range(n - 1)]
    nret = 0
    for k, p in enumerate(paths):
        P = f'path{k}'
        if p.inconclusive:
            obs.append({'name': f'{tag}:{P}', 'status': 'inconclusive', 'detail': p.inconclusive[:200], 't': 0})
            continue
        if p.exc is not None:
            if isinstance(p.exc, RuntimeError) and 'exceed the tolerance' in str(p.exc):
                continue  # documented refusal (total drift); the property speaks about returning calls
            obs.append({'name': f'{tag}:{P}:raises', 'status': 'violated', 'detail': repr(p.exc)[:200], 't': 0})
            cands.append(('C19:plateaus:raises', case, repr(p.exc)[:100]))
            continue
        nret += 1
        pl, col, pairs = p.value
        # every slope pattern compatible with this path (exactly one for a correct implementation)
        import itertools
        feasible = []
        for pat in itertools.product([False, True], repeat=n - 1):
            cond = [(abs(slope[i]) > atol_v) if pat[i] else ~(abs(slope[i]) > atol_v) for i in range(n - 1)]
            if C.solve([*C.CTX.assumptions, *p.pc, *cond], want_model=False, timeout_ms=5000).status != 'unsat':
                feasible.append((pat, cond))
        for pat, cond in feasible:
            pcx = [*p.pc, *cond]
            ptxt = ''.join('x' if b_ else '-' for b_ in pat)
            # oracle: maximal runs of consecutive points whose successive slopes stay within the tolerance
            runs = [[0]]
            for i in range(n - 1):
                if pat[i]:
                    runs.append([i + 1])
                else:
                    runs[-1].append(i + 1)
            want = [r for r in runs if len(r) >= min_n]
            nb = len(pl)
            ob = chk(f'{P}[{ptxt}]:number of plateaus = {len(want)}', C.B.const(nb == len(want)), pcx, 'C19:plateaus:selection')
            if nb != len(want):
                continue
            ok = C.TRUE
            for bi, r in enumerate(want):
                content = pl['plateau', bi].value
                vals = list(content.data.values)
                cs = list(content.coords['time'].values)
                if len(vals) != len(r):
                    ok = C.FALSE
                    break
                for m_, i in enumerate(r):
                    ok = ok & (vals[m_] == y[i]) & (cs[m_] == x[i])
            chk(f'{P}[{ptxt}]:bins hold exactly the maximal runs, in input order, contents unchanged', ok, pcx, 'C19:plateaus:selection')
            chk(f'{P}[{ptxt}]:plateau coordinate is 0..n-1', C.all_of([pl.coords['plateau'].values[i] == i for i in range(nb)]), pcx, 'C19:plateaus:coord')
            # collapse: mean and half-open interval [min, next(max)) containing every coordinate of the plateau
            okc = C.TRUE
            for bi, r in enumerate(want):
                with C.oracle():
                    mean = sum((y[i] for i in r), C.R.lift(0)) / len(r)
                okc = okc & (col.data.values[bi] == mean)
                lo, hi = col.coords['time'].values[bi][0], col.coords['time'].values[bi][1]
                okc = okc & (lo == x[r[0]])
                for i in r:
                    okc = okc & (lo <= x[i]) & (x[i] < hi)
                if coord_kind in ('int', 'datetime'):
                    okc = okc & (hi == x[r[-1]] + 1)
                else:
                    # next representable value above the maximum: hi = max + ulp with ulp > 0 (nothing in between)
                    okc = okc & C.any_of([(hi == nx) & (base == x[r[-1]]) for base, nx in pairs])
            chk(f'{P}[{ptxt}]:collapse: mean and [min, next-after max) containing all points', okc, pcx, 'C19:collapse')
    ob = C.prove(f'{tag}:some call returns', C.B.const(nret >= 1))
    obs.append(ob_dict(ob))
    return {'obligations': obs, 'candidates': cands, 'paths': len(paths)}


def job_filter(j, seed):
    n = j
    import numpy as np
    from symex import core as C
    from symsc.variable import Variable
    from .symutil import fresh_run

    sc, flt = _load()
    fresh_run()
    obs, cands = [], []
    case = {'kind': 'filter', 'n': n}
    ref = C.sym_var('ref', sign='+')
    # one symbolic element; further elements are concrete multiples of the reference (in phase, out of phase, in phase)
    # so that mask order / indexing is exercised without multiplying nonlinear variables
    f = [C.sym_var('f0')] + [ref * q for q in (2, Fraction(5, 2), Fraction(1, 3))][: n - 1]
    tol = Fraction(1e-3)
    # quantifier: |f/ref| and |ref/f| below 8 so that the candidate integers can be enumerated in the oracle
    for v in f[:1]:
        C.CTX.assume(abs(v) <= 8 * ref)
        C.CTX.assume((abs(v) * 8 >= ref) | (v == 0))
    a = np.empty((n,), dtype=object)
    for i, v in enumerate(f):
        a[i] = v
    da = sc.DataArray(Variable(_arr=a, dims=('time',), unit=sc.Unit('Hz'), dtype=sc.DType.float64), coords={'time': sc.arange('time', n, unit='s')})
    C.CTX.fork_timeout_ms = 5000
    paths = C.explore(lambda: flt.filter_in_phase(da, reference=sc.scalar(ref, unit='Hz'), rtol=sc.scalar(1e-3)), max_paths=600)

    def near(v):
        with C.oracle():
            c = C.FALSE
            for m in range(-9, 10):
                c = c | (abs(v / ref - m) < tol)
            nz = v != 0
            d = C.FALSE
            for m in range(-9, 10):
                # |ref / v - m| < tol written without dividing by v: a quotient in the goal would bring v != 0 with it as a
                # side condition of the term layer and make the obligation vacuous exactly at f = 0
                d = d | (abs(ref - m * v) < tol * abs(v))
        return c | (nz & d)

    for k, p in enumerate(paths):
        if p.inconclusive:
            obs.append({'name': f'filter:path{k}', 'status': 'inconclusive', 'detail': p.inconclusive[:200], 't': 0})
            continue
        if p.exc is not None:
            obs.append({'name': f'filter:path{k}:raises', 'status': 'violated', 'detail': repr(p.exc)[:200], 't': 0})
            cands.append(('C19:filter:raises', case, repr(p.exc)[:100]))
            continue
        kept = list(p.value.coords['time'].values)
        kept_idx = [int(t.const_value()) for t in kept]
        goal = C.TRUE
        for i in range(n):
            goal = goal & (near(f[i]) if i in kept_idx else ~near(f[i]))
        ob = C.prove(f'filter[n={n}]:path{k}:kept {kept_idx} <=> within rtol of an integer multiple or divisor', goal, pc=p.pc, timeout_ms=30000)
        obs.append(ob_dict(ob))
        if ob.status == 'violated':
            cands.append(('C19:filter', {**case, 'model': {k_: float(v) for k_, v in (ob.model or {}).items()}}, 'wrong selection'))
        vals = list(p.value.data.values)
        ob = C.prove(f'filter[n={n}]:path{k}:kept values unchanged, in order', C.all_of([vals[m] == f[i] for m, i in enumerate(kept_idx)]) & C.B.const(kept_idx == sorted(kept_idx)), pc=p.pc)
        obs.append(ob_dict(ob))
    return {'obligations': obs, 'candidates': cands, 'paths': len(paths)}


def run(chk):
    sc, flt = _load()
    from symex import loader

    chk.functions = loader.describe_exprs(['flt.find_plateaus', 'flt._derive', 'flt._check_total_tolerance', 'flt.collapse_plateaus', 'flt._next_highest', 'flt._is_approximate_multiple', 'flt.filter_in_phase'], {**globals(), **locals()})
    ns = [2, 3] if chk.tier == 'quick' else [2, 3, 4, 5]
    jobs = [(n, m, ck) for n in ns for m in sorted({1, 2, n}) for ck in ('float', 'int')]
    jobs += [(2, 1, 'datetime'), (3, 2, 'datetime')] + ([(3, 1, 'datetime'), (4, 2, 'datetime')] if chk.tier == 'thorough' else [])
    if chk.tier == 'quick':
        jobs += [(4, 2, 'float'), (4, 1, 'int')]
        ns = [2, 3, 4]
    run_jobs(chk, job_plateaus, jobs)
    run_jobs(chk, job_filter, [1, 4])
    chk.bounds = {'points': ns, 'min_n_points': '1, 2, n', 'coordinates': 'float (next value = x + ulp, ulp > 0), int (+1) and datetime64[ms] (integer milliseconds, tolerance per second, +1); strictly ascending',
                  'filter': 'one symbolic element (|f/ref| in [1/8, 8] or f = 0) among up to 3 concrete multiples of the reference, rtol = 1e-3'}
    chk.stubs = ['scipp -> symsc incl. group() on concrete group ids (slope comparisons fork), binned reductions, boolean indexing', 'numpy.nextafter -> x + positive ulp']
    chk.axioms = ['round half-to-even as integer-valued term']
    chk.assumptions = ['calls that raise the documented total-drift RuntimeError are outside the property ("whenever plateau finding returns")',
                       'datetime coordinates: unit ms in the symbolic jobs (other units in the replay only)']


def replay_real(case):
    import numpy as np
    import scipp as sc
    from scippneutron.chopper import filtering as flt

    rng = np.random.default_rng(6)
    bad = []
    if case['kind'] == 'plateaus' and case.get('coord') == 'datetime':
        # time stamps with a unit finer than seconds; the tolerance is per second.  The solver's counterexample first.
        n0, min_n = case['n'], case['min_n']
        model = case.get('model') or {}
        from fractions import Fraction as F
        trials = []
        if all(f'x{i}' in model and f'y{i}' in model for i in range(n0)) and 'atol' in model:
            trials.append(('ms', np.array([int(F(model[f'x{i}'])) for i in range(n0)], dtype='int64'), np.array([float(F(model[f'y{i}'])) for i in range(n0)]), float(F(model['atol']))))
        for t_ in range(200):
            n = int(rng.integers(max(2, n0), n0 + 6))
            unit = ['ms', 'us', 'ns', 's'][t_ % 4]
            per = {'s': 1, 'ms': 10**3, 'us': 10**6, 'ns': 10**9}[unit]
            x = np.cumsum(rng.integers(max(1, per // 5), 3 * per, size=n)).astype('int64')
            level, y = 0.0, []
            for i in range(n):
                if rng.random() < 0.3:
                    level += rng.choice([-1, 1]) * rng.uniform(5, 10)
                y.append(level + rng.uniform(-0.01, 0.01))
            trials.append((unit, x, np.array(y), 0.5))
        for unit, x, y, at in trials:
            per = {'s': 1, 'ms': 10**3, 'us': 10**6, 'ns': 10**9}[unit]
            epoch = np.datetime64('2024-03-01T12:00:00', unit)
            da = sc.DataArray(sc.array(dims=['time'], values=y, unit='Hz'), coords={'time': sc.datetimes(dims=['time'], values=epoch + x.astype(f'timedelta64[{unit}]'), unit=unit)})
            try:
                pl = flt.find_plateaus(da, atol=sc.scalar(at, unit='Hz/s'), min_n_points=min_n)
            except RuntimeError:
                continue
            sl = [abs(F(float(y[i + 1])) - F(float(y[i]))) * per / int(x[i + 1] - x[i]) > F(at) for i in range(len(x) - 1)]
            runs = [[0]]
            for i, b in enumerate(sl):
                if b:
                    runs.append([i + 1])
                else:
                    runs[-1].append(i + 1)
            want = [r for r in runs if len(r) >= min_n]
            got = [list(pl['plateau', i].value.values) for i in range(len(pl))]
            if got != [[y[i] for i in r] for r in want]:
                bad.append(f'datetime64[{unit}] offsets {x.tolist()} y={y.tolist()} atol={at} Hz/s: plateaus {got} vs {[[y[i] for i in r] for r in want]}')
                break
        return {'reproduced': bool(bad), 'detail': '; '.join(bad[:2])[:600]}
    if case['kind'] == 'plateaus':
        n0, min_n = case['n'], case['min_n']
        model = case.get('model') or {}
        for trial in range(400):
            n = int(rng.integers(max(2, n0), n0 + 6))
            x = np.cumsum(rng.uniform(0.5, 2.0, size=n))
            if trial == 0 and all(f'x{i}' in model and f'y{i}' in model for i in range(n0)) and 'atol' in model:
                # the solver's own counterexample (exact rationals -> nearest doubles)
                from fractions import Fraction as F
                n = n0
                xs = np.array([float(F(model[f'x{i}'])) for i in range(n)])
                ys = np.array([float(F(model[f'y{i}'])) for i in range(n)])
                at = float(F(model['atol']))
                da = sc.DataArray(sc.array(dims=['time'], values=ys, unit='Hz'), coords={'time': sc.array(dims=['time'], values=xs if case['coord'] != 'int' else xs.astype('int64'), unit='s')})
                try:
                    pl = flt.find_plateaus(da, atol=sc.scalar(at, unit='Hz/s'), min_n_points=min_n)
                    sl = np.abs(np.diff(ys) / np.diff(xs)) > at
                    runs = [[0]]
                    for i, b in enumerate(sl):
                        if b:
                            runs.append([i + 1])
                        else:
                            runs[-1].append(i + 1)
                    want = [r for r in runs if len(r) >= min_n]
                    got = [list(pl['plateau', i].value.values) for i in range(len(pl))]
                    if got != [[ys[i] for i in r] for r in want]:
                        bad.append(f'x={xs.tolist()} y={ys.tolist()} atol={at}: plateaus {got} vs {[[ys[i] for i in r] for r in want]}')
                        break
                    col = flt.collapse_plateaus(pl, coord='time')
                    for bi, r in enumerate(want):
                        lo, hi = col.coords['time'].values[bi]
                        nxt = xs[r[-1]] + 1 if case['coord'] == 'int' else np.nextafter(xs[r[-1]], np.inf)
                        if not (lo == xs[r[0]] and hi == nxt and all(lo <= xs[i] < hi for i in r)):
                            bad.append(f'collapse of plateau {r} (times {xs[r].tolist()}): interval [{lo!r}, {hi!r}) instead of [{xs[r[0]]!r}, {nxt!r})')
                            break
                    if bad:
                        break
                except RuntimeError:
                    pass
                continue
            if case['coord'] == 'int':
                x = np.cumsum(rng.integers(1, 4, size=n)).astype('int64')
            level = 0.0
            y = []
            for i in range(n):
                if rng.random() < 0.3:
                    level += rng.choice([-1, 1]) * rng.uniform(5, 10)
                y.append(level + rng.uniform(-0.01, 0.01))
            y = np.array(y)
            atol = 0.5
            da = sc.DataArray(sc.array(dims=['time'], values=y, unit='Hz'), coords={'time': sc.array(dims=['time'], values=x, unit='s')})
            try:
                pl = flt.find_plateaus(da, atol=sc.scalar(atol, unit='Hz/s'), min_n_points=min_n)
            except RuntimeError:
                continue
            sl = np.abs(np.diff(y) / np.diff(x.astype(float))) > atol
            runs = [[0]]
            for i, b in enumerate(sl):
                if b:
                    runs.append([i + 1])
                else:
                    runs[-1].append(i + 1)
            want = [r for r in runs if len(r) >= min_n]
            got = [list(pl['plateau', i].value.values) for i in range(len(pl))]
            if got != [[y[i] for i in r] for r in want]:
                bad.append(f'plateaus {got} vs {[[y[i] for i in r] for r in want]}')
                break
            col = flt.collapse_plateaus(pl, coord='time')
            for bi, r in enumerate(want):
                lo, hi = col.coords['time'].values[bi]
                if not (abs(col.values[bi] - np.mean(y[r])) < 1e-12 and lo == x[r[0]] and all(lo <= x[i] < hi for i in r)):
                    bad.append(f'collapse of {r}: mean {col.values[bi]} interval [{lo},{hi})')
                    break
    else:
        m_ = case.get('model') or {}
        if 'f0' in m_ and 'ref' in m_:
            # the solver's counterexample first (exact rationals -> nearest doubles)
            ref = float(m_['ref'])
            n_ = case.get('n', 1)
            f = np.array([float(m_['f0']), *[ref * q for q in (2.0, 2.5, 1.0 / 3.0)][: n_ - 1]])
            da = sc.DataArray(sc.array(dims=['time'], values=f, unit='Hz'), coords={'time': sc.arange('time', len(f), unit='s')})
            out = flt.filter_in_phase(da, reference=sc.scalar(ref, unit='Hz'), rtol=sc.scalar(1e-3))

            def near0(v):
                from fractions import Fraction as F
                q = F(v) / F(ref)
                if abs(round(q) - q) < F(1e-3):
                    return True
                return v != 0 and abs(round(1 / q) - 1 / q) < F(1e-3)
            want = [v for v in f if near0(v)]
            if list(out.values) != want:
                bad.append(f'filter_in_phase(reference={ref!r}, rtol=1e-3) kept {list(out.values)} of {f.tolist()}, expected {want}')
                return {'reproduced': True, 'detail': bad[0]}
        for trial in range(300):
            ref = 14.0
            f = np.array([rng.choice([ref * m for m in (1, 2, 3)] + [ref / m for m in (2, 3)] + [0.0, -ref]) * (1 + rng.choice([0, 5e-4, -5e-4, 2e-3, -2e-3])) for _ in range(5)])
            da = sc.DataArray(sc.array(dims=['time'], values=f, unit='Hz'), coords={'time': sc.arange('time', 5, unit='s')})
            out = flt.filter_in_phase(da, reference=sc.scalar(ref, unit='Hz'), rtol=sc.scalar(1e-3))
            def near(v):
                q = v / ref
                if abs(round(q) - q) < 1e-3:
                    return True
                return v != 0 and abs(round(ref / v) - ref / v) < 1e-3
            want = [v for v in f if near(v)]
            if list(out.values) != want:
                bad.append(f'filter kept {list(out.values)} expected {want}')
                break
    return {'reproduced': bool(bad), 'detail': '; '.join(bad[:2])}
