"""C20 - bundled nuclear data are returned verbatim; attenuation follows the 1/v law."""
from __future__ import annotations

import builtins
from fractions import Fraction

from .common import ob_dict, run_jobs

ATTRS = [('coherent_scattering_length_re', 'fm'), ('coherent_scattering_length_im', 'fm'), ('incoherent_scattering_length_re', 'fm'),
         ('incoherent_scattering_length_im', 'fm'), ('coherent_scattering_cross_section', 'barn'), ('incoherent_scattering_cross_section', 'barn'),
         ('total_scattering_cross_section', 'barn'), ('absorption_cross_section', 'barn')]


class SymLine(str):
    """A CSV line given by its fields (symbolic or concrete strings without commas/newlines)."""

    def __new__(cls, fields):
        self = super().__new__(cls, ','.join(builtins.str.__str__(f) for f in fields) + '\n')
        self.fields = list(fields)
        return self

    def split(self, sep=None, maxsplit=-1):
        assert sep == ','
        if maxsplit == 1:
            return [self.fields[0], SymLine(self.fields[1:])]
        return list(self.fields)

    def rstrip(self, *a):
        return self

    def __bool__(self):
        return True


class FakeFile:
    def __init__(self, lines):
        self.lines = list(lines)
        self.pos = 0

    def readline(self):
        if self.pos >= len(self.lines):
            return ''
        ln = self.lines[self.pos]
        self.pos += 1
        return ln

    def __iter__(self):
        while True:
            ln = self.readline()
            if not ln:
                return
            yield ln

    def readlines(self):
        return list(self)

    def close(self):
        pass

    def __enter__(self):
        return self

    def __exit__(self, *a):
        return False


class FakeImportlib:
    """Stand-in for the module-global `importlib` of scippneutron.atoms: the bundled data files are the I/O boundary.
    importlib.resources.files(pkg).joinpath(name).open('r') -> a fake file of symbolic lines (per file name)."""

    def __init__(self, files):
        self._files = files
        self.resources = self

    def __getattr__(self, name):
        import importlib

        return getattr(importlib, name)

    def files(self, pkg):
        return self

    def joinpath(self, name):
        outer = self

        class _P:
            def open(self, *a, **k):
                return outer._files[name]()

            def read_text(self, *a, **k):
                raise NotImplementedError

        return _P()

    def __truediv__(self, name):
        return self.joinpath(name)


_CONV: dict = {}
_UNIQ = {'n': 0}


def _decimal_lang():
    """Decimal literals as they occur in the tables: sign, digits with optional fraction, optional exponent."""
    import z3

    d = z3.Range('0', '9')
    sign = z3.Option(z3.Union(z3.Re(z3.StringVal('+')), z3.Re(z3.StringVal('-'))))
    mant = z3.Union(z3.Concat(z3.Plus(d), z3.Option(z3.Concat(z3.Re(z3.StringVal('.')), z3.Star(d)))), z3.Concat(z3.Re(z3.StringVal('.')), z3.Plus(d)))
    exp = z3.Option(z3.Concat(z3.Union(z3.Re(z3.StringVal('e')), z3.Re(z3.StringVal('E'))), sign, z3.Plus(d)))
    return z3.Concat(sign, mant, exp)


def _pyfloat_lang():
    """What float() accepts (digit-group underscores not modelled): white space, decimal literal or inf/nan, white space."""
    import z3
    from symex.symstr import _WS, _ci

    sign = z3.Option(z3.Union(z3.Re(z3.StringVal('+')), z3.Re(z3.StringVal('-'))))
    special = z3.Concat(sign, z3.Union(_ci('inf'), _ci('infinity'), _ci('nan')))
    ws = z3.Star(_WS())
    return z3.Concat(ws, z3.Union(_decimal_lang(), special), ws)


def cell_language(s):
    """Assumption on table cells: blank or a decimal literal (optionally with exponent), no white space."""
    import z3
    from symex import core as C

    return C.B('z3', z3.InRe(s.z, z3.Union(z3.Re(z3.StringVal('')), _decimal_lang())))


def symfloat(s=0.0):
    import z3
    from symex import core as C
    from symex.symstr import SymStr

    if isinstance(s, SymStr):
        if getattr(s, 'z', None) is None:
            raise C.Unsupported('float() of a derived symbolic string')
        if not bool(C.B('z3', z3.InRe(s.z, _pyfloat_lang()))):
            raise ValueError(f'could not convert string to float: {s.sname}')
        root = getattr(s, 'root', s)  # float() ignores surrounding white space: strip() does not change the value
        k = ('float', root.idx)
        if k not in _CONV:
            _CONV[k] = C.sym_var(f'float({root.sname})')
        return _CONV[k]
    return builtins.float(s)


def floatvar(s):
    """The uninterpreted value float(<field>) without going through the acceptance test (oracle side)."""
    from symex import core as C

    root = getattr(s, 'root', s)
    k = ('float', root.idx)
    if k not in _CONV:
        _CONV[k] = C.sym_var(f'float({root.sname})')
    return _CONV[k]


def symint(s=0, *a):
    from symex import core as C
    from symex.symstr import SymStr

    if isinstance(s, SymStr) and s.sname.startswith('massnumber('):
        return _MassNumber(s)  # only code that converts the captured digits gets here
    if isinstance(s, SymStr):
        k = ('int', s.idx)
        if k not in _CONV:
            _CONV[k] = C.sym_var(f'int({s.sname})', is_int=True)
        return _CONV[k]
    return builtins.int(s, *a)


class _MassNumber:
    """int(<digits captured from the name>): renders as the canonical decimal text of the number (leading zeros dropped), which is
    what an f-string or str() of the integer gives; as a token string it takes part in later comparisons symbolically."""

    def __init__(self, dg):
        import z3
        from symex import core as C
        from symex.symstr import SymStr

        self.digits = dg
        self.canon = SymStr(f'str(int({dg.sname}))')
        zeros = z3.String(f'zeros!{self.canon.idx}')
        d09, d19 = z3.Range('0', '9'), z3.Range('1', '9')
        C.CTX.pc.append(C.B('z3', z3.And(dg.z == z3.Concat(zeros, self.canon.z), z3.InRe(zeros, z3.Star(z3.Re(z3.StringVal('0')))),
                                          z3.InRe(self.canon.z, z3.Union(z3.Concat(d19, z3.Star(d09)), z3.Re(z3.StringVal('0')))),
                                          z3.Or(z3.Length(zeros) == 0, self.canon.z != z3.StringVal('0'), z3.Length(self.canon.z) == 1))))

    def __format__(self, spec):
        from symex import core as C

        if spec:
            raise C.Unsupported('format spec on a symbolic integer')
        return str.__str__(self.canon)

    def __str__(self):
        return self.canon


def _isotope_match(string, capture_digits=False, full=False):
    """re.match of the isotope pattern, r'(?:\\d+)?([a-zA-Z]+)' or with the digits captured, with the capture groups
    reconstructed: name = digits* letters+ rest, letters maximal (rest does not start with a letter)."""
    import z3
    from symex import core as C
    from symex.symstr import SymStr

    digits = z3.Star(z3.Range('0', '9'))
    letter = z3.Union(z3.Range('a', 'z'), z3.Range('A', 'Z'))
    letters = z3.Plus(letter)
    ok = C.B('z3', z3.InRe(string.z, z3.Concat(digits, letters, z3.Full(z3.ReSort(z3.StringSort())))))
    if not bool(ok):
        return None
    elem = SymStr(f'element({string.sname})')
    dg = SymStr(f'massnumber({string.sname})')
    rest = z3.String(f'rest!{elem.idx}')
    nonletter_start = z3.Or(z3.Length(rest) == 0, z3.Not(z3.InRe(z3.SubString(rest, 0, 1), letter)))
    if full:
        if not bool(C.B('z3', z3.InRe(string.z, z3.Concat(digits, letters)))):
            return None
        nonletter_start = z3.Length(rest) == 0
    C.CTX.pc.append(C.B('z3', z3.And(string.z == z3.Concat(dg.z, elem.z, rest), z3.InRe(dg.z, digits), z3.InRe(elem.z, letters), nonletter_start)))

    class M:
        def _groups(self):
            if not capture_digits:
                return (elem,)
            # an optional group that did not take part in the match is None
            return (dg if bool(C.B('z3', z3.Length(dg.z) > 0)) else None, elem)

        def __getitem__(self, i):
            return self.group(i)

        def group(self, i=0):
            if i == 0:
                raise C.Unsupported('whole-match group of the isotope pattern')
            return self._groups()[i - 1]

        def groups(self):
            return self._groups()

    return M()


def SymRe():
    from symex import symre
    from symex.symre import SymReModule

    symre.SPECIAL[('match', r'(?:\d+)?([a-zA-Z]+)')] = _isotope_match
    symre.SPECIAL[('match', r'(\d+)?([a-zA-Z]+)')] = lambda s_: _isotope_match(s_, capture_digits=True)
    symre.SPECIAL[('fullmatch', r'(?:\d+)?([a-zA-Z]+)')] = lambda s_: _isotope_match(s_, full=True)
    symre.SPECIAL[('fullmatch', r'(\d+)?([a-zA-Z]+)')] = lambda s_: _isotope_match(s_, capture_digits=True, full=True)

    return SymReModule(special={('match', r'(?:\d+)?([a-zA-Z]+)'): _isotope_match,
                                ('match', r'(\d+)?([a-zA-Z]+)'): lambda s_: _isotope_match(s_, capture_digits=True)})


def _load():
    from symex import loader

    sc = loader.install_shim()
    atoms = loader.load('atoms')
    atoms.float = symfloat
    atoms.int = symint
    atoms.re = SymRe()
    mat = loader.load('absorption.material')
    return sc, atoms, mat


def _cells(C, pc, extra):
    """Concrete cell texts of a counterexample (z3 string model)."""
    import z3

    m = C.solve([*C.CTX.assumptions, *pc, *extra])
    out = {}
    if m.status == 'sat':
        zm = m.solver.model()
        for d in zm.decls():
            if d.name() in ('value', 'std'):
                out[d.name()] = zm[d].as_string()
    return out


def job_row(j, seed):
    """Generic row: fields (2k, 2k+1) symbolic -> attribute k = (value, std^2, unit); blank value -> None."""
    kattr = j
    from symex import core as C
    from symex import symstr
    from symex.symstr import SymStr
    from .symutil import fresh_run

    sc, atoms, mat = _load()
    fresh_run()
    symstr.reset()
    _CONV.clear()
    obs, cands = [], []
    case = {'kind': 'row', 'attr': kattr}
    name, unit = ATTRS[kattr]

    def run():
        fields = []
        for k in range(8):
            if k == kattr:
                fv_, fs_ = SymStr('value'), SymStr('std')
                # table cells: blank or a decimal literal, possibly with exponent (assumption on the data files)
                C.CTX.pc.append(cell_language(fv_))
                C.CTX.pc.append(cell_language(fs_))
                fields += [fv_, fs_]
            else:
                fields += ['1.5', ''] if k % 2 else ['', '']
        _UNIQ['n'] += 1
        iso = f'X{_UNIQ["n"]}'  # a new name on every execution: the public lookup is cached per name
        atoms.importlib = FakeImportlib({'scattering_parameters.csv': lambda: FakeFile([SymLine(['isotope', *['h'] * 16]), SymLine([iso, *fields])])})
        sp = atoms.ScatteringParams.for_isotope(iso)
        return sp, fields[2 * kattr], fields[2 * kattr + 1]

    paths = C.explore(run)
    for k, p in enumerate(paths):
        if p.exc is not None or p.inconclusive:
            obs.append({'name': f'row[{name}]:path{k}', 'status': 'inconclusive' if p.inconclusive else 'violated', 'detail': str(p.inconclusive or repr(p.exc))[:200], 't': 0})
            if p.exc is not None:
                cands.append(('C20:row:raises', {**case, 'cells': _cells(C, p.pc, [])}, repr(p.exc)[:100]))
            continue
        sp, fv, fs = p.value
        import z3
        empty_v = C.B('z3', z3.Length(fv.z) == 0)
        empty_s = C.B('z3', z3.Length(fs.z) == 0)
        got = getattr(sp, name)
        if got is None:
            ob_goal = empty_v
            ob = C.prove(f'row[{name}]:path{k}:None <=> blank value field', empty_v, pc=p.pc)
        else:
            good = C.B.const(got.unit == sc.Unit(unit)) & ~empty_v & (got.value == floatvar(fv))
            if got.variance is None:
                good = good & empty_s
            else:
                good = good & ~empty_s & (got.variance == floatvar(fs) * floatvar(fs))
            ob_goal = good
            ob = C.prove(f'row[{name}]:path{k}:value = field {2 * kattr}, variance = field {2 * kattr + 1} squared, unit {unit}', good, pc=p.pc)
        obs.append(ob_dict(ob))
        if ob.status == 'violated':
            cands.append(('C20:row', {**case, 'cells': _cells(C, p.pc, [~ob_goal])}, f'{name} not taken verbatim from its columns'))
        # the other attributes come from their own (concrete) columns
        okc = True
        for k2, (n2, u2) in enumerate(ATTRS):
            if k2 == kattr:
                continue
            v2 = getattr(sp, n2)
            if k2 % 2:
                okc = okc and v2 is not None and v2.unit == sc.Unit(u2) and v2.variance is None and bool(v2.value == Fraction(3, 2))
            else:
                okc = okc and v2 is None
        ob = C.prove(f'row[{name}]:path{k}:other attributes unaffected', C.B.const(okc), pc=p.pc)
        obs.append(ob_dict(ob))
        if not okc:
            cands.append(('C20:row', case, 'column mapping shifted'))
    return {'obligations': obs, 'candidates': cands, 'paths': len(paths)}


def job_lookup(j, seed):
    """Linear scan: returns row i iff names[i] == query and no earlier row matches; otherwise rejects."""
    nrows = j
    import z3
    from symex import core as C
    from symex import symstr
    from symex.symstr import SymStr
    from .symutil import fresh_run

    sc, atoms, mat = _load()
    fresh_run()
    symstr.reset()
    _CONV.clear()
    obs, cands = [], []
    case = {'kind': 'lookup', 'nrows': nrows}

    def run():
        names = [SymStr(f'name{i}') for i in range(nrows)]
        q = SymStr('query')
        lines = [SymLine([names[i], f'{i}.0', '', *[''] * 14]) for i in range(nrows)]
        atoms.importlib = FakeImportlib({'scattering_parameters.csv': lambda: FakeFile(lines)})
        try:
            sp = atoms.ScatteringParams.for_isotope(q)
            r = int(builtins.float(sp.coherent_scattering_length_re.value.const_value()))
        except ValueError:
            r = None
        return r, names, q

    paths = C.explore(run, max_paths=64)
    for k, p in enumerate(paths):
        if p.exc is not None or p.inconclusive:
            obs.append({'name': f'lookup[{nrows}]:path{k}', 'status': 'inconclusive' if p.inconclusive else 'violated', 'detail': str(p.inconclusive or repr(p.exc))[:200], 't': 0})
            continue
        r, names, q = p.value
        eq = [C.B('z3', names[i].z == q.z) for i in range(nrows)]
        if r is None:
            goal = C.all_of([~e for e in eq])
            nm = 'None <=> no row name equals the query'
        else:
            i = r
            goal = eq[i] & C.all_of([~eq[m] for m in range(i)])
            nm = f'row {i} <=> first row whose name equals the query exactly'
        ob = C.prove(f'lookup[{nrows}]:path{k}:{nm}', goal, pc=p.pc)
        obs.append(ob_dict(ob))
        if ob.status == 'violated':
            cands.append(('C20:lookup', case, nm))
    return {'obligations': obs, 'candidates': cands, 'paths': len(paths)}


def job_history(j, seed):
    """A lookup answers from the table whatever callers did to the results of earlier lookups of the same name: one
    lookup - arbitrary in-place edits of every quantity of its result - lookup again (inductive step: the cached entry is
    the only state a lookup leaves behind)."""
    edit = j
    import dataclasses
    from symex import core as C
    from symsc import variable as V
    from .symutil import fresh_run

    sc, atoms, mat = _load()
    fresh_run()
    _CONV.clear()
    obs, cands = [], []
    case = {'kind': 'history', 'edit': edit}
    cells = ['1.5', '0.25', '', '', '2.5', '0.5', '', '', '3.5', '0.75', '4.5', '1.25', '5.5', '1.5', '6.5', '1.75']
    lines = [SymLine(['Zz', *['9.0', '0.1'] * 8]), SymLine(['Qq', *cells])]

    def run():
        atoms.importlib = FakeImportlib({'scattering_parameters.csv': lambda: FakeFile(lines)})
        try:
            atoms.ScatteringParams._cached_for_isotope.cache_clear()
        except AttributeError:
            pass
        first = atoms.ScatteringParams.for_isotope('Qq')
        snap = {}
        for f_ in dataclasses.fields(first):
            v = getattr(first, f_.name)
            if isinstance(v, V.Variable):
                snap[f_.name] = (v.value, v.variance, v.unit, v)
                # the caller's edits: arbitrary new value / variance, scaling in place, or another unit label
                if edit == 'value':
                    v.value = C.sym_var(f'new_{f_.name}')
                    if v.variance is not None:
                        v.variance = C.sym_var(f'newvar_{f_.name}', sign='0+')
                elif edit == 'inplace':
                    v *= C.sym_var(f'k_{f_.name}', sign='+')
                else:
                    v.unit = 'm'
            else:
                snap[f_.name] = v
        second = atoms.ScatteringParams.for_isotope('Qq')
        return snap, second

    paths = C.explore(run, max_paths=16)
    for k, p in enumerate(paths):
        if p.exc is not None or p.inconclusive:
            obs.append({'name': f'history[{edit}]:path{k}', 'status': 'inconclusive' if p.inconclusive else 'violated', 'detail': str(p.inconclusive or repr(p.exc))[:200], 't': 0})
            if p.exc is not None:
                cands.append(('C20:history', case, repr(p.exc)[:100]))
            continue
        snap, second = p.value
        nvar = 0
        for name, was in snap.items():
            now = getattr(second, name)
            if not isinstance(was, tuple):
                goal = C.B.const(now == was)
            else:
                nvar += 1
                val, var, unit, obj = was
                goal = C.B.const(isinstance(now, V.Variable) and now is not obj and now._buf.id != obj._buf.id and now.unit == unit and (now.variance is None) == (var is None))
                if isinstance(now, V.Variable):
                    goal = goal & (C.R.lift(now.value) == C.R.lift(val))
                    if var is not None and now.variance is not None:
                        goal = goal & (C.R.lift(now.variance) == C.R.lift(var))
            ob = C.prove(f'history[{edit}]:path{k}:{name} of a later lookup is the tabulated one (value, uncertainty, unit; an object of its own)', goal, pc=p.pc)
            obs.append(ob_dict(ob))
            if ob.status != 'discharged':
                cands.append(('C20:history', case, f'{name} of a later lookup of the same name follows the caller\'s edit of an earlier result'))
        ob = C.prove(f'history[{edit}]:path{k}:quantities compared: {nvar}', C.B.const(nvar >= 4))
        obs.append(ob_dict(ob))
    return {'obligations': obs, 'candidates': cands, 'paths': len(paths)}


def job_atom(j, seed):
    """Atom.for_isotope over fake tables: z and weight from the element row, mass only for specific isotopes, header lines skipped."""
    import z3
    from symex import core as C
    from symex import symstr
    from symex.symstr import SymStr
    from .symutil import fresh_run

    sc, atoms, mat = _load()
    fresh_run()
    symstr.reset()
    _CONV.clear()
    obs, cands = [], []
    case = {'kind': 'atom'}
    files = {}

    def opener(name):
        return files[name]()

    atoms.importlib = FakeImportlib(type('L', (), {'__getitem__': lambda self, name: (lambda: opener(name))})())
    C.CTX.fork_timeout_ms = 5000

    def run():
        q = SymStr('query')
        en = SymStr('elemname')
        iso = SymStr('isoname')
        zf, wf, ef = SymStr('zfield'), SymStr('wfield'), SymStr('werr')
        mf, me = SymStr('mfield'), SymStr('merr')
        for fld in (wf, ef, mf, me):
            C.CTX.pc.append(cell_language(fld))
        # header lines look like data lines with a matching name: they must be skipped, not matched
        files['atomic_weights.csv'] = lambda: FakeFile([SymLine([q, '999', '9', '9']), SymLine([en, '998', '8', '8']), SymLine([en, zf, wf, ef])])
        files['atomic_masses.csv'] = lambda: FakeFile([SymLine([q, '7', '7']), SymLine([q, '6', '6']), SymLine([iso, mf, me])])
        a = atoms.Atom.for_isotope.__wrapped__(q)
        return a, q, en, iso, (zf, wf, ef, mf, me)

    paths = C.explore(run, max_paths=200)
    nval = 0
    for k, p in enumerate(paths):
        if p.inconclusive:
            obs.append({'name': f'atom:path{k}', 'status': 'inconclusive', 'detail': p.inconclusive[:200], 't': 0})
            continue
        if p.exc is not None:
            if isinstance(p.exc, ValueError | TypeError):
                continue  # rejection of a name that is not in the tables / not an isotope name
            obs.append({'name': f'atom:path{k}:raises', 'status': 'violated', 'detail': repr(p.exc)[:200], 't': 0})
            cands.append(('C20:atom:raises', case, repr(p.exc)[:100]))
            continue
        nval += 1
        a, q, en, iso, (zf, wf, ef, mf, me) = p.value
        good = (a.z == symint(zf))
        ob = C.prove(f'atom:path{k}:z is the integer of the element row (header rows skipped)', good, pc=p.pc)
        obs.append(ob_dict(ob))
        if ob.status == 'violated':
            cands.append(('C20:atom:z', case, 'atomic number not from the element row'))
        if a._atomic_weight is not None:
            ob = C.prove(f'atom:path{k}:weight verbatim [Da]', (a._atomic_weight.value == floatvar(wf)) & C.B.const(a._atomic_weight.unit == sc.Unit('Da')), pc=p.pc)
            obs.append(ob_dict(ob))
            if ob.status == 'violated':
                cands.append(('C20:atom:weight', case, 'weight'))
        if a._atomic_mass is None:
            # mass absent <=> query is an element name (equals its own element part) or the table is blank
            elem_atoms = [s for s in symstr._REG.values() if s.sname.startswith('element(')]
            goal = C.any_of([C.B('z3', s.z == q.z) for s in elem_atoms]) | C.B('z3', z3.Length(mf.z) == 0)
            ob = C.prove(f'atom:path{k}:no mass => element name (or blank table entry)', goal, pc=p.pc)
        else:
            goal = (a._atomic_mass.value == floatvar(mf)) & C.B('z3', iso.z == q.z) & C.B.const(a._atomic_mass.unit == sc.Unit('Da'))
            ob = C.prove(f'atom:path{k}:mass verbatim from the row whose name equals the query (header rows skipped)', goal, pc=p.pc)
        obs.append(ob_dict(ob))
        if ob.status == 'violated':
            cands.append(('C20:atom:mass', case, 'mass'))
    ob = C.prove('atom:some lookup succeeds', C.B.const(nval >= 1))
    obs.append(ob_dict(ob))
    return {'obligations': obs, 'candidates': cands, 'paths': len(paths)}


def job_attenuation(j, seed):
    from symex import core as C
    from .symutil import fresh_run, si_value, sym_scalar, sym_unit

    sc, atoms, mat = _load()
    fresh_run()
    obs, cands = [], []
    lam_dtype = j if isinstance(j, str) else 'float64'
    case = {'kind': 'attenuation', 'wavelength_dtype': lam_dtype}
    ss = sym_scalar('sigma_s', 'barn')
    sa = sym_scalar('sigma_a', 'barn')
    n = sym_scalar('n', sym_unit('n', '1/m**3'))
    lam = sym_scalar('lam', sym_unit('lam', 'm'), lam_dtype)
    sp = atoms.ScatteringParams(isotope='X', total_scattering_cross_section=ss, absorption_cross_section=sa)
    m = mat.Material(scattering_params=sp, effective_sample_number_density=n)
    paths = C.explore(lambda: m.attenuation_coefficient(lam))
    p = paths[0]
    if p.exc is not None or p.inconclusive:
        obs.append({'name': 'attenuation:runs', 'status': 'inconclusive' if p.inconclusive else 'violated', 'detail': str(p.inconclusive or repr(p.exc))[:200], 't': 0})
        if p.exc is not None:
            cands.append(('C20:attenuation:raises', case, repr(p.exc)[:100]))
        return {'obligations': obs, 'candidates': cands, 'paths': 1}
    mu = p.value
    with C.oracle():
        ref = Fraction(1.7982) * Fraction(1, 10**10)  # the double 1.7982 (angstrom) in m
        exp = si_value(n) * (si_value(ss) + si_value(sa) * si_value(lam) / ref)
    ob = C.prove(f'attenuation[{lam_dtype} wavelength]: mu = n (sigma_s + sigma_a lambda / 1.7982 A)', si_value(mu) == exp)
    obs.append(ob_dict(ob))
    if ob.status == 'violated':
        cands.append(('C20:attenuation', case, '1/v law'))
    ob = C.prove('attenuation: inverse length', C.B.const(mu.unit.dim == sc.Unit('1/m').dim))
    obs.append(ob_dict(ob))
    ob = C.prove('reference wavelength = 1.7982 angstrom', C.B.const(atoms.reference_wavelength().unit == sc.Unit('angstrom')) & (atoms.reference_wavelength().value == Fraction(1.7982)))
    obs.append(ob_dict(ob))
    return {'obligations': obs, 'candidates': cands, 'paths': 1}


def run(chk):
    sc, atoms, mat = _load()
    from symex import loader

    chk.functions = loader.describe_exprs(['atoms.ScatteringParams._parse_line', 'atoms._assemble_scalar', 'atoms._find_line_with_isotope', 'atoms._load_atomic_weight', 'atoms._load_atomic_mass', 'atoms._parse_isotope_name', 'atoms.Atom.for_isotope.__wrapped__', 'atoms.reference_wavelength', 'mat.Material.attenuation_coefficient'], {**globals(), **locals()})
    from symex import symre
    nval, mism = symre.self_test()
    chk.traces_validated += nval
    if mism:
        chk.harness_error(f'regex translator disagrees with Python re: {mism[:3]}')
    run_jobs(chk, job_row, list(range(8)))
    run_jobs(chk, job_lookup, [1, 2, 3] if chk.tier == 'quick' else [1, 2, 3, 4, 5])
    run_jobs(chk, job_atom, [0])
    run_jobs(chk, job_history, ['value', 'inplace', 'unit'])
    run_jobs(chk, job_attenuation, ['float64', 'float32', 'int64'])
    # complete enumeration of the bundled tables through the real lookups (real-scipp process); labelled enumeration, not a solver result
    import json, os, subprocess
    from .common import PY, VERIF

    path = os.path.join(VERIF, 'replay', 'C20-tables.json')
    os.makedirs(os.path.dirname(path), exist_ok=True)
    with open(path, 'w') as f:
        json.dump({'kind': 'tables', 'stride': 1 if chk.tier == 'thorough' else 7}, f)
    r = subprocess.run([PY, os.path.join(VERIF, 'bin', 'check.py'), 'C20', '--replay', path], capture_output=True, text=True, timeout=3000)
    out = (r.stdout + r.stderr).strip().splitlines()[-1] if (r.stdout + r.stderr).strip() else ''
    if r.returncode == 0:
        try:
            chk.traces_validated += int(out.split('rows=')[1].split()[0])
        except Exception:  # noqa: BLE001
            pass
    elif r.returncode == 10:
        chk.violations.append(('C20:tables', path, out))
    else:
        chk.harness_error('table enumeration failed: ' + out[-300:])
    chk.bounds = {'generic row': 'one attribute pair symbolic at a time (fields as z3 strings), others concrete', 'lookup': ('tables of 1..3 rows' if chk.tier == 'quick' else 'tables of 1..5 rows') + ' with symbolic names and a symbolic query; lookup-edit-lookup histories',
                  'tables': 'every row (thorough) / every 7th row (quick) of the three bundled files enumerated through the real lookups'}
    chk.stubs = ['float() of a field -> accepted iff the text is in the language of Python float literals (no digit-group underscores), value = uninterpreted real per field, unchanged by strip(); int() -> uninterpreted integer per field',
                 're.compile/match/fullmatch/search -> z3 regular expressions translated from the pattern by symex.symre (validated against Python re on sample strings)', 're.match / re.fullmatch of the isotope pattern -> z3 regex decomposition (digits* letters+ rest, maximal letters; rest empty for fullmatch)', 'int() of the captured digits -> object rendering as the canonical decimal text c (digits = 0* c, c in 0|[1-9][0-9]*)',
                 'bundled files -> fake files of symbolic lines (header lines made to look like matching data lines)']
    chk.axioms = []
    chk.assumptions = ['table cells are blank or decimal literals [+-]digits[.digits][e[+-]digits] without white space', 'fields contain no comma or newline', 'enumeration of the real tables is validation (exhaustive in thorough), not a solver result']


def replay_real(case):
    import importlib.resources

    import numpy as np
    import scipp as sc
    from scippneutron import atoms
    from scippneutron.absorption.material import Material

    bad = []
    kind = case['kind']
    base = importlib.resources.files('scippneutron.atoms')
    if kind == 'history':
        import dataclasses

        for name in ('3He', 'V', 'H', '157Gd'):
            ref = atoms.ScatteringParams.for_isotope(name)
            keep = {f_.name: (v.copy() if isinstance(v := getattr(ref, f_.name), sc.Variable) else v) for f_ in dataclasses.fields(ref)}
            first = atoms.ScatteringParams.for_isotope(name)
            for f_ in dataclasses.fields(first):
                v = getattr(first, f_.name)
                if isinstance(v, sc.Variable):
                    if case.get('edit') == 'value':
                        v.value = 123.0
                    elif case.get('edit') == 'inplace':
                        v *= 0.5
                    else:
                        v.unit = 'm'
            second = atoms.ScatteringParams.for_isotope(name)
            for nm, was in keep.items():
                now = getattr(second, nm)
                same = sc.identical(now, was) if isinstance(was, sc.Variable) else now == was
                if not same:
                    bad.append(f'ScatteringParams.for_isotope({name!r}).{nm} is {now.value!r} {now.unit} after a caller edited an earlier result ({case.get("edit")}); table: {was.value!r} {was.unit}')
            if bad:
                break
        return {'reproduced': bool(bad), 'detail': '; '.join(bad[:2])[:500]}
    if kind == 'row' and case.get('cells') is not None:
        from decimal import Decimal

        k = case['attr']
        attr, unit = ATTRS[k]
        cv, cs = case['cells'].get('value', ''), case['cells'].get('std', '')
        fields = []
        for q in range(8):
            fields += [cv, cs] if q == k else (['1.5', ''] if q % 2 else ['', ''])
        line = ','.join(fields) + '\n'
        import io as _io
        import importlib.resources as _res

        class _Files:
            def joinpath(self, name):
                class _P:
                    def open(self, *a, **k):
                        return _io.StringIO('isotope,' + ','.join(['h'] * 16) + '\nXcell,' + line)
                return _P()

        real_files = _res.files
        _res.files = lambda pkg: _Files()
        try:
            sp = atoms.ScatteringParams.for_isotope('Xcell')
            got = getattr(sp, attr)
            if not cv:
                if got is not None:
                    bad.append(f'blank cell gives {got}')
            elif got is None:
                bad.append(f'cell {cv!r} ({attr}) is returned as None although the table has a value there')
            else:
                ev = float(Decimal(cv))
                es = float(Decimal(cs)) ** 2 if cs else None
                if got.value != ev or got.unit != sc.Unit(unit) or (got.variance is None) != (es is None) or (es is not None and got.variance != es):
                    bad.append(f'cells ({cv!r}, {cs!r}) give {got.value} +- var {got.variance} [{got.unit}], expected {ev} +- var {es} [{unit}]')
        except Exception as e:  # noqa: BLE001
            bad.append(f'cells ({cv!r}, {cs!r}): {type(e).__name__}: {e}')
        finally:
            _res.files = real_files
        return {'reproduced': bool(bad), 'detail': '; '.join(bad[:2])}
    if kind in ('tables', 'row', 'lookup', 'atom'):
        stride = case.get('stride', 11)
        rows = 0
        with base.joinpath('scattering_parameters.csv').open() as f:
            lines = f.read().splitlines()
        names = [ln.split(',')[0] for ln in lines]
        for ln in lines[::stride]:
            fields = ln.split(',')
            name = fields[0]
            if names.index(name) != lines.index(ln):
                continue
            sp = atoms.ScatteringParams.for_isotope(name)
            rows += 1
            for k, (attr, unit) in enumerate(ATTRS):
                v, s = fields[1 + 2 * k], fields[2 + 2 * k]
                got = getattr(sp, attr)
                if not v:
                    if got is not None:
                        bad.append(f'{name}.{attr}: blank in the table but {got}')
                    continue
                if got is None or got.value != float(v) or got.unit != sc.Unit(unit) or (got.variance is None) != (not s) or (s and got.variance != float(s) ** 2):
                    bad.append(f'{name}.{attr}: table ({v},{s},{unit}) but {got}')
        with base.joinpath('atomic_weights.csv').open() as f:
            wl = f.read().splitlines()[2:]
        for ln in wl[::max(1, stride // 3)]:
            el, z, w, e = ln.split(',')
            a = atoms.Atom.for_isotope(el)
            rows += 1
            if a.z != int(z):
                bad.append(f'{el}: z {a.z} != {z}')
            if w:
                if a.atomic_weight.value != float(w) or a.atomic_weight.unit != sc.Unit('Da'):
                    bad.append(f'{el}: weight')
            else:
                try:
                    a.atomic_weight
                    bad.append(f'{el}: weight although blank')
                except ValueError:
                    pass
            try:
                a.atomic_mass
                bad.append(f'{el}: mass for an element name')
            except ValueError:
                pass
        with base.joinpath('atomic_masses.csv').open() as f:
            ml = f.read().splitlines()[2:]
        for ln in ml[::stride]:
            iso, mval, e = ln.split(',')
            a = atoms.Atom.for_isotope(iso)
            rows += 1
            if a.atomic_mass.value != float(mval) or (e and a.atomic_mass.variance != float(e) ** 2):
                bad.append(f'{iso}: mass {a.atomic_mass} vs {mval}')
        for near in ['h', ' H', 'H ', '1 H', 'Hx', '1Hh', 'Xx', '', '1', 'He3', '3He ', '3HE', '02H', '002H', '004He', '0235U', '+2H', '2 H']:
            for fn in (atoms.ScatteringParams.for_isotope, atoms.Atom.for_isotope):
                try:
                    r = fn(near)
                    bad.append(f'near-miss name {near!r} answered with {getattr(r, "isotope", r)}')
                except (ValueError, TypeError, AttributeError, KeyError, IndexError):
                    pass
        if not bad:
            return {'reproduced': False, 'detail': f'rows={rows} ok'}
    elif kind == 'attenuation':
        sp = atoms.ScatteringParams.for_isotope('V')
        n = sc.scalar(0.07, unit='1/angstrom**3')
        ldt = case.get('wavelength_dtype', 'float64')
        lams = (sc.scalar(1.0, unit='angstrom'), sc.scalar(0.25, unit='nm'))
        if ldt.startswith('int'):
            lams = (sc.scalar(3, unit='angstrom', dtype=ldt), sc.scalar(2, unit='nm', dtype=ldt), sc.scalar(250, unit='pm', dtype=ldt))
        elif ldt == 'float32':
            lams = (sc.scalar(1.5, unit='angstrom', dtype=ldt), sc.scalar(0.25, unit='nm', dtype=ldt))
        for lam in lams:
            mu = Material(scattering_params=sp, effective_sample_number_density=n).attenuation_coefficient(lam)
            exp = 0.07e30 * (sp.total_scattering_cross_section.value + sp.absorption_cross_section.value * lam.to(unit='angstrom', dtype='float64').value / 1.7982) * 1e-28
            got = sc.values(mu).to(unit='1/m').value
            if not np.isclose(got, exp, rtol=1e-12 if ldt != 'float32' else 1e-6):
                bad.append(f'attenuation for wavelength {lam.value} {lam.unit} ({ldt}): {got} vs {exp}')
    return {'reproduced': bool(bad), 'detail': '; '.join(bad[:3])}
