"""Shared check driver: obligations -> evidence, known findings, replay, exit code."""
from __future__ import annotations

import hashlib
import json
import os
import subprocess
import sys
import time

VERIF = os.path.dirname(os.path.dirname(os.path.abspath(__file__)))
PY = os.path.join(VERIF, '.venv', 'bin', 'python')
EXIT_OK, EXIT_VIOLATION, EXIT_HARNESS = 0, 1, 3


def load_known():
    p = os.path.join(VERIF, 'known_findings.json')
    if not os.path.exists(p):
        return {'known': [], 'fixed': []}
    with open(p) as f:
        return json.load(f)


class Check:
    def __init__(self, pid, tier, seed):
        self.pid = pid
        self.tier = tier
        self.seed = seed
        self.t0 = time.time()
        self.obligations = []  # dicts
        self.functions = []
        self.bounds = {}
        self.stubs = []
        self.axioms = []
        self.assumptions = []
        self.samples = []
        self.paths = 0
        self.traces_validated = 0
        self.notes = []
        self.violations = []  # (signature, replay_path, detail)
        self.known_hits = []
        self.harness_errors = []
        self.known = [k for k in load_known().get('known', []) if k['property'] == pid]
        self.extra = {}

    # ------------------------------------------------------------------ recording
    def record(self, ob, group=None):
        """ob: symex.core.Obligation."""
        d = {'name': ob.name, 'status': ob.status, 't': round(ob.t, 4)}
        if ob.detail:
            d['detail'] = ob.detail[:300]
        if group:
            d['group'] = group
        self.obligations.append(d)
        if ob.sample and len(self.samples) < 6:
            self.samples.append(ob.sample)
        return ob

    def record_raw(self, name, status, detail='', t=0.0, sample=None):
        d = {'name': name, 'status': status, 't': round(t, 4)}
        if detail:
            d['detail'] = detail[:300]
        self.obligations.append(d)
        if sample is not None and len(self.samples) < 6:
            self.samples.append(sample)

    def inconclusive(self, name, why):
        self.record_raw(name, 'inconclusive', why)

    def harness_error(self, msg):
        self.harness_errors.append(msg)

    # ------------------------------------------------------------------ violations
    def candidate(self, signature, case: dict, detail=''):
        """A solver counterexample.  Replayed on the real code in a fresh real-scipp process;
        only reproducing candidates count."""
        if any(v[0] == signature for v in self.violations) or sum(1 for k in self.known_hits if k[3] == signature) >= 1:
            return 'duplicate'
        os.makedirs(os.path.join(VERIF, 'replay'), exist_ok=True)
        case = dict(case)
        case['property'] = self.pid
        case['signature'] = signature
        blob = json.dumps(case, sort_keys=True, default=str)
        h = hashlib.sha256(blob.encode()).hexdigest()[:10]
        path = os.path.join(VERIF, 'replay', f'{self.pid}-{h}.json')
        with open(path, 'w') as f:
            f.write(blob)
        r = subprocess.run([PY, os.path.join(VERIF, 'bin', 'check.py'), self.pid, '--replay', path],
                           capture_output=True, text=True, timeout=600)
        verdict = 'reproduced' if (r.returncode == 10 and 'REPRODUCED' in r.stdout) else ('not-reproduced' if r.returncode == 0 else 'replay-error')
        out = (r.stdout + r.stderr).strip().splitlines()
        tail = out[-1] if out else ''
        if verdict == 'reproduced':
            k = self._match_known(signature)
            if k is not None:
                self.known_hits.append((k, path, tail, signature))
            else:
                self.violations.append((signature, path, detail or tail))
        elif verdict == 'replay-error':
            self.harness_errors.append(f'replay of {signature} failed: {tail}')
        else:
            self.notes.append(f'counterexample for {signature} did not reproduce on the real code ({tail}); encoding error, reported as inconclusive')
            self.harness_errors.append(f'non-reproducing counterexample {signature}: {tail}')
        return verdict

    def _match_known(self, signature):
        for k in self.known:
            if signature == k['signature'] or signature.startswith(k['signature'] + ':'):
                return k
        return None

    def is_known(self, signature):
        return self._match_known(signature) is not None

    # ------------------------------------------------------------------ finish
    def finish(self):
        from symex.core import STATS

        n = len(self.obligations)
        disch = sum(1 for o in self.obligations if o['status'] == 'discharged')
        inc = [o for o in self.obligations if o['status'] == 'inconclusive']
        viol = [o for o in self.obligations if o['status'] in ('violated',)]
        known = [o for o in self.obligations if o['status'] == 'known']
        wall = time.time() - self.t0
        ev = {
            'property_id': self.pid,
            'tier': self.tier,
            'seed': self.seed,
            'level': 'other',
            'coverage': {
                'explanation': 'bounded symbolic execution of the real scippneutron source over a symbolic scipp model; '
                               'every obligation decided by an SMT solver (z3); counterexamples replayed on the real build',
                'obligations': n,
                'discharged': disch,
                'inconclusive': len(inc),
                'violated_obligations': len(viol),
                'known_finding_obligations': len(known),
                'evaluations': STATS.queries,
                'distinct_nontrivial': len(STATS.shapes),
                'rule': 'evaluations = solver queries issued; distinct_nontrivial = distinct query texts (hash of the asserted formulas)',
                'solver_results': STATS.by_result,
                'solver_time_s': round(STATS.solver_time, 3),
                'cvc5_crosscheck': STATS.cross,
                'vacuity_checks': {'premise_sets_checked_satisfiable': STATS.vacuity_checked,
                                   'rule': 'for every discharged obligation the conjunction of assumptions and path condition is itself sent to the solver (once per distinct premise set); an unsatisfiable premise makes the obligation inconclusive'},
                'paths': self.paths,
                'traces_validated_against_impl': self.traces_validated,
                'functions_encoded': self.functions,
                'bounds': self.bounds,
                'stubs': self.stubs,
                'axioms': self.axioms,
                'samples': self.samples or ['(no obligations)'],
                'checker_cmd': f'bin/check {self.pid} --tier {self.tier}',
                'trusted_base': ['z3 5.1', 'symsc scipp model (validated differentially against real scipp)', 'symex term normaliser'],
                'obligation_list': self.obligations[:400],
                'inconclusive_list': [o['name'] for o in inc][:50],
                'notes': self.notes[:40],
                **self.extra,
            },
            'assumptions': self.assumptions,
            'wall_s': round(wall, 2),
            'violations': len(self.violations),
        }
        os.makedirs(os.path.join(VERIF, 'evidence'), exist_ok=True)
        with open(os.path.join(VERIF, 'evidence', f'{self.pid}.json'), 'w') as f:
            json.dump(ev, f, indent=1, default=str)
        seen = set()
        for k, path, tail, _sig in self.known_hits:
            if k['signature'] in seen:
                continue
            seen.add(k['signature'])
            print(f"KNOWN-FINDING: property={self.pid} {k['signature']}: {k['description']} (replay={path})")
        for sig, path, detail in self.violations:
            print(f'VIOLATION property={self.pid} replay={path}')
            print(f'  signature={sig} {detail}')
        print(f'[{self.pid}] tier={self.tier} obligations={n} discharged={disch} inconclusive={len(inc)} '
              f'violated={len(viol)} known={len(known)} queries={STATS.queries} solver={STATS.solver_time:.1f}s wall={wall:.1f}s')
        for o in inc[:10]:
            print(f"  inconclusive: {o['name']}: {o.get('detail', '')}")
        # an encoding gap (the model met an operation it does not know) is never a pass: harness error
        gaps = [o for o in inc if 'Unsupported' in o.get('detail', '') or 'HarnessError' in o.get('detail', '')]
        for o in gaps[:5]:
            self.harness_errors.append(f"encoding cannot follow the code: {o['name']}: {o.get('detail', '')[:160]}")
        if viol and not self.violations and not self.known_hits and not self.harness_errors:
            # an obligation failed but no counterexample was put to the real build: neither a pass nor a confirmed violation
            self.harness_errors.append(f'{len(viol)} obligation(s) violated without a replayed counterexample, e.g. {viol[0]["name"][:120]}: {str(viol[0].get("detail", ""))[:120]}')
        if self.violations:
            return EXIT_VIOLATION
        if self.harness_errors:
            for e in self.harness_errors[:10]:
                print(f'HARNESS-ERROR: {e}', file=sys.stderr)
            return EXIT_HARNESS
        return EXIT_OK


def env_seed():
    try:
        return int(os.environ.get('VERIF_SEED', '0'))
    except ValueError:
        return 0


# ---------------------------------------------------------------------- parallel jobs
def _job_wrapper(args):
    fn, job, seed = args
    import traceback

    from symex import core as C

    import signal

    C.STATS.__init__()
    t0 = time.time()
    limit = int(os.environ.get('VERIF_JOB_TIMEOUT', '1500' if os.environ.get('VERIF_TIER') == 'thorough' else '400'))

    class JobTimeout(BaseException):
        pass

    def _alarm(*a):
        raise JobTimeout(f'job exceeded {limit} s')

    old = None
    try:
        old = signal.signal(signal.SIGALRM, _alarm)
        signal.alarm(limit)
    except ValueError:
        old = None  # not in the main thread
    # a solver call that ignores its own timeout keeps the interpreter inside C code, where the alarm cannot be delivered:
    # a watchdog thread interrupts z3 once the budget is spent, the pending alarm then ends the job
    import threading

    done = threading.Event()

    def _watchdog():
        if done.wait(limit + 2):
            return
        import z3
        while not done.wait(3):
            try:
                z3.main_ctx().interrupt()
            except Exception:  # noqa: BLE001
                pass

    threading.Thread(target=_watchdog, daemon=True).start()
    try:
        res = fn(job, seed)
        err = None
    except JobTimeout as e:
        res = {'obligations': [{'name': f'{getattr(fn, "__name__", "job")}{str(job)[:80]}: completes within the time budget', 'status': 'inconclusive',
                                'detail': str(e), 't': float(limit)}], 'candidates': [], 'paths': 0}
        err = None
    except BaseException as e:  # noqa: BLE001  (executor control exceptions are BaseException)
        res = {'obligations': [], 'candidates': [], 'paths': 0}
        err = f'{type(e).__name__}: {e}\n{traceback.format_exc()[-1500:]}'
    finally:
        done.set()
        try:
            signal.alarm(0)
            if old is not None:
                signal.signal(signal.SIGALRM, old)
        except ValueError:
            pass
    st = C.STATS
    res['stats'] = {'queries': st.queries, 'solver_time': st.solver_time, 'shapes': list(st.shapes), 'by_result': st.by_result, 'cross': st.cross, 'vac': st.vacuity_checked}
    res['error'] = err
    res['job'] = str(job)[:200]
    res['wall'] = time.time() - t0
    return res


def _child(a, conn):
    try:
        res = _job_wrapper(a)
        conn.send(res)
    except BaseException as e:  # noqa: BLE001
        try:
            conn.send({'obligations': [], 'candidates': [], 'paths': 0, 'stats': {'queries': 0, 'solver_time': 0.0, 'shapes': [], 'by_result': {}},
                       'error': f'{type(e).__name__}: {e}', 'job': str(a[1])[:200], 'wall': 0.0})
        except Exception:  # noqa: BLE001
            pass
    finally:
        conn.close()
        os._exit(0)


def _run_forked(args, procs):
    """One forked process per job (at most `procs` at a time).  A job that is still running a minute after its time
    budget - a solver call that cannot be interrupted - is killed and reported as inconclusive; a pool would hang."""
    import multiprocessing as mp
    from multiprocessing.connection import wait

    ctx = mp.get_context('fork')
    limit = int(os.environ.get('VERIF_JOB_TIMEOUT', '1500' if os.environ.get('VERIF_TIER') == 'thorough' else '400'))
    hard = limit + 60
    pending = list(enumerate(args))
    running = {}
    results = [None] * len(args)

    def lost(i, why):
        fn, job, _seed = args[i]
        return {'obligations': [{'name': f'{getattr(fn, "__name__", "job")}{str(job)[:80]}: completes within the time budget', 'status': 'inconclusive', 'detail': why, 't': float(limit)}],
                'candidates': [], 'paths': 0, 'stats': {'queries': 0, 'solver_time': 0.0, 'shapes': [], 'by_result': {}}, 'error': None, 'job': str(job)[:200], 'wall': float(hard)}

    while pending or running:
        while pending and len(running) < procs:
            i, a = pending.pop(0)
            rd, wr = ctx.Pipe(duplex=False)
            p = ctx.Process(target=_child, args=(a, wr))
            p.start()
            wr.close()
            running[i] = (p, rd, time.time())
        ready = wait([c for _p, c, _t in running.values()], timeout=1.0)
        now = time.time()
        for i, (p, c, t0) in list(running.items()):
            if c in ready:
                try:
                    results[i] = c.recv()
                except (EOFError, OSError):
                    results[i] = lost(i, 'worker process died without a result')
                c.close()
                p.join(5)
                del running[i]
            elif now - t0 > hard:
                p.kill()
                p.join(5)
                c.close()
                results[i] = lost(i, f'job killed {hard} s after its start (solver call could not be interrupted)')
                del running[i]
    return results


def run_jobs(chk: Check, fn, jobs, procs=None):
    """fn(job, seed) -> {'obligations': [Obligation|dict], 'candidates': [(signature, case, detail)], 'paths': n,
    'validated': n}.  Runs in a fork pool; merges stats; replays candidates in the parent."""
    import multiprocessing as mp

    from symex import core as C

    jobs = list(jobs)
    only = os.environ.get('VERIF_DEV_ONLY_JOBS')  # development aid: run only the job functions named here (never set by a registered command)
    if only and getattr(fn, '__name__', '') not in only.split(','):
        return
    procs = procs or min(16, max(1, len(jobs)))
    args = [(fn, j, chk.seed) for j in jobs]
    if procs == 1 or len(jobs) == 1:
        saved = C.STATS.__dict__.copy()
        results = [_job_wrapper(a) for a in args]
        C.STATS.__dict__.update(saved)
    else:
        results = _run_forked(args, procs)
    for r in results:
        s = r['stats']
        C.STATS.queries += s['queries']
        C.STATS.solver_time += s['solver_time']
        C.STATS.shapes.update(s['shapes'])
        for k, v in s['by_result'].items():
            C.STATS.by_result[k] = C.STATS.by_result.get(k, 0) + v
        for k, v in s.get('cross', {}).items():
            C.STATS.cross[k] = C.STATS.cross.get(k, 0) + v
        C.STATS.vacuity_checked += s.get('vac', 0)
        chk.paths += r.get('paths', 0)
        chk.traces_validated += r.get('validated', 0)
        if r['error']:
            chk.harness_error(f"job {r['job']}: {r['error']}")
        for ob in r['obligations']:
            if isinstance(ob, dict):
                chk.obligations.append(ob)
                if ob.get('sample') and len(chk.samples) < 6:
                    chk.samples.append(ob.pop('sample'))
            else:
                chk.record(ob)
        for sig, case, detail in r.get('candidates', []):
            chk.candidate(sig, case, detail)
    return results


def ob_dict(ob, group=None):
    d = {'name': ob.name, 'status': ob.status, 't': round(ob.t, 4)}
    if ob.detail:
        d['detail'] = ob.detail[:300]
    if ob.sample:
        d['sample'] = ob.sample
    if group:
        d['group'] = group
    return d
