"""Kinematics kernel table shared by C01 / C06 / C07: argument kinds, oracles (SI), documented
output units.  Oracles are written from the docstrings, not from the implementation."""
from __future__ import annotations

# kind -> (SI-dimension unit string, default unit for replays, alternative concrete units)
KINDS = {
    'time': ('s', 'us', ['ns', 'us', 'ms', 's']),
    'length': ('m', 'm', ['mm', 'cm', 'm', 'km', 'angstrom']),
    'energy': ('J', 'meV', ['ueV', 'meV', 'eV', 'J']),
    'wavelength': ('m', 'angstrom', ['angstrom', 'nm', 'm']),
    'invlength': ('1/m', '1/angstrom', ['1/angstrom', '1/nm', '1/m']),
    'angle': ('rad', 'rad', ['rad', 'deg']),
}


class Ops:
    """Numeric namespace abstraction: the same oracle text runs on symbolic R and on mpmath."""

    def __init__(self, sqrt, sin, pi, h, mn):
        self.sqrt, self.sin, self.pi, self.h, self.mn = sqrt, sin, pi, h, mn


def o_wavelength_from_tof(o, tof, Ltotal):
    return o.h * tof / (o.mn * Ltotal)


def o_energy_from_tof(o, tof, Ltotal):
    return o.mn * Ltotal * Ltotal / (2 * tof * tof)


def o_dspacing_from_tof(o, tof, Ltotal, two_theta):
    return o.h * tof / (o.mn * Ltotal * 2 * o.sin(two_theta / 2))


def o_energy_from_wavelength(o, wavelength):
    return o.h * o.h / (2 * o.mn * wavelength * wavelength)


def o_wavelength_from_energy(o, energy):
    return o.h / o.sqrt(2 * o.mn * energy)


def o_Q_from_wavelength(o, wavelength, two_theta):
    return 4 * o.pi * o.sin(two_theta / 2) / wavelength


def o_wavelength_from_Q(o, Q, two_theta):
    return 4 * o.pi * o.sin(two_theta / 2) / Q


def o_dspacing_from_wavelength(o, wavelength, two_theta):
    return wavelength / (2 * o.sin(two_theta / 2))


def o_dspacing_from_energy(o, energy, two_theta):
    return o.h / (o.sqrt(8 * o.mn * energy) * o.sin(two_theta / 2))


# name -> (arg kinds, oracle, documented out unit or callable(arg units)->unit, data operand)
KERNELS = {
    'wavelength_from_tof': ({'tof': 'time', 'Ltotal': 'length'}, o_wavelength_from_tof, 'angstrom', 'tof'),
    'energy_from_tof': ({'tof': 'time', 'Ltotal': 'length'}, o_energy_from_tof, 'meV', 'tof'),
    'dspacing_from_tof': ({'tof': 'time', 'Ltotal': 'length', 'two_theta': 'angle'}, o_dspacing_from_tof, 'angstrom', 'tof'),
    'energy_from_wavelength': ({'wavelength': 'wavelength'}, o_energy_from_wavelength, 'meV', 'wavelength'),
    'wavelength_from_energy': ({'energy': 'energy'}, o_wavelength_from_energy, 'angstrom', 'energy'),
    'Q_from_wavelength': ({'wavelength': 'wavelength', 'two_theta': 'angle'}, o_Q_from_wavelength, ('inv', 'wavelength'), 'wavelength'),
    'wavelength_from_Q': ({'Q': 'invlength', 'two_theta': 'angle'}, o_wavelength_from_Q, 'angstrom', 'Q'),
    'dspacing_from_wavelength': ({'wavelength': 'wavelength', 'two_theta': 'angle'}, o_dspacing_from_wavelength, 'angstrom', 'wavelength'),
    'dspacing_from_energy': ({'energy': 'energy', 'two_theta': 'angle'}, o_dspacing_from_energy, 'angstrom', 'energy'),
}

# quantity produced by each kernel (graph key)
PRODUCES = {
    'wavelength_from_tof': 'wavelength', 'energy_from_tof': 'energy', 'dspacing_from_tof': 'dspacing',
    'energy_from_wavelength': 'energy', 'wavelength_from_energy': 'wavelength', 'Q_from_wavelength': 'Q',
    'wavelength_from_Q': 'wavelength', 'dspacing_from_wavelength': 'dspacing', 'dspacing_from_energy': 'dspacing',
}
