"""Differential validation of the encoding: the same concrete inputs go through (a) the real scippneutron function on
the real scipp and (b) the same function imported over the symbolic shim (concrete numbers become exact rationals,
sqrt/sin/atan2 become atoms that are evaluated with mpmath at 50 digits).  Units, dims, dtypes and values must agree.
A disagreement means the shim misrepresents scipp (or the code left the modelled fragment): the check that called
the validation stops with a harness error (exit 3) instead of trusting its `unsat` answers."""
from __future__ import annotations

import json
import os
import subprocess
import sys

# argument kinds -> (candidate units, generator of magnitudes)
UNITS = {
    'time': ['us', 'ms', 's', 'ns'],
    'length': ['m', 'mm', 'cm', 'angstrom'],
    'energy': ['meV', 'eV', 'ueV', 'J'],
    'wavelength': ['angstrom', 'nm', 'm'],
    'invlength': ['1/angstrom', '1/nm', '1/m'],
    'angle': ['rad', 'deg'],
}
SI = {'us': 1e-6, 'ms': 1e-3, 's': 1.0, 'ns': 1e-9, 'm': 1.0, 'mm': 1e-3, 'cm': 1e-2, 'angstrom': 1e-10, 'nm': 1e-9,
      'meV': 1.602176634e-22, 'eV': 1.602176634e-19, 'ueV': 1.602176634e-25, 'J': 1.0, '1/angstrom': 1e10, '1/nm': 1e9, '1/m': 1.0,
      'rad': 1.0, 'deg': 0.017453292519943295}
# typical SI magnitudes
MAG = {'time': (1e-4, 5e-2), 'length': (1.0, 60.0), 'energy': (1e-22, 2e-20), 'wavelength': (5e-11, 2e-9), 'invlength': (1e9, 2e11), 'angle': (0.05, 3.0)}

# function table: module, name, {arg: kind}
FUNCS = {
    'kinematics': [
        ('conversion.tof', 'wavelength_from_tof', {'tof': 'time', 'Ltotal': 'length'}),
        ('conversion.tof', 'energy_from_tof', {'tof': 'time', 'Ltotal': 'length'}),
        ('conversion.tof', 'dspacing_from_tof', {'tof': 'time', 'Ltotal': 'length', 'two_theta': 'angle'}),
        ('conversion.tof', 'energy_from_wavelength', {'wavelength': 'wavelength'}),
        ('conversion.tof', 'wavelength_from_energy', {'energy': 'energy'}),
        ('conversion.tof', 'Q_from_wavelength', {'wavelength': 'wavelength', 'two_theta': 'angle'}),
        ('conversion.tof', 'wavelength_from_Q', {'Q': 'invlength', 'two_theta': 'angle'}),
        ('conversion.tof', 'dspacing_from_wavelength', {'wavelength': 'wavelength', 'two_theta': 'angle'}),
        ('conversion.tof', 'dspacing_from_energy', {'energy': 'energy', 'two_theta': 'angle'}),
    ],
    'inelastic': [
        ('conversion.tof', 'energy_transfer_direct_from_tof', {'tof': 'time', 'L1': 'length', 'L2': 'length', 'incident_energy': 'energy'}),
        ('conversion.tof', 'energy_transfer_indirect_from_tof', {'tof': 'time', 'L1': 'length', 'L2': 'length', 'final_energy': 'energy'}),
    ],
    'beamline': [
        ('conversion.beamline', 'straight_incident_beam', {'source_position': 'vec', 'sample_position': 'vec'}),
        ('conversion.beamline', 'straight_scattered_beam', {'position': 'vec', 'sample_position': 'vec'}),
        ('conversion.beamline', 'L1', {'incident_beam': 'vec'}),
        ('conversion.beamline', 'L2', {'scattered_beam': 'vec'}),
        ('conversion.beamline', 'total_beam_length', {'L1': 'length', 'L2': 'length'}),
        ('conversion.beamline', 'total_straight_beam_length_no_scatter', {'source_position': 'vec', 'position': 'vec'}),
        ('conversion.beamline', 'two_theta', {'incident_beam': 'vec', 'scattered_beam': 'vec'}),
    ],
    'gravity': [
        ('conversion.beamline', 'scattering_angles_with_gravity', {'incident_beam': 'vec0', 'scattered_beam': 'vec', 'wavelength': 'wavelength', 'gravity': 'grav'}),
        ('conversion.beamline', 'scattering_angle_in_yz_plane', {'incident_beam': 'vec0', 'scattered_beam': 'vec', 'wavelength': 'wavelength', 'gravity': 'grav'}),
    ],
    'qvec': [
        ('conversion.tof', 'Q_elements_from_wavelength', {'wavelength': 'wavelength', 'incident_beam': 'vec0', 'scattered_beam': 'vec'}),
        ('conversion.tof', 'Q_vec_from_Q_elements', {'Qx': 'invlength', 'Qy': 'invlength', 'Qz': 'invlength'}),
    ],
}


def gen_cases(group, n, seed):
    import numpy as np

    rng = np.random.default_rng(seed)
    cases = []
    mixed = group.endswith('-dtypes')
    group = group.removesuffix('-dtypes')
    funcs = FUNCS[group]
    int_unit = {'time': 'us', 'length': 'mm', 'energy': 'ueV', 'wavelength': 'angstrom', 'invlength': '1/nm', 'angle': 'deg'}
    for i in range(n):
        mod, fn, spec = funcs[i % len(funcs)]
        f32 = rng.random() < 0.25 and group in ('kinematics', 'inelastic')
        nel = int(rng.integers(1, 4))
        args = {}
        same_unit = None
        for an, kind in spec.items():
            if kind in ('vec', 'vec0'):
                unit = same_unit or str(rng.choice(['m', 'mm', 'cm']))
                same_unit = unit  # scipp refuses vectors of different units in a sum; keep one length unit per call
                arr_like = kind == 'vec' and rng.random() < 0.6
                shape = (nel, 3) if arr_like else (3,)
                v = rng.normal(size=shape) * 3.0 / SI[unit]
                if kind == 'vec0':
                    v = (np.array([0.0, 0.0, 1.0]) * rng.uniform(5, 30) + rng.normal(size=3) * rng.choice([0.0, 0.3])) / SI[unit]
                args[an] = {'kind': 'vector', 'values': np.asarray(v, dtype=float).tolist(), 'dims': ['row'] if arr_like else [], 'unit': unit}
            elif kind == 'grav':
                args[an] = {'kind': 'vector', 'values': [0.0, -9.80665, 0.0], 'dims': [], 'unit': 'm/s**2'}
            else:
                unit = str(rng.choice(UNITS[kind]))
                if fn == 'Q_vec_from_Q_elements':
                    unit = same_unit or unit
                    same_unit = unit
                if group == 'gravity' and kind == 'wavelength':
                    unit = 'angstrom' if rng.random() < 0.5 else unit
                lo, hi = MAG[kind]
                scalar = rng.random() < 0.4
                vals = rng.uniform(lo, hi, size=() if scalar else (nel,)) / SI[unit]
                dt = 'float64'
                if f32 and rng.random() < 0.7:
                    dt = 'float32'
                    vals = np.asarray(vals, dtype=np.float32).astype(float)
                if mixed:
                    dt = str(rng.choice(['float64', 'float32', 'int64', 'int32']))
                    if dt.startswith('int'):
                        unit = int_unit[kind]
                        vals = np.maximum(1, np.round(rng.uniform(lo, hi, size=() if scalar else (nel,)) / SI[unit]))
                    elif dt == 'float32':
                        vals = np.asarray(vals, dtype=np.float32).astype(float)
                args[an] = {'kind': 'array', 'values': np.asarray(vals, dtype=float).tolist(), 'dims': [] if scalar else ['row'], 'unit': unit, 'dtype': dt}
        cases.append({'mod': mod, 'fn': fn, 'args': args})
    return cases


def _build(sc, a):
    if a['kind'] == 'vector':
        if a['dims']:
            return sc.vectors(dims=a['dims'], values=a['values'], unit=a['unit'])
        return sc.vector(a['values'], unit=a['unit'])
    if a['dims']:
        return sc.array(dims=a['dims'], values=a['values'], unit=a['unit'], dtype=a['dtype'])
    return sc.scalar(a['values'], unit=a['unit'], dtype=a['dtype'])


def _flatten_result(res):
    import dataclasses

    if isinstance(res, dict):
        return dict(res)
    if dataclasses.is_dataclass(res):
        return {f.name: getattr(res, f.name) for f in dataclasses.fields(res)}
    if hasattr(res, '_asdict'):
        return dict(res._asdict())
    return {'result': res}


def run_real(cases):
    """Executed in a real-scipp process."""
    import importlib

    import numpy as np
    import scipp as sc

    out = []
    for c in cases:
        m = importlib.import_module('scippneutron.' + c['mod'])
        try:
            res = getattr(m, c['fn'])(**{k: _build(sc, a) for k, a in c['args'].items()})
        except Exception as e:  # noqa: BLE001
            out.append({'raises': type(e).__name__})
            continue
        d = {}
        for k, v in _flatten_result(res).items():
            vals = np.asarray(v.values, dtype=float).reshape(-1)
            d[k] = {'unit': str(v.unit), 'dims': list(v.dims), 'dtype': str(v.dtype), 'values': [None if np.isnan(x) else (str(x) if np.isinf(x) else float(x)) for x in vals]}
        out.append({'result': d})
    consts = {'h_planck': sc.constants.h.value, 'm_neutron': sc.constants.m_n.value, 'g_std': sc.constants.g.value}
    return {'results': out, 'constants': consts}


def run_shim(cases, consts):
    from symex import core as C
    from symex import loader
    from symex import terms as T
    from .symutil import fresh_run

    sc = loader.install_shim()
    out = []
    for c in cases:
        m = loader.load(c['mod'])
        fresh_run()
        C.CTX.concrete_env = dict(consts)
        try:
            paths = C.explore(lambda: getattr(m, c['fn'])(**{k: _build(sc, a) for k, a in c['args'].items()}), max_paths=8)
        finally:
            C.CTX.concrete_env = None
        if len(paths) != 1 or paths[0].inconclusive:
            out.append({'error': f'{len(paths)} paths / {paths[0].inconclusive}'})
            continue
        p = paths[0]
        if p.exc is not None:
            out.append({'raises': type(p.exc).__name__})
            continue
        d = {}
        for k, v in _flatten_result(p.value).items():
            vals = []
            for x in v._a.reshape(-1):
                x = C.R.lift(x)
                if x.special is not None:
                    vals.append(None if x.special == 'nan' else ('inf' if x.special == '+inf' else '-inf'))
                else:
                    vals.append(float(T.evaluate(x.t, consts)))
            d[k] = {'unit': v.unit, 'dims': list(v.dims), 'dtype': str(v.dtype), 'values': vals}
        out.append({'result': d})
    return out


def compare(cases, real, shim, parse_unit):
    bad = []
    for c, r, s in zip(cases, real, shim):
        tag = f"{c['fn']}({', '.join(k + ':' + a['unit'] + ('/' + a.get('dtype', 'vec'))[:8] for k, a in c['args'].items())})"
        if 'error' in s:
            bad.append(f'{tag}: shim {s["error"]}')
            continue
        if ('raises' in r) != ('raises' in s):
            bad.append(f'{tag}: real {"raises " + r["raises"] if "raises" in r else "returns"}, shim {"raises " + s["raises"] if "raises" in s else "returns"}')
            continue
        if 'raises' in r:
            continue
        if set(r['result']) != set(s['result']):
            bad.append(f'{tag}: result keys {sorted(r["result"])} vs {sorted(s["result"])}')
            continue
        for k in r['result']:
            a, b = r['result'][k], s['result'][k]
            ru = parse_unit(a['unit']) if a['unit'] != 'None' else None
            if ru != b['unit']:
                bad.append(f'{tag}.{k}: unit {a["unit"]} vs {b["unit"]}')
            if a['dims'] != b['dims'] or a['dtype'] != b['dtype']:
                bad.append(f'{tag}.{k}: dims/dtype {a["dims"]}/{a["dtype"]} vs {b["dims"]}/{b["dtype"]}')
                continue
            rt = 3e-5 if a['dtype'] == 'float32' or any(x.get('dtype') == 'float32' for x in c['args'].values()) else 1e-9
            if rt > 1e-6 and c['fn'].startswith('energy_transfer'):
                rt = 5e-3  # single-precision cancellation in E_i - E_f: only structural disagreements are of interest here
            if any(str(x.get('dtype', '')).startswith('int') for x in c['args'].values()):
                rt = max(rt, 1e-9)
            for x, y in zip(a['values'], b['values']):
                if x is None or y is None or isinstance(x, str) or isinstance(y, str):
                    if x != y:
                        bad.append(f'{tag}.{k}: {x} vs {y}')
                    continue
                if abs(x - y) > rt * max(abs(x), abs(y)) + 1e-300:
                    bad.append(f'{tag}.{k}: {x!r} vs {y!r}')
    return bad


def validate(chk, group, n):
    """Run n generated cases of `group` through both sides; record the count; a disagreement is a harness error."""
    from symsc.units import parse_unit

    from .common import PY, VERIF

    cases = gen_cases(group, n, chk.seed + hash(group) % 1000 if False else chk.seed)
    os.makedirs(os.path.join(VERIF, 'replay'), exist_ok=True)
    fin = os.path.join(VERIF, 'replay', f'{chk.pid}-shimval-{group}.json')
    group_label = group
    with open(fin, 'w') as f:
        json.dump(cases, f)
    env = dict(os.environ)
    env['PYTHONPATH'] = os.pathsep.join([os.environ.get('VERIF_REPO_SRC', '/repo/src'), VERIF])
    r = subprocess.run([PY, '-m', 'harness.shimval', fin], capture_output=True, text=True, env=env, cwd=VERIF, timeout=900)
    if r.returncode != 0:
        chk.harness_error(f'shim validation ({group}): real side failed: {r.stderr[-300:]}')
        return
    real = json.loads(r.stdout)
    shim = run_shim(cases, real['constants'])
    bad = compare(cases, real['results'], shim, parse_unit)
    chk.traces_validated += len(cases)
    if bad:
        chk.harness_error(f'shim validation ({group}): {len(bad)} disagreement(s) with real scipp, e.g. {bad[0]}')


if __name__ == '__main__':
    with open(sys.argv[1]) as f_:
        cases_ = json.load(f_)
    json.dump(run_real(cases_), sys.stdout)
