"""Typed symbolic byte stream standing in for LowLevelSqw / BytesIO (DESIGN C12/C13).

A stream is a list of records (kind, width-in-bytes term, value).  `position` is the running
sum of widths; seek() to a remembered position finds the record boundary with that offset.
Reading replays the records: a read must meet a record of the same kind (and, for arrays and
char runs, the same width), otherwise the reader has lost framing -> FramingError."""
from __future__ import annotations

import io

import numpy as np

from symex import core as C
from symex.core import R


class FramingError(Exception):
    pass


class Rec:
    __slots__ = ('kind', 'width', 'value', 'meta')

    def __init__(self, kind, width, value, meta=None):
        self.kind = kind
        self.width = width if isinstance(width, R) else R.lift(width)
        self.value = value
        self.meta = meta

    def __repr__(self):
        return f'<{self.kind} w={self.width} {str(self.value)[:40]}>'


def _same(a, b) -> bool:
    a, b = R.lift(a), R.lift(b)
    d = (a - b).t
    if d.is_zero():
        return True
    if d.is_const():
        return False
    return bool(a == b)  # forks / decides under the path condition


class SymFile(io.BytesIO):
    """BytesIO subclass (so isinstance checks in the code under test pass) carrying records."""

    def __init__(self, *a):
        super().__init__()
        self.records: list[Rec] = []
        self.cursor = 0  # index into records

    # positions -----------------------------------------------------------------
    def offset_of(self, idx):
        p = R.lift(0)
        for r in self.records[:idx]:
            p = p + r.width
        return p

    def tell(self):
        return self.offset_of(self.cursor)

    def seek(self, pos, whence=0):
        p = R.lift(0)
        for i in range(len(self.records) + 1):
            if _same(p, pos):
                self.cursor = i
                return pos
            if i < len(self.records):
                p = p + self.records[i].width
        raise FramingError(f'seek to {pos}: not a record boundary')

    def total(self):
        return self.offset_of(len(self.records))

    def getbuffer(self):
        return SymBuf(self.records)

    # record io -----------------------------------------------------------------
    def put(self, rec: Rec):
        if self.cursor == len(self.records):
            self.records.append(rec)
        else:
            old = self.records[self.cursor]
            if old.kind != rec.kind or not _same(old.width, rec.width):
                raise FramingError(f'overwrite of {old} by {rec}')
            self.records[self.cursor] = rec
        self.cursor += 1

    def get(self, kind, width=None):
        # zero-width records (empty strings) occupy no bytes
        while (self.cursor < len(self.records) and self.records[self.cursor].width.is_const()
               and self.records[self.cursor].width.const_value() == 0
               and not (kind == self.records[self.cursor].kind and width is not None and _same(width, 0))):
            self.cursor += 1
        if self.cursor >= len(self.records):
            raise FramingError(f'read of {kind} past end of stream')
        rec = self.records[self.cursor]
        if rec.kind != kind:
            raise FramingError(f'expected {kind}, found {rec}')
        if width is not None and not _same(rec.width, width):
            raise FramingError(f'expected {kind} of width {width}, found {rec}')
        self.cursor += 1
        return rec


class SymBuf:
    def __init__(self, records):
        self.records = list(records)

    def nbytes(self):
        p = R.lift(0)
        for r in self.records:
            p = p + r.width
        return p


def symlen(x):
    if isinstance(x, SymBuf):
        return x.nbytes()
    if hasattr(x, '__symlen__'):
        return x.__symlen__()
    return len(x)


def utf8len(s: str):
    return len(s.encode('utf-8'))


class SymStream:
    """Drop-in for LowLevelSqw over a SymFile."""

    def __init__(self, file, *, path=None, byteorder=None):
        if not isinstance(file, SymFile):
            raise C.Unsupported('SymStream needs a SymFile')
        self._file = file
        self._byteorder = byteorder
        self._path = path

    # -- write
    def write_logical(self, value):
        self._file.put(Rec('logical', 1, value))

    def write_u8(self, value):
        self._file.put(Rec('u8', 1, value))

    def write_u32(self, value):
        self._file.put(Rec('u32', 4, value))

    def write_u64(self, value):
        self._file.put(Rec('u64', 8, value))

    def write_f64(self, value):
        self._file.put(Rec('f64', 8, value))

    def write_char_array(self, value):
        self.write_u32(utf8len(value))
        self._file.put(Rec('chars', utf8len(value), value))

    def write_chars(self, value):
        self._file.put(Rec('chars', utf8len(value), value))

    def write_array(self, array):
        if isinstance(array, SymArray):
            if hasattr(array, 'frozen'):
                array = array.frozen()  # a view of a reused buffer: what is written is its content NOW
            self._file.put(Rec('array', array.nbytes(), array, meta=array.dtype))
            return
        a = np.asarray(array)
        src = getattr(array, '_src_dtype', None)  # element type of the scipp variable whose .values these are (object arrays of terms)
        if a.dtype == object and src in ('float32', 'int32', 'int64', 'float64'):
            item, dt = np.dtype(src).itemsize, src
        elif a.dtype == object:
            item, dt = 8, 'float64'
        else:
            item, dt = a.dtype.itemsize, a.dtype.name
        self._file.put(Rec('array', item * a.size, a, meta=dt))

    def write_raw(self, value):
        if isinstance(value, SymBuf):
            for r in value.records:
                self._file.put(r)
            return
        if hasattr(value, 'vals') and hasattr(value, 'dtype'):
            # integers dumped with ndarray.tobytes(): host byte order, not the file's - never decodes as a typed field of the file
            width = np.dtype(value.dtype).itemsize
            for v in value.vals:
                self._file.put(Rec(f'host-order-{value.dtype}', width, v))
            return
        raise C.Unsupported('write_raw of real bytes')

    # -- read
    def read_logical(self):
        return self._file.get('logical').value

    def read_u8(self):
        return self._file.get('u8').value

    def read_u32(self):
        return self._file.get('u32').value

    def read_u64(self):
        return self._file.get('u64').value

    def read_f64(self):
        return self._file.get('f64').value

    def read_char_array(self):
        size = self.read_u32()
        return self.read_n_chars(size)

    def read_n_chars(self, n):
        if _same(n, 0) and (self._file.cursor >= len(self._file.records) or self._file.records[self._file.cursor].kind != 'chars'
                            or not _same(self._file.records[self._file.cursor].width, 0)):
            return ''
        return self._file.get('chars', n).value

    def read_array(self, shape, dtype):
        if not shape:
            return np.array([], dtype=dtype)
        count = R.lift(1)
        for s in shape:
            count = count * R.lift(s)
        want = count * np.dtype(dtype).itemsize
        # the writer may have produced the same bytes in several records (chunks)
        got = R.lift(0)
        parts = []
        while True:
            if _same(got, want):
                break
            nxt = self._file.records[self._file.cursor] if self._file.cursor < len(self._file.records) else None
            if nxt is not None and nxt.kind == 'f64' and np.dtype(dtype) == np.dtype('float64'):
                rec = self._file.get('f64')  # scalars and arrays of doubles are the same bytes
                got = got + rec.width
                parts.append(np.array([rec.value], dtype=object))
                continue
            rec = self._file.get('array')
            if rec.meta is not None and np.dtype(rec.meta).itemsize != np.dtype(dtype).itemsize:
                raise FramingError(f'array element width: wrote {rec.meta}, read {dtype}')
            got = got + rec.width
            parts.append(rec.value)
            if len(parts) > 64:
                raise FramingError('array read does not terminate at a record boundary')
        if all(isinstance(p, np.ndarray) for p in parts) and all(isinstance(x, int) for x in shape):
            flat = np.concatenate([np.asarray(p, dtype=object).reshape(-1) for p in parts]) if parts else np.array([], dtype=object)
            return flat.reshape(tuple(shape[::-1]))
        return ReadArray(parts, shape[::-1], dtype)

    def seek(self, pos):
        self._file.seek(pos)

    @property
    def byteorder(self):
        return self._byteorder

    @property
    def position(self):
        return self._file.tell()

    @property
    def path(self):
        return self._path


class ReadArray:
    """What a reader got back from read_array: the written parts + the requested shape."""

    def __init__(self, parts, shape, dtype):
        self.parts = parts
        self.shape = tuple(shape)
        self.dtype = dtype
        self.size = 2  # never 'scalar' for the readers' size==1 shortcut unless concrete below
        if all(isinstance(p, np.ndarray) for p in parts):
            flat = np.concatenate([np.asarray(p, dtype=object).reshape(-1, order='C') for p in parts]) if parts else np.array([], dtype=object)
            self.flat = flat
            self.size = flat.size

    def squeeze(self):
        return self

    def item(self):
        return self.flat[0]

    def concrete(self):
        return self.flat.reshape(tuple(int(s) for s in self.shape))


class SymArray:
    """An array of n_rows x n_cols float32/64 elements where n_rows may be symbolic."""

    def __init__(self, nrows, ncols, dtype, origin=None, cols=None):
        self.nrows = R.lift(nrows)
        self.ncols = ncols
        self.dtype = np.dtype(dtype).name
        self.origin = origin
        self.cols = cols or {}

    def nbytes(self):
        return self.nrows * self.ncols * np.dtype(self.dtype).itemsize

    def __symlen__(self):
        return self.nrows
