"""Symbolic environment for the SQW builder/reader (shared by C12 and C13)."""
from __future__ import annotations

import builtins
from fractions import Fraction

import numpy as np

from symex import core as C
from symex.core import R

from .sqwstream import FramingError, ReadArray, Rec, SymArray, SymBuf, SymFile, SymStream, symlen


class UnwindBound(C.HarnessError):
    pass


def symrange(*a):
    if all(isinstance(x, int) for x in a):
        return builtins.range(*a)
    if len(a) == 1:
        start, stop, step = 0, a[0], 1
    elif len(a) == 2:
        start, stop, step = a[0], a[1], 1
    else:
        start, stop, step = a

    def gen():
        i = R.lift(start)
        n = 0
        while bool(i < stop):
            n += 1
            if n > SYM['unwind']:
                raise UnwindBound(f'loop unrolled more than {SYM["unwind"]} times')
            yield i
            i = i + step
    return gen()


SYM = {'unwind': 14}


def symmin(*a):
    if len(a) == 1:
        a = tuple(a[0])
    if all(isinstance(x, int | float) for x in a):
        return builtins.min(*a)
    m = a[0]
    for x in a[1:]:
        m = x if bool(R.lift(x) < R.lift(m)) else m
    return m


def symint(x=0, *a):
    from symsc.variable import Variable

    if isinstance(x, Variable):
        x = x.value
    if isinstance(x, R):
        if x.is_const():
            v = x.const_value()
            return int(v)
        return x
    return builtins.int(x, *a)


class SymNP:
    """numpy stand-in for _build: empty/zeros/prod with symbolic extents; rest = real numpy."""

    float32 = np.float32

    def __getattr__(self, name):
        return getattr(np, name)

    def prod(self, shape):
        p = R.lift(1)
        for s in shape:
            p = p * R.lift(s)
        return p if not p.is_const() else int(p.const_value())

    def empty(self, shape, dtype=float):
        if all(isinstance(s, int) for s in shape):
            return SymBuffer2(R.lift(shape[0]), shape[1], dtype) if len(shape) == 2 else np.empty(shape, dtype=dtype)
        return SymBuffer2(shape[0], shape[1], dtype)

    def zeros(self, shape, dtype=float):
        n = self.prod(shape)
        return SymArray(n, 1, dtype, origin=('zeros', tuple(shape)))

    def array(self, values, dtype=None, **kw):
        """np.array of (possibly symbolic) integers: kept as a typed list; .tobytes() gives raw bytes in HOST byte order."""
        vals = list(values) if isinstance(values, list | tuple) else None
        if vals is None or not any(isinstance(v, R) and not v.is_const() for v in vals):
            return np.array(values, dtype=dtype, **kw)
        return SymRawInts(vals, np.dtype(dtype).name if dtype is not None else 'int64')

    def vstack(self, rows):
        out = np.empty((len(rows), len(rows[0])), dtype=object)
        for i, r in enumerate(rows):
            for j, v in enumerate(r):
                out[i, j] = v
        return out


class SymRawInts:
    """A numpy integer array with symbolic elements; its bytes are in the byte order of the host, whatever the file's is."""

    def __init__(self, vals, dtype):
        self.vals, self.dtype = vals, dtype

    def tobytes(self):
        return SymHostBytes(self.vals, self.dtype)

    def __len__(self):
        return len(self.vals)


class SymHostBytes:
    def __init__(self, vals, dtype):
        self.vals, self.dtype = vals, dtype


class SymBuffer2:
    """np.empty((N, rows), float32) with symbolic N: records column assignments of row-prefixes."""

    def __init__(self, nrows, ncols, dtype):
        self.nrows = R.lift(nrows)
        self.ncols = ncols
        self.dtype = np.dtype(dtype).name
        self.assign = {}  # col -> (n, SymCol)
        self.src = {}  # col -> (dtype name, (n64, n32) rounding operations) of the assigned values
        self.problems = []

    def __setitem__(self, key, col):
        rows, j = key
        if not (isinstance(rows, slice) and rows.start is None and rows.step is None):
            raise C.Unsupported('buffer assignment pattern')
        n = R.lift(rows.stop)
        ln = R.lift(symlen(col))
        self.assign[int(j)] = (n, col)
        self.src[int(j)] = (getattr(col, '_src_dtype', None), getattr(col, '_src_rnd', None))
        SHAPE_OBLIGATIONS.append(('buffer[:n, i] = values: n == len(values)', n, ln))

    def __getitem__(self, key):
        if not (isinstance(key, slice) and key.start is None and key.step is None):
            raise C.Unsupported('buffer read pattern')
        n = R.lift(key.stop) if key.stop is not None else self.nrows
        return SymBufferView(self, n)


class SymBufferView(SymArray):
    """buffer[:n]: a view of the first n rows.  Reading (write_array) sees the columns assigned so far - through the
    buffer or through the view; assigning view[:, j] = values (or view[:k, j]) writes through to the buffer."""

    def __init__(self, parent, n):
        super().__init__(n, parent.ncols, parent.dtype, origin='pix-chunk', cols={})
        self._parent = parent

    @property
    def cols(self):
        return dict(self._parent.assign)

    @cols.setter
    def cols(self, v):
        pass

    @property
    def src(self):
        return dict(self._parent.src)

    def frozen(self):
        out = SymArray(self.nrows, self.ncols, self.dtype, origin='pix-chunk', cols=dict(self._parent.assign))
        out.src = dict(self._parent.src)
        return out

    def __setitem__(self, key, col):
        rows, j = key
        if not (isinstance(rows, slice) and rows.start is None and rows.step is None):
            raise C.Unsupported('buffer view assignment pattern')
        n = self.nrows if rows.stop is None else R.lift(rows.stop)
        self._parent[slice(None, n), j] = col


SHAPE_OBLIGATIONS: list = []


class SymCol:
    def __init__(self, row, start, stop, factor, unit):
        self.row, self.start, self.stop, self.factor, self.unit = row, start, stop, factor, unit

    def __symlen__(self):
        return self.stop - self.start


class SymRow:
    """One pixel row (coordinate / signal / variance) of symbolic length N."""

    __symrow__ = True

    def __init__(self, name, n, unit, start=None, stop=None, factor=None, base=None):
        from symsc.units import parse_unit

        self.name = name
        self.n = R.lift(n)
        self.unit = parse_unit(unit) if isinstance(unit, str) else unit
        self.start = R.lift(0) if start is None else start
        self.stop = self.n if stop is None else stop
        self.factor = factor if factor is not None else R.lift(1)
        self.base = base or self
        self.dims = ('pixel',)
        self.dim = 'pixel'
        self.bins = None

    def __symlen__(self):
        return self.stop - self.start

    def _stat(self, which):
        from symsc.variable import Variable

        return Variable(dims=(), values=C.sym_var(f'{which}_{self.name}') * self.factor, unit=self.unit, dtype='float64')

    def min(self):
        return self._stat('min')

    def max(self):
        return self._stat('max')

    def __getitem__(self, key):
        if not isinstance(key, slice) or key.step is not None:
            raise C.Unsupported('row indexing pattern')
        ln = self.stop - self.start
        a = R.lift(0) if key.start is None else R.lift(key.start)
        b = ln if key.stop is None else R.lift(key.stop)
        # Python slice clamping for non-negative bounds
        a = symmin(a, ln)
        b = symmin(b, ln)
        if bool(b < a):
            b = a
        return SymRow(self.name, self.n, self.unit, self.start + a, self.start + b, self.factor, self.base)

    def to_unit(self, unit):
        from symsc.units import parse_unit

        unit = parse_unit(unit) if unit is not None else None
        if unit is None:
            if self.unit is not None:
                from symsc.units import UnitError
                raise UnitError(f'Cannot convert {self.unit} to None')
            return self
        if self.unit is None:
            from symsc.units import UnitError
            raise UnitError(f'Cannot convert None to {unit}')
        f = R(self.unit.factor_to(unit))
        return SymRow(self.name, self.n, unit, self.start, self.stop, self.factor * f, self.base)

    @property
    def values(self):
        return SymCol(self, self.start, self.stop, self.factor, self.unit)


class SymCoordsPix(dict):
    def is_edges(self, name, dim=None):
        return False


class SymPixels:
    """DataArray stand-in holding rows of symbolic length."""

    def __init__(self, n, units):
        self.n = n
        self.coords = SymCoordsPix({k: SymRow(k, n, u) for k, u in units.items() if k not in ('signal', 'error')})
        self.data = SymData(n, units['signal'])
        self.dim = 'pixel'


class SymData:
    __symdata__ = True

    def __init__(self, n, unit):
        self.n = n
        self.unit = unit
        self.dim = 'pixel'

    def values_row(self):
        return SymRow('signal', self.n, self.unit)

    def variances_row(self):
        from symsc.units import parse_unit

        u = parse_unit(self.unit) if isinstance(self.unit, str) else self.unit
        return SymRow('error', self.n, u ** 2)


def symfloat(x=0.0):
    from symsc.variable import Variable

    if isinstance(x, Variable):
        x = x.value
    if isinstance(x, R):
        return x if not x.is_const() else builtins.float(x.const_value())
    return builtins.float(x)


def install(build_mod, sqw_mod=None, rw_mod=None):
    """Inject the symbolic environment into the real modules' globals."""
    import sys

    models = sys.modules.get('scippneutron.io.sqw._models')
    if models is not None:
        models.float = symfloat
        models.int = symint

    build_mod.LowLevelSqw = SymStream
    build_mod.BytesIO = SymFile
    build_mod.len = symlen
    build_mod.range = symrange
    build_mod.min = symmin
    build_mod.int = symint
    build_mod.np = SymNP()
    if sqw_mod is not None:
        sqw_mod.LowLevelSqw = SymStream
        sqw_mod.range = symrange
    sc = sys.modules['scipp']
    from symsc import api

    def values(x):
        if hasattr(x, '__symdata__'):
            return x.values_row()
        return api.values(x)

    def variances(x):
        if hasattr(x, '__symdata__'):
            return x.variances_row()
        return api.variances(x)

    def to_unit(x, unit, copy=True):
        if hasattr(x, '__symrow__'):
            return x.to_unit(unit)
        return api.to_unit(x, unit, copy=copy)

    sc.values, sc.variances, sc.to_unit = values, variances, to_unit
