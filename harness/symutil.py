"""Helpers shared by the symbolic harnesses."""
from __future__ import annotations

import itertools
from fractions import Fraction

import numpy as np

from symex import core as C
from symex import terms as T
from symex.core import R
from symsc import variable as V
from symsc.units import Unit, parse_unit
from symsc.variable import DType, Variable


def fresh_run():
    """New atom universe + solver context (one per obligation family)."""
    T.reset_universe()
    C.CTX.reset_all()
    V.WRITE_LOG.clear()
    V.ALIAS_LOG.clear()
    # constants module holds atoms of the old universe: rebuild
    import sys

    from symsc import api

    if 'scipp' in sys.modules and getattr(sys.modules['scipp'], '__version__', '').endswith('symsc'):
        sc = sys.modules['scipp']
        sc.constants = api._mk_constants()
        sys.modules['scipp.constants'] = sc.constants
        # modules that did `import scipp.constants as const`
        for name, m in list(sys.modules.items()):
            if name.startswith('scippneutron') and m is not None:
                if getattr(m, 'const', None) is not None and hasattr(m.const, 'm_n'):
                    m.const = sc.constants
                for attr in ('h', 'm_n'):
                    v = getattr(m, attr, None)
                    if isinstance(v, Variable) and not v.dims and v is not getattr(sc.constants, attr):
                        # from scipp.constants import h, m_n
                        try:
                            setattr(m, attr, getattr(sc.constants, attr))
                        except Exception:  # noqa: BLE001
                            pass


def sym_unit(name, like):
    """Unit of the dimension of `like` with symbolic positive scale factor sigma_<name>."""
    return Unit.symbolic('sigma_' + name, like)


def sym_scalar(name, unit, dtype='float64', sign='+'):
    return Variable(dims=(), values=C.sym_var(name, sign=sign), unit=unit, dtype=dtype)


def sym_array(name, dim, n, unit, dtype='float64', sign='+'):
    vals = [C.sym_var(f'{name}_{i}', sign=sign) for i in range(n)]
    a = np.empty((n,), dtype=object)
    for i, v in enumerate(vals):
        a[i] = v
    return Variable(_arr=a, dims=(dim,), unit=parse_unit(unit) if isinstance(unit, str) else unit, dtype=V.as_dtype(dtype))


def sym_array2(name, dims, shape, unit, dtype='float64', sign='+'):
    a = np.empty(tuple(shape), dtype=object)
    for idx in np.ndindex(tuple(shape)):
        a[idx] = C.sym_var(f'{name}_' + '_'.join(map(str, idx)), sign=sign)
    return Variable(_arr=a, dims=tuple(dims), unit=parse_unit(unit) if isinstance(unit, str) else unit, dtype=V.as_dtype(dtype))


def sym_vector(name, unit, sign=None):
    a = np.empty((3,), dtype=object)
    for k, c in enumerate('xyz'):
        a[k] = C.sym_var(f'{name}_{c}', sign=sign)
    return Variable(_arr=a, dims=(), unit=parse_unit(unit) if isinstance(unit, str) else unit, dtype=DType.vector3)


def sym_vectors(name, dim, n, unit):
    a = np.empty((n, 3), dtype=object)
    for i in range(n):
        for k, c in enumerate('xyz'):
            a[i, k] = C.sym_var(f'{name}{i}_{c}')
    return Variable(_arr=a, dims=(dim,), unit=parse_unit(unit) if isinstance(unit, str) else unit, dtype=DType.vector3)


def si_value(v: Variable, idx=()):
    """Physical value in SI base units (value * unit scale) of element idx as R."""
    x = v.values[idx] if idx != () or v.dims else v.value
    return x * R(v.unit.scale_rat())


def elems(v: Variable):
    return list(np.ndindex(v.shape))


def vec(v: Variable, idx=()):
    a = v.values[idx]
    return [a[0], a[1], a[2]]


def vdot(a, b):
    return a[0] * b[0] + a[1] * b[1] + a[2] * b[2]


def vsub(a, b):
    return [a[i] - b[i] for i in range(3)]


def vadd(a, b):
    return [a[i] + b[i] for i in range(3)]


def vscale(a, s):
    return [x * s for x in a]


def vcross(a, b):
    return [a[1] * b[2] - a[2] * b[1], a[2] * b[0] - a[0] * b[2], a[0] * b[1] - a[1] * b[0]]


def vnorm2(a):
    return vdot(a, a)


def model_float(env: dict):
    return {k: float(v) for k, v in env.items()}


def model_json(env: dict):
    return {k: [str(v), float(v)] for k, v in env.items()}


def H():
    return C.sym_var('h_planck', sign='+')


def MN():
    return C.sym_var('m_neutron', sign='+')


def PI():
    return R(T.PI())


def rounding_budget_ok(v: Variable, double_bound=Fraction(1, 10**11), single_bound=Fraction(1, 10**5)):
    """First-order (1+delta) model: relative error <= n64*2u64 + n32*2u32 (+ second order).
    Returns (B goal, bound used, budget)."""
    n64, n32 = v._rnd
    u64 = Fraction(1, 2**53)
    u32 = Fraction(1, 2**24)
    budget = n64 * 2 * u64 * (1 + 2 * u64) + n32 * 2 * u32 * (1 + 2 * u32)
    bound = single_bound if v.dtype.name == 'float32' else double_bound
    return budget, bound


# --------------------------------------------------------------------------- float32 range of materialised values
UNIT_GRID = {
    'energy': {'ueV': Fraction(1602176634, 10**34), 'meV': Fraction(1602176634, 10**31), 'eV': Fraction(1602176634, 10**28), 'J': Fraction(1)},
    'time': {'ns': Fraction(1, 10**9), 'us': Fraction(1, 10**6), 'ms': Fraction(1, 10**3), 's': Fraction(1)},
    'length': {'angstrom': Fraction(1, 10**10), 'nm': Fraction(1, 10**9), 'um': Fraction(1, 10**6), 'mm': Fraction(1, 10**3), 'cm': Fraction(1, 100),
               'm': Fraction(1), 'km': Fraction(1000)},
    'wavelength': {'angstrom': Fraction(1, 10**10), 'nm': Fraction(1, 10**9), 'm': Fraction(1)},
    'invlength': {'1/angstrom': Fraction(10**10), '1/nm': Fraction(10**9), '1/m': Fraction(1)},
}
PHYS_CONSTS = {'m_neutron': Fraction(167492749804, 10**38), 'h_planck': Fraction(662607015, 10**42)}
F32_TINY = Fraction(1, 2**126)   # smallest normal single-precision number
F32_MAX = Fraction(2**128 - 2**104)


def f32_range_obligations(tag, terms, sigmas, ranges, timeout_ms=20000):
    """Every value the code materialises in single precision from a wider intermediate (logged by the shim's astype) has to be
    zero or a NORMAL float32 number for every unit choice of the quantifier grid and every input in its declared range;
    a subnormal / flushed-to-zero constant silently changes the result.

    sigmas: {atom name of a symbolic unit scale: kind in UNIT_GRID};  ranges: {atom name of an input: (lo_SI, hi_SI, sigma atom name)}.
    Terms with atoms outside (sigmas, ranges, physical constants) are skipped (listed in the returned notes).
    Returns (obligations, violated [(term repr, model)], notes)."""
    U = T.universe()
    obs, bad, notes, seen = [], [], [], set()
    for x in terms:
        x = R.lift(x)
        if x.special is not None or x.t.is_const():
            continue
        k = x.t.key()
        if k in seen:
            continue
        seen.add(k)
        names = {U.atoms[i].name for i in x.t.atoms()}
        ass = []
        unknown = names - set(sigmas) - set(ranges) - set(PHYS_CONSTS)
        for i in x.t.atoms():
            a_ = U.atoms[i]
            if a_.name not in unknown:
                continue
            av_ = R(T.Rat(T.atom_poly(a_)))
            if a_.name == 'pi':
                ass += [av_ > Fraction(314159, 100000), av_ < Fraction(314160, 100000)]
                unknown.discard(a_.name)
            elif a_.kind == 'fn' and a_.fn == 'sin':
                # sin(theta) of a scattering angle 2 theta in [0.01, 3.1] rad
                ass += [av_ >= Fraction(1, 250), av_ <= 1]
                unknown.discard(a_.name)
        if unknown:
            notes.append(f'{tag}: float32 value with atoms {sorted(unknown)} not range-checked')
            continue
        for nm in names & set(PHYS_CONSTS):
            ass.append(R(T.var(nm, sign='+')) == PHYS_CONSTS[nm])
        need_sig = (names & set(sigmas)) | {ranges[a][2] for a in names & set(ranges) if ranges[a][2] is not None}
        for nm in need_sig:
            sv = R(T.var(nm, sign='+'))
            ass.append(C.any_of([sv == v for v in UNIT_GRID[sigmas[nm]].values()]))
        for a in names & set(ranges):
            lo, hi, sg = ranges[a]
            av = R(T.var(a, sign='+'))
            sv = R(T.var(sg, sign='+')) if sg is not None else 1
            ass += [av * sv >= lo, av * sv <= hi]
        goal = ((x == 0) | (x >= F32_TINY) | (x <= -F32_TINY)) & (x <= F32_MAX) & (x >= -F32_MAX)
        ob = C.prove(f'{tag}: float32-materialised value {str(x)[:70]} is zero or a normal float32 over the unit grid', goal, assumptions=ass, timeout_ms=timeout_ms)
        obs.append(ob)
        if ob.status == 'violated':
            units = {}
            for nm in need_sig:
                mv = (ob.model or {}).get(nm)
                for un, uv in UNIT_GRID[sigmas[nm]].items():
                    if mv is not None and abs(Fraction(mv) - uv) <= uv / 1000:
                        units[nm] = un
            bad.append((str(x)[:100], units))
    return obs, bad, notes
