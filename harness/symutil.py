"""Helpers shared by the symbolic harnesses."""
from __future__ import annotations

import itertools
from fractions import Fraction

import numpy as np

from symex import core as C
from symex import terms as T
from symex.core import R
from symsc import variable as V
from symsc.units import Unit, parse_unit
from symsc.variable import DType, Variable


def fresh_run():
    """New atom universe + solver context (one per obligation family)."""
    T.reset_universe()
    C.CTX.reset_all()
    V.WRITE_LOG.clear()
    V.ALIAS_LOG.clear()
    # constants module holds atoms of the old universe: rebuild
    import sys

    from symsc import api

    if 'scipp' in sys.modules and getattr(sys.modules['scipp'], '__version__', '').endswith('symsc'):
        sc = sys.modules['scipp']
        sc.constants = api._mk_constants()
        sys.modules['scipp.constants'] = sc.constants
        # modules that did `import scipp.constants as const`
        for name, m in list(sys.modules.items()):
            if name.startswith('scippneutron') and m is not None:
                if getattr(m, 'const', None) is not None and hasattr(m.const, 'm_n'):
                    m.const = sc.constants
                for attr in ('h', 'm_n'):
                    v = getattr(m, attr, None)
                    if isinstance(v, Variable) and not v.dims and v is not getattr(sc.constants, attr):
                        # from scipp.constants import h, m_n
                        try:
                            setattr(m, attr, getattr(sc.constants, attr))
                        except Exception:  # noqa: BLE001
                            pass


def sym_unit(name, like):
    """Unit of the dimension of `like` with symbolic positive scale factor sigma_<name>."""
    return Unit.symbolic('sigma_' + name, like)


def sym_scalar(name, unit, dtype='float64', sign='+'):
    return Variable(dims=(), values=C.sym_var(name, sign=sign), unit=unit, dtype=dtype)


def sym_array(name, dim, n, unit, dtype='float64', sign='+'):
    vals = [C.sym_var(f'{name}_{i}', sign=sign) for i in range(n)]
    a = np.empty((n,), dtype=object)
    for i, v in enumerate(vals):
        a[i] = v
    return Variable(_arr=a, dims=(dim,), unit=parse_unit(unit) if isinstance(unit, str) else unit, dtype=V.as_dtype(dtype))


def sym_array2(name, dims, shape, unit, dtype='float64', sign='+'):
    a = np.empty(tuple(shape), dtype=object)
    for idx in np.ndindex(tuple(shape)):
        a[idx] = C.sym_var(f'{name}_' + '_'.join(map(str, idx)), sign=sign)
    return Variable(_arr=a, dims=tuple(dims), unit=parse_unit(unit) if isinstance(unit, str) else unit, dtype=V.as_dtype(dtype))


def sym_vector(name, unit, sign=None):
    a = np.empty((3,), dtype=object)
    for k, c in enumerate('xyz'):
        a[k] = C.sym_var(f'{name}_{c}', sign=sign)
    return Variable(_arr=a, dims=(), unit=parse_unit(unit) if isinstance(unit, str) else unit, dtype=DType.vector3)


def sym_vectors(name, dim, n, unit):
    a = np.empty((n, 3), dtype=object)
    for i in range(n):
        for k, c in enumerate('xyz'):
            a[i, k] = C.sym_var(f'{name}{i}_{c}')
    return Variable(_arr=a, dims=(dim,), unit=parse_unit(unit) if isinstance(unit, str) else unit, dtype=DType.vector3)


def si_value(v: Variable, idx=()):
    """Physical value in SI base units (value * unit scale) of element idx as R."""
    x = v.values[idx] if idx != () or v.dims else v.value
    return x * R(v.unit.scale_rat())


def elems(v: Variable):
    return list(np.ndindex(v.shape))


def vec(v: Variable, idx=()):
    a = v.values[idx]
    return [a[0], a[1], a[2]]


def vdot(a, b):
    return a[0] * b[0] + a[1] * b[1] + a[2] * b[2]


def vsub(a, b):
    return [a[i] - b[i] for i in range(3)]


def vadd(a, b):
    return [a[i] + b[i] for i in range(3)]


def vscale(a, s):
    return [x * s for x in a]


def vcross(a, b):
    return [a[1] * b[2] - a[2] * b[1], a[2] * b[0] - a[0] * b[2], a[0] * b[1] - a[1] * b[0]]


def vnorm2(a):
    return vdot(a, a)


def model_float(env: dict):
    return {k: float(v) for k, v in env.items()}


def model_json(env: dict):
    return {k: [str(v), float(v)] for k, v in env.items()}


def H():
    return C.sym_var('h_planck', sign='+')


def MN():
    return C.sym_var('m_neutron', sign='+')


def PI():
    return R(T.PI())


def rounding_budget_ok(v: Variable, double_bound=Fraction(1, 10**11), single_bound=Fraction(1, 10**5)):
    """First-order (1+delta) model: relative error <= n64*2u64 + n32*2u32 (+ second order).
    Returns (B goal, bound used, budget)."""
    n64, n32 = v._rnd
    u64 = Fraction(1, 2**53)
    u32 = Fraction(1, 2**24)
    budget = n64 * 2 * u64 * (1 + 2 * u64) + n32 * 2 * u32 * (1 + 2 * u32)
    bound = single_bound if v.dtype.name == 'float32' else double_bound
    return budget, bound
