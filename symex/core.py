"""Symbolic scalars, path exploration by re-execution, lowering to z3 (DESIGN 3.1-3.3)."""
from __future__ import annotations

import os
import time
from fractions import Fraction

import z3

from . import terms as T
from .terms import Rat

# =========================================================================== stats


class Stats:
    def __init__(self):
        self.queries = 0
        self.solver_time = 0.0
        self.unknown = 0
        self.shapes = set()
        self.by_result = {'sat': 0, 'unsat': 0, 'unknown': 0}
        self.cross = {'checked': 0, 'agree': 0, 'other_unknown': 0, 'disagree': 0}
        self.vacuity_checked = 0


STATS = Stats()


class HarnessError(BaseException):
    """The encoding met something it does not model: path is inconclusive."""


class Unsupported(HarnessError):
    pass


class _Abort(BaseException):
    """Path abandoned (infeasible or budget)."""


# =========================================================================== booleans


class B:
    """Symbolic Boolean.  kind: const | cmp | and | or | not | z3"""

    __slots__ = ('kind', 'a', 'op')

    def __init__(self, kind, a, op=None):
        self.kind = kind
        self.a = a
        self.op = op

    @staticmethod
    def const(v):
        return TRUE if v else FALSE

    @staticmethod
    def lift(v):
        if isinstance(v, B):
            return v
        if isinstance(v, bool | int):
            return TRUE if v else FALSE
        if isinstance(v, z3.BoolRef):
            return B('z3', v)
        import numpy as _np

        if isinstance(v, _np.bool_):
            return TRUE if bool(v) else FALSE
        raise TypeError(f'cannot lift {type(v)} to B')

    def is_const(self):
        return self.kind == 'const'

    def __and__(self, o):
        o = B.lift(o)
        if self.kind == 'const':
            return o if self.a else FALSE
        if o.kind == 'const':
            return self if o.a else FALSE
        return B('and', (self, o))

    __rand__ = __and__

    def __or__(self, o):
        o = B.lift(o)
        if self.kind == 'const':
            return TRUE if self.a else o
        if o.kind == 'const':
            return TRUE if o.a else self
        return B('or', (self, o))

    __ror__ = __or__

    def __invert__(self):
        if self.kind == 'const':
            return FALSE if self.a else TRUE
        if self.kind == 'not':
            return self.a
        return B('not', self)

    def __xor__(self, o):
        o = B.lift(o)
        return (self & ~o) | (~self & o)

    def implies(self, o):
        return ~self | B.lift(o)

    def __bool__(self):
        if self.kind == 'const':
            return self.a
        return CTX.decide(self)

    def __eq__(self, o):  # Boolean equality
        o = B.lift(o)
        return (self & o) | (~self & ~o)

    def __ne__(self, o):
        return self ^ o

    __hash__ = object.__hash__

    def __repr__(self):
        if self.kind == 'const':
            return str(self.a)
        if self.kind == 'cmp':
            return f'({self.a!r} {self.op} 0)'
        if self.kind == 'not':
            return '!' + _short_repr(self.a)
        if self.kind in ('and', 'or'):
            # flatten left-nested chains iteratively (a & b & c ... can be thousands deep)
            parts, stack = [], [self]
            while stack and len(parts) < 8:
                n = stack.pop()
                if n.kind == self.kind:
                    stack.extend(reversed(n.a))
                else:
                    parts.append(n)
            txt = f' {self.kind} '.join(_short_repr(p) for p in parts)
            return '(' + txt + (' ...' if stack else '') + ')'
        return f'z3[{self.a}]'


def _short_repr(b, depth=3):
    if b.kind in ('and', 'or') or depth <= 0:
        return repr(b) if depth > 0 else '(...)'
    if b.kind == 'not':
        return '!' + _short_repr(b.a, depth - 1)
    return repr(b)


TRUE = B('const', True)
FALSE = B('const', False)


def cmp(r: Rat, op: str) -> B:
    """r op 0 with op in < <= == != (>, >= via negation)."""
    if op == '>':
        return cmp(-r, '<')
    if op == '>=':
        return cmp(-r, '<=')
    if r.is_const():
        v = r.const_value()
        return B.const({'<': v < 0, '<=': v <= 0, '==': v == 0, '!=': v != 0}[op])
    s = r.sign()
    if s is not None:
        tbl = {
            '+': {'<': False, '<=': False, '==': False, '!=': True},
            '-': {'<': True, '<=': True, '==': False, '!=': True},
            '0+': {'<': False},
            '0-': {'<=': True},
            '0': {'<': False, '<=': True, '==': True, '!=': False},
        }[s]
        if op in tbl:
            return B.const(tbl[op])
    return B('cmp', r, op)


def all_of(bs):
    r = TRUE
    for b in bs:
        r = r & B.lift(b)
    return r


def any_of(bs):
    r = FALSE
    for b in bs:
        r = r | B.lift(b)
    return r


# =========================================================================== reals


class R:
    """Symbolic real (or integer) scalar; may be one of the specials nan / inf / -inf."""

    __slots__ = ('t', 'special')

    def __init__(self, t=None, special=None):
        self.t = t
        self.special = special

    @staticmethod
    def lift(x):
        if isinstance(x, R):
            return x
        if isinstance(x, Rat):
            return R(x)
        if isinstance(x, B):
            raise TypeError('bool in arithmetic')
        if isinstance(x, float):
            if x != x:
                return NAN
            if x == float('inf'):
                return INF
            if x == float('-inf'):
                return NINF
        import numpy as _np

        if isinstance(x, _np.generic):
            x = x.item()
            return R.lift(x)
        return R(Rat.lift(x))

    # -- helpers
    def is_const(self):
        return self.special is None and self.t.is_const()

    def const_value(self) -> Fraction:
        return self.t.const_value()

    def finite(self):
        return self.special is None

    def _bin(self, o, op):
        try:
            o = R.lift(o)
        except TypeError:
            return NotImplemented
        if self.special or o.special:
            return _special_arith(self, o, op)
        if op == 'add':
            return R(self.t + o.t)
        if op == 'sub':
            return R(self.t - o.t)
        return R(self.t * o.t)

    def __add__(self, o):
        return self._bin(o, 'add')

    __radd__ = __add__

    def __sub__(self, o):
        return self._bin(o, 'sub')

    def __rsub__(self, o):
        return R.lift(o) - self

    def __mul__(self, o):
        return self._bin(o, 'mul')

    __rmul__ = __mul__

    def __neg__(self):
        if self.special:
            return {'nan': NAN, 'inf': NINF, '-inf': INF}[self.special]
        return R(-self.t)

    def __pos__(self):
        return self

    def __abs__(self):
        if self.special:
            return NAN if self.special == 'nan' else INF
        return R(T.rabs(self.t))

    def __truediv__(self, o):
        try:
            o = R.lift(o)
        except TypeError:
            return NotImplemented
        if self.special or o.special:
            return _special_arith(self, o, 'div')
        if o.t.is_zero() or not CTX.nonzero(o.t):
            # division by zero: IEEE semantics
            if bool(cmp(self.t, '==')):
                return NAN
            return INF if bool(cmp(self.t, '>')) else NINF
        return R(self.t / o.t)

    def __rtruediv__(self, o):
        return R.lift(o) / self

    def __pow__(self, n):
        if isinstance(n, R):
            if not n.is_const():
                raise Unsupported('symbolic exponent')
            n = n.const_value()
        n = Fraction(n)
        if self.special:
            return self if n > 0 else NAN
        if n < 0:
            return R.lift(1) / (self ** (-n))
        if n.denominator == 1:
            return R(self.t ** int(n))
        if n.denominator == 2:
            return rsqrt(self) ** int(n.numerator)
        raise Unsupported(f'power {n}')

    def __floordiv__(self, o):
        return floordiv(self, o)

    def __rfloordiv__(self, o):
        return floordiv(R.lift(o), self)

    def __mod__(self, o):
        o = R.lift(o)
        return self - floordiv(self, o) * o

    # -- comparisons
    def _cmp(self, o, op):
        try:
            o = R.lift(o)
        except TypeError:
            return NotImplemented
        if self.special or o.special:
            return B.const(_special_cmp(self, o, op))
        return cmp(self.t - o.t, op)

    def __lt__(self, o):
        return self._cmp(o, '<')

    def __le__(self, o):
        return self._cmp(o, '<=')

    def __gt__(self, o):
        return self._cmp(o, '>')

    def __ge__(self, o):
        return self._cmp(o, '>=')

    def __eq__(self, o):
        return self._cmp(o, '==')

    def __ne__(self, o):
        return self._cmp(o, '!=')

    __hash__ = object.__hash__

    # -- concretisation
    def _concrete(self):
        if self.special:
            return float(self.special)
        if self.t.is_const():
            return self.t.const_value()
        raise Unsupported(f'concretisation of symbolic value {self!r}')

    def __float__(self):
        if self.special is None and not self.t.is_const() and (CTX.exploring or CTX.concrete_env is not None):
            return concretise_float(self)
        return float(self._concrete())

    def __int__(self):
        if self.special is None and not self.t.is_const() and (CTX.exploring or CTX.concrete_env is not None):
            return concretise_int(sym_trunc(self))
        v = self._concrete()
        return int(v)

    def __index__(self):
        if self.special is None and not self.t.is_const() and (CTX.exploring or CTX.concrete_env is not None):
            return concretise_int(self)
        v = self._concrete()
        if isinstance(v, Fraction) and v.denominator == 1:
            return int(v)
        raise TypeError('non-integer index')

    def __bool__(self):
        return bool(self != 0)

    def __round__(self, n=None):
        return sym_round(self)

    def __repr__(self):
        return self.special if self.special else repr(self.t)


NAN = R(None, 'nan')
INF = R(None, 'inf')
NINF = R(None, '-inf')


def _sgn(x):
    """+1 / -1 / 0 for a finite R (forks if unknown)."""
    if bool(cmp(x.t, '==')):
        return 0
    return 1 if bool(cmp(x.t, '>')) else -1


def _special_arith(a, b, f):
    if a.special == 'nan' or b.special == 'nan':
        return NAN
    inf = {1: INF, -1: NINF}
    sa = {'inf': 1, '-inf': -1}.get(a.special)
    sb = {'inf': 1, '-inf': -1}.get(b.special)
    if f == 'div':
        if sa and sb:
            return NAN
        if sb:
            return R.lift(0)
        s = _sgn(b)
        return inf[sa * s] if s else inf[sa]
    if f in ('add', 'sub'):
        if f == 'sub' and sb:
            sb = -sb
        if sa and sb:
            return inf[sa] if sa == sb else NAN
        return inf[sa or sb]
    if f == 'mul':
        if sa and sb:
            return inf[sa * sb]
        s = _sgn(b if sa else a)
        if s == 0:
            return NAN
        return inf[(sa or sb) * s]
    raise Unsupported('arithmetic on infinities')


def _special_cmp(a, b, op):
    if a.special == 'nan' or b.special == 'nan':
        return op == '!='
    av = float(a.special) if a.special else 0.0
    bv = float(b.special) if b.special else 0.0
    if a.special and b.special:
        return {'<': av < bv, '<=': av <= bv, '>': av > bv, '>=': av >= bv, '==': av == bv, '!=': av != bv}[op]
    if a.special:
        return {'<': av < 0, '<=': av < 0, '>': av > 0, '>=': av > 0, '==': False, '!=': True}[op]
    return {'<': bv > 0, '<=': bv > 0, '>': bv < 0, '>=': bv < 0, '==': False, '!=': True}[op]


def rsqrt(x, nonneg=False) -> R:
    """sqrt; nonneg=True when the caller knows the argument is a sum of squares."""
    if hasattr(x, 'sym_sqrt'):
        return x.sym_sqrt()
    x = R.lift(x)
    if x.special:
        return NAN if x.special in ('nan', '-inf') else INF
    s = x.t.sign()
    if nonneg:
        return R(T.sqrt(x.t))
    if s in ('-',) or (s is None and not CTX.nonneg(x.t)):
        return NAN
    return R(T.sqrt(x.t))


def rfn(name, *args, sign=None) -> R:
    for a in args:
        if hasattr(a, 'sym_fn'):
            return a.sym_fn(name, args)
    args = [R.lift(a) for a in args]
    if any(a.special for a in args):
        raise Unsupported(f'{name} of non-finite')
    return R(T.fn(name, *[a.t for a in args], sign=sign))


def sym_var(name, sign=None, is_int=False) -> R:
    return R(T.var(name, sign=sign, is_int=is_int))


def floordiv(a, b) -> R:
    a = R.lift(a)
    b = R.lift(b)
    if a.is_const() and b.is_const():
        return R.lift(a.const_value() // b.const_value())
    key = ('floordiv', a.t.key(), b.t.key())
    q = CTX.defined.get(key)
    if q is None:
        q = R(T.fresh('q', is_int=True))
        CTX.defined[key] = q
        # b*q <= a < b*q + b  (b > 0)   or  b*q >= a > b*q + b (b < 0)
        pos = (b > 0) & (b * q <= a) & (a < b * q + b)
        neg = (b < 0) & (b * q >= a) & (a > b * q + b)
        CTX.definitions.append(pos | neg)
    return q


def sym_round(x) -> R:
    """Round half to even (Python / numpy semantics) as an Int-valued term."""
    x = R.lift(x)
    if x.special:
        return x
    if x.is_const():
        return R.lift(round(x.const_value()))
    key = ('round', x.t.key())
    n = CTX.defined.get(key)
    if n is None:
        n = R(T.fresh('rnd', is_int=True))
        k = R(T.fresh('rndk', is_int=True))
        CTX.defined[key] = n
        d = x - n
        half = Fraction(1, 2)
        inside = (d > -half) & (d < half)
        tie_up = (d == half) & (n == 2 * k)
        tie_dn = (d == -half) & (n == 2 * k)
        CTX.definitions.append(inside | tie_up | tie_dn)
    return n


def sym_trunc(x) -> R:
    """int(x): truncation towards zero as an Int-valued term."""
    x = R.lift(x)
    if x.is_const():
        import math
        return R.lift(math.trunc(x.const_value()))
    key = ('trunc', x.t.key())
    n = CTX.defined.get(key)
    if n is None:
        n = R(T.fresh('trunc', is_int=True))
        CTX.defined[key] = n
        CTX.definitions.append(((x >= 0) & (n <= x) & (x < n + 1)) | ((x < 0) & (n - 1 < x) & (x <= n)))
    return n


def concretise_int(x, limit=12) -> int:
    """A Python int is needed (range(), repetition counts, int()) for an integer-valued symbolic term: enumerate the
    values it can take under the current path condition (at most `limit`) and fork over them in ascending order."""
    x = R.lift(x)
    if x.special is None and x.t.is_const():
        return int(x.const_value())
    if CTX.concrete_env is not None:
        return int(round(float(T.evaluate(x.t, CTX.concrete_env))))
    kv = R(T.fresh('conc', is_int=True))
    vals = []
    while len(vals) <= limit:
        r = solve([*CTX.assumptions, *CTX.pc, kv == x, *[kv != v for v in vals]], timeout_ms=max(CTX.fork_timeout_ms, 5000))
        if r.status == 'unsat':
            break
        if r.status != 'sat':
            raise Unsupported(f'integer concretisation: solver {r.status}')
        v = None
        for k_, val in (r.model or {}).items():
            if k_ == _var_name(kv):
                v = int(val)
        if v is None:
            raise Unsupported('integer concretisation: no model value')
        vals.append(v)
    if not vals or len(vals) > limit:
        raise Unsupported(f'integer concretisation: {"no" if not vals else "more than " + str(limit)} feasible values')
    for v in sorted(vals):
        if bool(x == v):
            return v
    raise _Abort('path infeasible')


def concretise_float(x) -> float:
    """float() of a symbolic real leaves the model: a Python float has to be handed out.  Concolic treatment: one feasible
    value v is taken from a model of the path condition and the path forks on x == v; the branch x == v continues with the
    concrete float, the branch x != v ends as an encoding gap (Unsupported), so the restriction is never reported as a pass."""
    x = R.lift(x)
    if CTX.concrete_env is not None:
        return float(T.evaluate(x.t, CTX.concrete_env))
    key = ('conc_float', x.t.key())
    v = CTX.defined.get(key)
    if v is None:
        kv = R(T.fresh('concf'))
        base = [*CTX.assumptions, *CTX.pc, kv == x]
        for pref in ([kv > Fraction(1, 3), kv < Fraction(2, 3)], [kv > 0], []):
            r = solve([*base, *pref], timeout_ms=max(CTX.fork_timeout_ms, 5000))
            if r.status == 'sat':
                break
        if r.status != 'sat':
            raise Unsupported(f'float() of symbolic value {x!r}: solver {r.status}')
        for k_, val in (r.model or {}).items():
            if k_ == _var_name(kv):
                v = Fraction(val).limit_denominator(10**6)
        if v is None:
            raise Unsupported(f'float() of symbolic value {x!r}: no model value')
        CTX.defined[key] = v
    if bool(x == v):
        CTX.notes.append(f'float({x!r}) concretised to {v}')
        return float(v)
    raise Unsupported(f'float() of symbolic value {x!r}: only the value {v} is followed')


def _var_name(r: 'R') -> str:
    return repr(r.t)


# =========================================================================== lowering


class Lowerer:
    """Turns terms into z3 expressions; collects defining constraints of atoms."""

    def __init__(self):
        self.vars = {}
        self.defs = []
        self.fn_groups = {}
        self.extra_axioms = []

    def atom(self, i):
        v = self.vars.get(i)
        if v is not None:
            return v
        a = T.universe().atoms[i]
        if a.is_int:
            zi = z3.Int(f'a{i}_{a.name}'[:60])
            v = z3.ToReal(zi)
            a.meta['z3int'] = zi
        else:
            v = z3.Real(f'a{i}_{a.name}'[:60])
        self.vars[i] = v
        if a.sign == '+':
            self.defs.append(v > 0)
        elif a.sign == '0+':
            self.defs.append(v >= 0)
        elif a.sign == '-':
            self.defs.append(v < 0)
        elif a.sign == '0-':
            self.defs.append(v <= 0)
        if a.kind == 'var' and a.name == 'pi':
            self.defs.append(v > z3.Q(314159265358979, 10**14))
            self.defs.append(v < z3.Q(314159265358980, 10**14))
        if 'bounds' in a.meta:
            lo, hi = a.meta['bounds']
            if lo is not None:
                self.defs.append(v >= _q(lo))
            if hi is not None:
                self.defs.append(v <= _q(hi))
        if a.kind == 'sqrt':
            self.defs.append(v >= 0)
            self.defs.append(v * v == self.poly(a.arg))
        elif a.kind == 'abs':
            p = self.poly(a.arg)
            self.defs.append(v >= 0)
            self.defs.append(z3.Or(v == p, v == -p))
        elif a.kind == 'fn':
            args = [self.rat(x) for x in a.arg]
            grp = self.fn_groups.setdefault(a.fn, [])
            for (v2, args2) in grp:
                self.defs.append(
                    z3.Implies(z3.And(*[x == y for x, y in zip(args, args2, strict=True)]), v == v2)
                )
            grp.append((v, args))
            ax = FN_AXIOMS.get(a.fn)
            if ax:
                self.defs.extend(ax(v, args, self))
        return v

    def poly(self, p: T.Poly):
        if not p.t:
            return z3.RealVal(0)
        terms = []
        for m, c in p.t.items():
            t = None
            for i, e in m:
                x = self.atom(i)
                for _ in range(e):
                    t = x if t is None else t * x
            if t is None:
                t = _q(c)
            elif c != 1:
                t = _q(c) * t
            terms.append(t)
        return terms[0] if len(terms) == 1 else z3.Sum(terms)

    def rat(self, r: Rat):
        n = self.poly(r.num)
        if not r.den:
            return n
        d = None
        for p, e in r.den.items():
            x = self.poly(p)
            for _ in range(e):
                d = x if d is None else d * x
        return n / d

    def cmp(self, r: Rat, op):
        # clear denominators whose sign is known
        n = r.num
        flip = False
        rest = []
        for p, e in r.den.items():
            s = p.sign()
            if s == '+':
                continue
            if s == '-':
                if e % 2:
                    flip = not flip
                continue
            # sign not strictly known: the term exists only where p != 0
            self.defs.append(self.poly(p) != 0)
            if op in ('==', '!=') or e % 2 == 0 or s == '0+':
                continue
            if s == '0-':
                flip = not flip
                continue
            rest.append((p, e))
        ne = self.poly(n)
        if rest:
            d = None
            for p, e in rest:
                x = self.poly(p)
                for _ in range(e % 2 or 1):
                    d = x if d is None else d * x
            ne = ne * d  # same sign as ne / d for d != 0
        if flip:
            ne = -ne
        return {'<': ne < 0, '<=': ne <= 0, '==': ne == 0, '!=': ne != 0}[op]

    def b(self, b: B):
        k = b.kind
        if k == 'const':
            return z3.BoolVal(b.a)
        if k == 'cmp':
            return self.cmp(b.a, b.op)
        if k == 'and':
            return z3.And(*[self.b(x) for x in b.a])
        if k == 'or':
            return z3.Or(*[self.b(x) for x in b.a])
        if k == 'not':
            return z3.Not(self.b(b.a))
        if k == 'z3':
            return b.a
        raise AssertionError(k)


def _q(c):
    c = Fraction(c)
    return z3.Q(c.numerator, c.denominator)


def _ax_sin(v, args, L):
    return [v >= -1, v <= 1]


def _ax_exp(v, args, L):
    (x,) = args
    out = [v > 0, z3.Implies(x <= 0, v <= 1), z3.Implies(x >= 0, v >= 1), z3.Implies(x == 0, v == 1)]
    # monotonicity against the exp atoms already lowered (instantiated pairwise, no quantifiers)
    for (v2, args2) in L.fn_groups.get('exp', [])[:-1]:
        x2 = args2[0]
        out.append(z3.Implies(x <= x2, v <= v2))
        out.append(z3.Implies(x2 <= x, v2 <= v))
    return out


def _ax_atan2(v, args, L):
    y, x = args
    pi = L.atom(T.PI().num.lead()[0][0][0])
    return [
        v <= pi,
        v >= -pi,
        z3.Implies(y >= 0, v >= 0),
        z3.Implies(z3.And(y >= 0, x >= 0), v <= pi / 2),
        z3.Implies(z3.And(y == 0, x > 0), v == 0),
        z3.Implies(z3.And(y > 0, x == 0), v == pi / 2),
        z3.Implies(z3.And(y > 0), v > 0),
        z3.Implies(z3.And(y >= 0, x < 0), v > pi / 2),
    ]


def _ax_asin(v, args, L):
    pi = L.atom(T.PI().num.lead()[0][0][0])
    (u,) = args
    return [v <= pi / 2, v >= -pi / 2, z3.Implies(u >= 0, v >= 0), z3.Implies(u <= 0, v <= 0),
            z3.Implies(u > 0, v > 0), z3.Implies(u < 0, v < 0), z3.Implies(u == 0, v == 0)]


FN_AXIOMS = {'sin': _ax_sin, 'cos': _ax_sin, 'exp': _ax_exp, 'atan2': _ax_atan2, 'asin': _ax_asin}


# =========================================================================== solver


class Result:
    def __init__(self, status, model=None, t=0.0, lowerer=None):
        self.status = status
        self.model = model
        self.t = t
        self.lowerer = lowerer

    def __repr__(self):
        return f'<{self.status} {self.t:.2f}s>'


def _rat_atoms(r, out):
    """Ids of all atoms of a Rat, including those inside the arguments of sqrt / abs / fn atoms."""
    U = T.universe()
    todo = list(r.atoms())
    while todo:
        i = todo.pop()
        if i in out:
            continue
        out.add(i)
        a = U.atoms[i]
        arg = a.arg
        if arg is None:
            continue
        for x in (arg if isinstance(arg, tuple | list) else (arg,)):
            try:
                todo.extend(x.atoms())
            except AttributeError:
                pass
    return out


def _b_atoms(b, out):
    k = b.kind
    if k == 'cmp':
        _rat_atoms(b.a, out)
    elif k in ('and', 'or'):
        for x in b.a:
            _b_atoms(x, out)
    elif k == 'not':
        _b_atoms(b.a, out)
    return out


_DEF_ATOMS: dict = {}


def _relevant_definitions(bs):
    """Definitions of auxiliary atoms (rnd!k, trunc!k, intconv!k, ...) are kept for the whole job, but a query only gets the
    ones in its cone of influence: a definition speaks about terms that exist on the path that created it (its lowering
    asserts their denominators non-zero), and must not constrain a path on which that auxiliary value was never formed."""
    if not CTX.definitions:
        return []
    U = T.universe()
    needed = set()
    raw = False
    for b in bs:
        if b.kind == 'z3':
            raw = True
        _b_atoms(b, needed)
    info = []
    cache = _DEF_ATOMS
    if cache.get('universe') is not U:
        cache.clear()
        cache['universe'] = U
    for d in CTX.definitions:
        ent = cache.get(id(d))
        if ent is None or ent[0] is not d:
            at = _b_atoms(d, set())
            ent = (d, at, {i for i in at if '!' in U.atoms[i].name})
            cache[id(d)] = ent
        info.append(ent)
    chosen = [False] * len(info)
    changed = True
    while changed:
        changed = False
        for k, (d, at, fresh_) in enumerate(info):
            if chosen[k]:
                continue
            if not fresh_ or raw and d.kind == 'z3' or (fresh_ & needed):
                chosen[k] = True
                needed |= at
                changed = True
    return [d for (d, _a, _f), c in zip(info, chosen, strict=True) if c]


def solve(constraints, timeout_ms=20000, want_model=True, tactic=None) -> Result:
    """Satisfiability of a conjunction of B's (with atom definitions)."""
    L = Lowerer()
    bs = [B.lift(c) for c in constraints]
    zs = [L.b(c) for c in bs]
    # definitions introduced by floordiv / round / trunc: those in the cone of influence of this query
    for d in _relevant_definitions(bs):
        zs.append(L.b(d))
    s = z3.Solver() if tactic is None else z3.Tactic(tactic).solver()
    s.set('timeout', int(timeout_ms))
    # atoms may add defs while lowering others: iterate
    n = 0
    for z in zs:
        s.add(z)
    while n < len(L.defs):
        s.add(L.defs[n])
        n += 1
    t0 = time.time()
    try:
        r = s.check()
    except z3.Z3Exception:
        r = z3.unknown  # interrupted by the job watchdog (or a solver error): inconclusive
    dt = time.time() - t0
    STATS.queries += 1
    STATS.solver_time += dt
    st = str(r)
    STATS.by_result[st] = STATS.by_result.get(st, 0) + 1
    try:
        STATS.shapes.add(hash(s.sexpr()) if len(zs) < 50 else hash(tuple(map(str, zs[:5]))))
    except Exception:  # noqa: BLE001
        pass
    if st in ('sat', 'unsat') and _crosscheck_due():
        other = _cvc5_verdict(s)
        STATS.cross['checked'] += 1
        if other == st:
            STATS.cross['agree'] += 1
        elif other in ('sat', 'unsat'):
            STATS.cross['disagree'] += 1
            st = 'unknown'  # two solvers disagree: inconclusive, never a pass and never a violation
        else:
            STATS.cross['other_unknown'] += 1
    model = None
    if st == 'sat' and want_model:
        model = extract_model(s.model(), L)
    res = Result(st, model, dt, L)
    res.solver = s
    return res


def _crosscheck_due() -> bool:
    if os.environ.get('VERIF_CROSSCHECK', '1' if os.environ.get('VERIF_TIER') == 'thorough' else '0') != '1':
        return False
    # a sample: every 7th query with a definite answer, at most 30 per process
    return STATS.queries % 7 == 0 and STATS.cross["checked"] < 30


def _cvc5_verdict(zs) -> str:
    """Second opinion of cvc5 (wheel, 1.4) on the SMT-LIB2 text of a z3 solver; 5 s limit."""
    try:
        import cvc5

        txt = '(set-logic ALL)\n' + zs.sexpr() + '\n(check-sat)\n'
        slv = cvc5.Solver()
        slv.setOption('tlimit-per', '5000')
        slv.setOption('strings-exp', 'true')
        p = cvc5.InputParser(slv)
        p.setStringInput(cvc5.InputLanguage.SMT_LIB_2_6, txt, 'q')
        sm = p.getSymbolManager()
        res = 'unknown'
        while True:
            cmd = p.nextCommand()
            if cmd.isNull():
                break
            out = cmd.invoke(slv, sm).strip()
            if out in ('sat', 'unsat', 'unknown'):
                res = out
            elif out.startswith('(error'):
                return 'error'
        return res
    except Exception:  # noqa: BLE001
        return 'error'


def extract_model(m, L: Lowerer) -> dict:
    env = {}
    U = T.universe()
    for i, v in L.vars.items():
        a = U.atoms[i]
        if a.kind != 'var':
            continue
        zv = a.meta.get('z3int') if a.is_int else v
        val = m.eval(zv, model_completion=True)
        env[a.name] = _z3num(val)
    return env


def _z3num(val):
    if z3.is_int_value(val):
        return Fraction(val.as_long())
    if z3.is_rational_value(val):
        return Fraction(val.numerator_as_long(), val.denominator_as_long())
    if z3.is_algebraic_value(val):
        ap = val.approx(30)
        return Fraction(ap.numerator_as_long(), ap.denominator_as_long())
    try:
        return Fraction(str(val))
    except Exception:  # noqa: BLE001
        return Fraction(0)


# =========================================================================== executor


class Ctx:
    def __init__(self):
        self.reset_all()

    def reset_all(self):
        self.assumptions: list[B] = []
        self.definitions: list[B] = []
        self.defined: dict = {}
        self.known_nonzero: set = set()
        self.known_nonneg: set = set()
        self.fork_timeout_ms = 3000
        self.oracle_mode = False
        self.concrete_env = None
        self.vacuity_guard = True
        self.unknown_prefixes: set = set()
        self.reset_path([])
        self.exploring = False

    def reset_path(self, decisions):
        self.pc: list[B] = []
        self.decisions = list(decisions)
        self.pos = 0
        self.pending = []
        self.notes = []
        # a branch whose feasibility the solver could not decide when it was queued stays "maybe infeasible" when it is run
        up = getattr(self, 'unknown_prefixes', None)
        self.maybe_infeasible = bool(up) and any(tuple(self.decisions[:k]) in up for k in range(1, len(self.decisions) + 1))

    # -- facts
    def assume(self, b):
        b = B.lift(b)
        self.assumptions.append(b)

    def assume_nonzero(self, r):
        r = r.t if isinstance(r, R) else r
        self.known_nonzero.add(r.key())
        self.known_nonzero.add((-r).key())

    def assume_nonneg(self, r):
        r = r.t if isinstance(r, R) else r
        self.known_nonneg.add(r.key())

    def nonzero(self, r: Rat) -> bool:
        if r.is_const():
            return r.const_value() != 0
        if self.oracle_mode:
            return True
        s = r.sign()
        if s in ('+', '-'):
            return True
        if r.key() in self.known_nonzero:
            return True
        return bool(cmp(r, '!='))

    def nonneg(self, r: Rat) -> bool:
        s = r.sign()
        if s in ('+', '0+', '0'):
            return True
        if r.key() in self.known_nonneg or self.oracle_mode:
            return True
        return bool(cmp(r, '>='))

    # -- forking
    def decide(self, b: B) -> bool:
        if self.concrete_env is not None:
            # validation mode: every atom has a value, conditions are decided numerically (mpmath, 50 digits)
            return eval_bool(b, self.concrete_env)
        if not self.exploring:
            raise Unsupported(f'symbolic condition outside explore(): {b!r}')
        if self.pos < len(self.decisions):
            v = self.decisions[self.pos]
            self.pos += 1
            self.pc.append(b if v else ~b)
            return v
        base = self.assumptions + self.pc
        rt = solve([*base, b], timeout_ms=self.fork_timeout_ms, want_model=False).status
        rf = solve([*base, ~b], timeout_ms=self.fork_timeout_ms, want_model=False).status
        if rt == 'unsat' and rf == 'unsat':
            raise _Abort('path infeasible')
        if rt == 'unknown':
            self.maybe_infeasible = True
        if rt == 'unsat':
            v = False
            if rf == 'unknown':
                self.maybe_infeasible = True
        elif rf == 'unsat':
            v = True
        else:
            v = True
            self.pending.append([*self.decisions, False])
            if rf == 'unknown':
                self.unknown_prefixes.add(tuple([*self.decisions, False]))
        self.decisions.append(v)
        self.pos += 1
        self.pc.append(b if v else ~b)
        return v


def eval_bool(b: B, env: dict) -> bool:
    """Numeric truth value of a symbolic Boolean under a complete assignment of its atoms."""
    if b.kind == 'const':
        return bool(b.a)
    if b.kind == 'not':
        return not eval_bool(b.a, env)
    if b.kind == 'and':
        return all(eval_bool(x, env) for x in b.a)
    if b.kind == 'or':
        return any(eval_bool(x, env) for x in b.a)
    if b.kind == 'cmp':
        from . import terms as _T

        v = _T.evaluate(b.a, env)
        return {'<': v < 0, '<=': v <= 0, '>': v > 0, '>=': v >= 0, '==': v == 0, '!=': v != 0}[b.op]
    raise Unsupported('z3 condition in concrete mode')


CTX = Ctx()


class oracle:
    """Context manager: partial operations inside assume their domain condition (used to
    write oracles, whose domain is the property's precondition)."""

    def __enter__(self):
        self.prev = CTX.oracle_mode
        CTX.oracle_mode = True

    def __exit__(self, *a):
        CTX.oracle_mode = self.prev


class Path:
    def __init__(self, decisions, pc, value=None, exc=None, notes=None, maybe=False, inconclusive=None):
        self.decisions = decisions
        self.pc = pc
        self.value = value
        self.exc = exc
        self.notes = notes or []
        self.maybe_infeasible = maybe
        self.inconclusive = inconclusive

    def __repr__(self):
        o = f'raises {type(self.exc).__name__}' if self.exc is not None else f'-> {self.value!r}'
        return f'<Path {self.decisions} {o}>'


def explore(fn, max_paths=256, catch=(Exception,)):
    """Run fn() on every feasible path.  Returns list[Path].  Incomplete exploration is
    flagged by a trailing Path with inconclusive='path budget'."""
    work = [[]]
    out = []
    CTX.exploring = True
    CTX.unknown_prefixes = set()
    try:
        while work:
            if len(out) >= max_paths:
                out.append(Path([], [], inconclusive='path budget exhausted'))
                break
            dec = work.pop()
            CTX.reset_path(dec)
            try:
                v = fn()
                p = Path(list(CTX.decisions), list(CTX.pc), value=v, notes=CTX.notes, maybe=CTX.maybe_infeasible)
            except _Abort:
                work.extend(CTX.pending)
                continue
            except HarnessError as e:
                p = Path(list(CTX.decisions), list(CTX.pc), inconclusive=f'{type(e).__name__}: {e}', notes=CTX.notes)
            except catch as e:
                if os.environ.get('SYMEX_DEBUG'):
                    import traceback
                    traceback.print_exc()
                p = Path(list(CTX.decisions), list(CTX.pc), exc=e, notes=CTX.notes, maybe=CTX.maybe_infeasible)
            work.extend(CTX.pending)
            if p.maybe_infeasible:
                # a fork of this path was undecided within the fork budget: ask once more about the complete path condition
                pend_ = list(CTX.pending)
                ex_ = CTX.exploring
                CTX.exploring = False
                try:
                    r_ = solve([*CTX.assumptions, *p.pc], timeout_ms=max(4 * CTX.fork_timeout_ms, 20000), want_model=False).status
                finally:
                    CTX.exploring = ex_
                    CTX.pending = pend_
                if r_ == 'unsat':
                    continue  # the path does not exist
                if r_ == 'sat':
                    p.maybe_infeasible = False
            out.append(p)
    finally:
        CTX.exploring = False
        CTX.reset_path([])
    return out


# =========================================================================== obligations


_VACUITY = os.environ.get('VERIF_VACUITY', '1') == '1'
_VAC_CACHE: dict = {}


class Obligation:
    def __init__(self, name, status, detail='', model=None, t=0.0, sample=None):
        self.name = name
        self.status = status  # discharged | violated | inconclusive | known
        self.detail = detail
        self.model = model
        self.t = t
        self.sample = sample

    def __repr__(self):
        return f'<{self.name}: {self.status} {self.detail}>'


def prove(name, goal, assumptions=(), pc=(), timeout_ms=20000) -> Obligation:
    """Discharged iff assumptions & pc & !goal is unsat."""
    goal = B.lift(goal)
    if goal.kind == 'const' and goal.a:
        # still goes to the solver (trivially) so that the verdict is the solver's
        pass
    cons = [*CTX.assumptions, *assumptions, *pc, ~goal]
    r = solve(cons, timeout_ms=timeout_ms)
    sample = f'{name}: assert !({goal!r})'[:400]
    if r.status == 'unsat':
        # vacuity guard: the premises (assumptions + path condition) of a discharged obligation must be satisfiable;
        # checked once per distinct premise set
        if _VACUITY and CTX.vacuity_guard and not (goal.kind == 'const'):
            prem = cons[:-1]
            key = (tuple(id(b) for b in prem), len(CTX.definitions))
            hit = _VAC_CACHE.get(key)
            if hit is None:
                st = solve(prem, timeout_ms=min(timeout_ms, 10000), want_model=False).status
                _VAC_CACHE[key] = (st, prem)  # the premise objects are kept alive so that their ids stay unique
                STATS.vacuity_checked += 1
            else:
                st = hit[0]
            if st == 'unsat':
                return Obligation(name, 'inconclusive', detail='vacuous: assumptions and path condition are unsatisfiable', t=r.t, sample=sample)
        return Obligation(name, 'discharged', t=r.t, sample=sample)
    if r.status == 'sat':
        return Obligation(name, 'violated', detail=repr(goal)[:300], model=r.model, t=r.t, sample=sample)
    return Obligation(name, 'inconclusive', detail='solver: unknown', t=r.t, sample=sample)


def prove_zero(name, r, assumptions=(), pc=(), timeout_ms=20000) -> Obligation:
    r = r.t if isinstance(r, R) else r
    return prove(name, cmp(r, '=='), assumptions, pc, timeout_ms)


def reachable(assumptions=(), pc=(), timeout_ms=5000) -> str:
    return solve([*CTX.assumptions, *assumptions, *pc], timeout_ms=timeout_ms, want_model=False).status
