"""First-order absolute forward-error analysis as a scalar type that flows through the shim.

EV(v, k): exact value v (a symbolic real R) and a bound k on the accumulated absolute rounding
error in units of the unit roundoff u (first order in u).  Every operation adds the propagated
errors of its operands (through the partial derivatives, which are algebraic for + - * / sqrt,
atan2, acos, asin) plus |result| for its own rounding.  `k(result) <= K` is then an algebraic
obligation for the solver; an unstable formulation has an unbounded k (sat)."""
from __future__ import annotations

from . import core as C
from .core import R


class EV:
    __symscalar__ = True
    special = None

    def __init__(self, v, k=None):
        self.v = R.lift(v)
        self.k = R.lift(0) if k is None else R.lift(k)

    @staticmethod
    def lift(x):
        if isinstance(x, EV):
            return x
        return EV(R.lift(x))

    def _own(self, v):
        return abs(v)

    def __add__(self, o):
        try:
            o = EV.lift(o)
        except TypeError:
            return NotImplemented
        v = self.v + o.v
        return EV(v, self.k + o.k + abs(v))

    __radd__ = __add__

    def __sub__(self, o):
        try:
            o = EV.lift(o)
        except TypeError:
            return NotImplemented
        v = self.v - o.v
        return EV(v, self.k + o.k + abs(v))

    def __rsub__(self, o):
        return EV.lift(o) - self

    def __neg__(self):
        return EV(-self.v, self.k)

    def __abs__(self):
        return EV(abs(self.v), self.k)  # exact operation

    # comparisons are decided on the exact values (forking like any symbolic condition)
    def __lt__(self, o):
        return self.v < EV.lift(o).v

    def __le__(self, o):
        return self.v <= EV.lift(o).v

    def __gt__(self, o):
        return self.v > EV.lift(o).v

    def __ge__(self, o):
        return self.v >= EV.lift(o).v

    def __mul__(self, o):
        try:
            o = EV.lift(o)
        except TypeError:
            return NotImplemented
        v = self.v * o.v
        exact = o.v.is_const() and o.v.const_value() in (2, -2, 1, -1, 0)
        return EV(v, abs(self.v) * o.k + abs(o.v) * self.k + (R.lift(0) if exact else abs(v)))

    __rmul__ = __mul__

    def __truediv__(self, o):
        try:
            o = EV.lift(o)
        except TypeError:
            return NotImplemented
        with C.oracle():
            v = self.v / o.v
            k = (self.k + abs(v) * o.k) / abs(o.v) + abs(v)
        return EV(v, k)

    def __rtruediv__(self, o):
        return EV.lift(o) / self

    def sym_sqrt(self):
        with C.oracle():
            s = C.rsqrt(self.v, nonneg=True)
            k = self.k / (2 * s) + s
        return EV(s, k)

    def sym_fn(self, name, args):
        args = [EV.lift(a) for a in args]
        with C.oracle():
            if name == 'atan2':
                y, x = args
                d = x.v * x.v + y.v * y.v
                v = C.rfn('atan2', y.v, x.v, sign='0+' if y.v.t.sign() in ('+', '0+', '0') else None)
                k = (abs(x.v) * y.k + abs(y.v) * x.k) / d + abs(v)
            elif name in ('acos', 'asin'):
                (a,) = args
                v = C.rfn(name, a.v)
                k = a.k / C.rsqrt(1 - a.v * a.v, nonneg=True) + abs(v)
            else:
                raise C.Unsupported(f'error analysis through {name}')
        return EV(v, k)

    def __repr__(self):
        return f'EV({self.v}, k={self.k})'
