"""Bit-precise IEEE double scalars (z3 QF_FP) that can flow through the symsc shim in place
of exact-real terms, for the few lemmas that are about exact floating-point equality."""
from __future__ import annotations

from fractions import Fraction

import z3

from . import core as C

F64 = z3.Float64()
RM = z3.RNE()


class FPV:
    __symscalar__ = True
    special = None

    def __init__(self, e):
        self.e = e

    @staticmethod
    def var(name):
        return FPV(z3.FP(name, F64))

    @staticmethod
    def lift(x):
        if isinstance(x, FPV):
            return x
        if isinstance(x, C.R):
            if not x.is_const():
                raise C.Unsupported('mixing exact-real terms into an FP lemma')
            x = x.const_value()
        if isinstance(x, Fraction):
            return FPV(z3.FPVal(float(x), F64)) if Fraction(float(x)) == x else FPV(z3.fpRealToFP(RM, z3.RealVal(str(x)), F64))
        if isinstance(x, int | float):
            return FPV(z3.FPVal(float(x), F64))
        raise TypeError(type(x))

    def _b(self, o, f):
        try:
            o = FPV.lift(o)
        except TypeError:
            return NotImplemented
        return FPV(f(self.e, o.e))

    def __add__(self, o):
        return self._b(o, lambda a, b: z3.fpAdd(RM, a, b))

    __radd__ = __add__

    def __sub__(self, o):
        return self._b(o, lambda a, b: z3.fpSub(RM, a, b))

    def __rsub__(self, o):
        return self._b(o, lambda a, b: z3.fpSub(RM, b, a))

    def __mul__(self, o):
        return self._b(o, lambda a, b: z3.fpMul(RM, a, b))

    __rmul__ = __mul__

    def __truediv__(self, o):
        return self._b(o, lambda a, b: z3.fpDiv(RM, a, b))

    def __rtruediv__(self, o):
        return self._b(o, lambda a, b: z3.fpDiv(RM, b, a))

    def __neg__(self):
        return FPV(z3.fpNeg(self.e))

    def __abs__(self):
        return FPV(z3.fpAbs(self.e))

    def sym_sqrt(self):
        return FPV(z3.fpSqrt(RM, self.e))

    def bits_equal(self, o):
        """Same IEEE bit pattern (distinguishes -0.0 from +0.0); NaN payloads are outside (assume not NaN)."""
        o = FPV.lift(o)
        return C.B('z3', z3.And(z3.fpEQ(self.e, o.e), z3.fpIsNegative(self.e) == z3.fpIsNegative(o.e)))

    def _c(self, o, f):
        o = FPV.lift(o)
        return C.B('z3', f(self.e, o.e))

    def __lt__(self, o):
        return self._c(o, z3.fpLT)

    def __le__(self, o):
        return self._c(o, z3.fpLEQ)

    def __gt__(self, o):
        return self._c(o, z3.fpGT)

    def __ge__(self, o):
        return self._c(o, z3.fpGEQ)

    def __eq__(self, o):
        return self._c(o, z3.fpEQ)

    def __ne__(self, o):
        return ~self._c(o, z3.fpEQ)

    __hash__ = object.__hash__

    def is_const(self):
        return False

    def __repr__(self):
        return f'FPV({self.e})'
