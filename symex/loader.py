"""Import the *real* scippneutron source files over the symbolic scipp shim."""
from __future__ import annotations

import hashlib
import importlib
import inspect
import os
import sys
import types

REPO_SRC = os.environ.get('VERIF_REPO_SRC', '/repo/src')

_PKGS = ['scippneutron', 'scippneutron._utils', 'scippneutron.conversion', 'scippneutron.conversion.graph',
         'scippneutron.core', 'scippneutron.chopper', 'scippneutron.tof', 'scippneutron.peaks',
         'scippneutron.absorption', 'scippneutron.atoms', 'scippneutron.io', 'scippneutron.io.sqw',
         'scippneutron.metadata']

# packages whose __init__ holds real code that we want executed
_REAL_INIT = {'scippneutron._utils', 'scippneutron.atoms'}


class _BarePackage(types.ModuleType):
    """Package object whose __init__ is not executed; names are resolved lazily by finding
    the submodule that defines them (class/def/assignment at top level)."""

    def __getattr__(self, name):
        if name.startswith('__'):
            raise AttributeError(name)
        import re

        d = self.__path__[0]
        if os.path.exists(os.path.join(d, name + '.py')) or os.path.isdir(os.path.join(d, name)):
            # a submodule of that name wins over a definition of the same name inside it (graph.beamline is the module)
            return importlib.import_module(f'{self.__name__}.{name}')
        pat = re.compile(rf'^(class|def)\s+{re.escape(name)}\b|^{re.escape(name)}\s*[:=]', re.M)
        for fn in sorted(os.listdir(d)):
            if fn.endswith('.py') and fn != '__init__.py':
                with open(os.path.join(d, fn)) as f:
                    if pat.search(f.read()):
                        sub = importlib.import_module(f'{self.__name__}.{fn[:-3]}')
                        v = getattr(sub, name)
                        setattr(self, name, v)
                        return v
        if os.path.exists(os.path.join(d, name + '.py')) or os.path.isdir(os.path.join(d, name)):
            return importlib.import_module(f'{self.__name__}.{name}')
        raise AttributeError(name)


def install_shim():
    from symsc import api

    if 'scipp' in sys.modules and not getattr(sys.modules['scipp'], '__version__', '').endswith('symsc'):
        raise RuntimeError('real scipp already imported in a symbolic process')
    if 'scipp' not in sys.modules:
        api.install()
    for name in _PKGS:
        if name in sys.modules or name in _REAL_INIT:
            continue
        m = _BarePackage(name)
        m.__path__ = [os.path.join(REPO_SRC, *name.split('.'))]
        m.__package__ = name
        sys.modules[name] = m
        if '.' in name:
            parent, _, child = name.rpartition('.')
            setattr(sys.modules[parent], child, m)
    return sys.modules['scipp']


def load(modname):
    """Import scippneutron.<modname> from /repo/src (bare parent packages)."""
    install_shim()
    full = 'scippneutron.' + modname if not modname.startswith('scippneutron') else modname
    # regexes compiled at import time of the module under test must follow symbolic strings too: while the module
    # body runs, re.compile hands out SymPattern (delegates to the real pattern for ordinary strings)
    import re as _re
    real_compile = _re.compile
    if full not in sys.modules:
        from .symre import SymPattern

        def _compile(pattern, flags=0):
            return SymPattern(pattern, flags) if isinstance(pattern, str) else real_compile(pattern, flags)

        _re.compile = _compile
    import builtins

    real_import = builtins.__import__
    if full not in sys.modules:
        # module-level constants of the module under test (2 * np.pi, math.sqrt(2 * math.log(2)), ...) must be symbolic like
        # the same expressions inside functions: while scippneutron modules are imported, `numpy` and `math` resolve to the
        # symbolic stand-ins FOR THOSE MODULES ONLY, and atoms created meanwhile persist across universe resets
        from symsc.mathshim import SymMath
        from symsc.npshim import NPShim

        from . import terms as _T

        proxies = {'numpy': NPShim(), 'math': SymMath()}

        def _import(name, globals=None, locals=None, fromlist=(), level=0):
            if level == 0 and name in proxies and globals is not None and str(globals.get('__name__', '')).startswith('scippneutron'):
                return proxies[name]
            return real_import(name, globals, locals, fromlist, level)

        builtins.__import__ = _import
        _T.begin_persistent()
    try:
        m = importlib.import_module(full)
    finally:
        _re.compile = real_compile
        if builtins.__import__ is not real_import:
            builtins.__import__ = real_import
            from . import terms as _T
            _T.end_persistent()
    return m


def source_hash(obj) -> str:
    try:
        src = inspect.getsource(obj)
    except (OSError, TypeError):
        return 'n/a'
    return hashlib.sha256(src.encode()).hexdigest()[:12]


def describe(funcs):
    out = []
    for f in funcs:
        name = getattr(f, '__qualname__', getattr(f, '__name__', repr(f)))
        mod = getattr(f, '__module__', '')
        out.append(f'{mod}.{name}@{source_hash(f)}')
    return out


def describe_exprs(exprs, namespace):
    """Like describe(), for functions given as source expressions ('tof._energy_constant'): a private helper that a
    refactoring renamed or removed is listed as absent instead of stopping the check (the functions encoded are whatever
    the public entry points reach; this list is documentation for the evidence file)."""
    out = []
    for e in exprs:
        try:
            f = eval(e, dict(namespace))  # noqa: S307 - expressions are literals of this repository
        except AttributeError:
            out.append(f'{e}@absent')
            continue
        out.extend(describe([f]))
    return out
