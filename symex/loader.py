"""Import the *real* scippneutron source files over the symbolic scipp shim."""
from __future__ import annotations

import hashlib
import importlib
import inspect
import os
import sys
import types

REPO_SRC = os.environ.get('VERIF_REPO_SRC', '/repo/src')

_PKGS = ['scippneutron', 'scippneutron._utils', 'scippneutron.conversion', 'scippneutron.conversion.graph',
         'scippneutron.core', 'scippneutron.chopper', 'scippneutron.tof', 'scippneutron.peaks',
         'scippneutron.absorption', 'scippneutron.atoms', 'scippneutron.io', 'scippneutron.io.sqw',
         'scippneutron.metadata']

# packages whose __init__ holds real code that we want executed
_REAL_INIT = {'scippneutron._utils', 'scippneutron.atoms'}


def install_shim():
    from symsc import api

    if 'scipp' in sys.modules and not getattr(sys.modules['scipp'], '__version__', '').endswith('symsc'):
        raise RuntimeError('real scipp already imported in a symbolic process')
    if 'scipp' not in sys.modules:
        api.install()
    for name in _PKGS:
        if name in sys.modules or name in _REAL_INIT:
            continue
        m = types.ModuleType(name)
        m.__path__ = [os.path.join(REPO_SRC, *name.split('.'))]
        m.__package__ = name
        sys.modules[name] = m
        if '.' in name:
            parent, _, child = name.rpartition('.')
            setattr(sys.modules[parent], child, m)
    return sys.modules['scipp']


def load(modname):
    """Import scippneutron.<modname> from /repo/src (bare parent packages)."""
    install_shim()
    full = 'scippneutron.' + modname if not modname.startswith('scippneutron') else modname
    # make sure the finder sees bare packages' __path__
    m = importlib.import_module(full)
    return m


def source_hash(obj) -> str:
    try:
        src = inspect.getsource(obj)
    except (OSError, TypeError):
        return 'n/a'
    return hashlib.sha256(src.encode()).hexdigest()[:12]


def describe(funcs):
    out = []
    for f in funcs:
        name = getattr(f, '__qualname__', getattr(f, '__name__', repr(f)))
        mod = getattr(f, '__module__', '')
        out.append(f'{mod}.{name}@{source_hash(f)}')
    return out
