"""Regular expressions of the code under test on symbolic strings.

`re` patterns are parsed with Python's own parser (re._parser) and translated to z3 regular
expressions; `fullmatch` / `match` / `search` on a SymStr become a membership query (forking on the
answer).  Only the regular fragment is translated (literals, classes, categories \\d \\w \\s, groups,
alternation, bounded and unbounded repetition, anchors at the ends); anything else raises
Unsupported.  Capture groups are not reconstructed: a match object answers truthiness only."""
from __future__ import annotations

import re
import re._constants as sc_
import re._parser as sp_

import z3

from . import core as C
from .symstr import SymStr

_REAL_COMPILE = re.compile
_S = z3.StringSort()
_RS = z3.ReSort(_S)


def _full():
    return z3.Full(_RS)


def _lit(ch):
    return z3.Re(z3.StringVal(chr(ch)))


def _union(parts):
    parts = list(parts)
    if not parts:
        return z3.Empty(_RS)
    return parts[0] if len(parts) == 1 else z3.Union(*parts)


def _concat(parts):
    parts = list(parts)
    if not parts:
        return z3.Re(z3.StringVal(''))
    return parts[0] if len(parts) == 1 else z3.Concat(*parts)


_ASCII = z3.Range(chr(0), chr(127))


def _category(cat):
    d = z3.Range('0', '9')
    w = z3.Union(z3.Range('a', 'z'), z3.Range('A', 'Z'), d, z3.Re(z3.StringVal('_')))
    s = _union(z3.Re(z3.StringVal(c)) for c in ' \t\n\r\f\v')
    table = {sc_.CATEGORY_DIGIT: d, sc_.CATEGORY_WORD: w, sc_.CATEGORY_SPACE: s}
    neg = {sc_.CATEGORY_NOT_DIGIT: d, sc_.CATEGORY_NOT_WORD: w, sc_.CATEGORY_NOT_SPACE: s}
    if cat in table:
        return table[cat]
    if cat in neg:
        # complement within ASCII (symbolic strings range over printable ASCII + stated extras)
        return z3.Intersect(_ASCII, z3.Complement(neg[cat]))
    raise C.Unsupported(f'regex category {cat}')


def _set(items, ignorecase):
    negate = False
    parts = []
    for op, av in items:
        if op is sc_.NEGATE:
            negate = True
        elif op is sc_.LITERAL:
            parts.append(_char(av, ignorecase))
        elif op is sc_.RANGE:
            lo, hi = av
            parts.append(z3.Range(chr(lo), chr(hi)))
            if ignorecase:
                for a, b in ((lo, hi),):
                    for c in range(a, b + 1):
                        ch = chr(c)
                        if ch.isalpha():
                            parts.append(z3.Re(z3.StringVal(ch.swapcase())))
        elif op is sc_.CATEGORY:
            parts.append(_category(av))
        else:
            raise C.Unsupported(f'regex set item {op}')
    u = _union(parts)
    if negate:
        # one character not in the set
        return z3.Intersect(z3.AllChar(_RS), z3.Complement(u))
    return u


def _char(code, ignorecase):
    ch = chr(code)
    if ignorecase and ch.isalpha():
        return z3.Union(z3.Re(z3.StringVal(ch.lower())), z3.Re(z3.StringVal(ch.upper())))
    return z3.Re(z3.StringVal(ch))


def _seq(items, flags, first=True, last=True):
    ignorecase = bool(flags & re.IGNORECASE)
    dotall = bool(flags & re.DOTALL)
    out = []
    items = list(items)
    for pos, (op, av) in enumerate(items):
        if op is sc_.LITERAL:
            out.append(_char(av, ignorecase))
        elif op is sc_.NOT_LITERAL:
            out.append(z3.Intersect(z3.AllChar(_RS), z3.Complement(_char(av, ignorecase))))
        elif op is sc_.ANY:
            out.append(z3.AllChar(_RS) if dotall else z3.Intersect(z3.AllChar(_RS), z3.Complement(z3.Re(z3.StringVal('\n')))))
        elif op is sc_.IN:
            out.append(_set(av, ignorecase))
        elif op is sc_.BRANCH:
            out.append(_union(_seq(alt, flags, False, False) for alt in av[1]))
        elif op is sc_.SUBPATTERN:
            _g, add, dele, sub = av
            out.append(_seq(sub, (flags | add) & ~dele, False, False))
        elif op in (sc_.MAX_REPEAT, sc_.MIN_REPEAT, getattr(sc_, 'POSSESSIVE_REPEAT', None)):
            lo, hi, sub = av
            r = _seq(sub, flags, False, False)
            if hi is sc_.MAXREPEAT:
                out.append(z3.Star(r) if lo == 0 else (z3.Plus(r) if lo == 1 else z3.Concat(*([r] * lo), z3.Star(r))))
            elif lo == 0 and hi == 1:
                out.append(z3.Option(r))
            else:
                out.append(z3.Loop(r, lo, hi))
        elif op is sc_.AT:
            # anchors at the two ends of the whole pattern are handled by the caller (SymPattern)
            raise C.Unsupported(f'regex anchor {av} inside a pattern')
        else:
            raise C.Unsupported(f'regex construct {op}')
    return _concat(out)


def parse(pattern: str, flags: int = 0):
    """-> (z3 regex of the body, anchored at the beginning?, end anchor: None | '$' | 'Z')."""
    tree = sp_.parse(pattern, flags)
    fl = tree.state.flags
    if fl & re.MULTILINE:
        raise C.Unsupported('MULTILINE regex')
    items = list(tree)
    begin, end = False, None
    if items and items[0][0] is sc_.AT and items[0][1] in (sc_.AT_BEGINNING, sc_.AT_BEGINNING_STRING):
        begin = True
        items = items[1:]
    if items and items[-1][0] is sc_.AT and items[-1][1] in (sc_.AT_END, sc_.AT_END_STRING):
        end = '$' if items[-1][1] is sc_.AT_END else 'Z'
        items = items[:-1]
    return _seq(items, fl), begin, end


def to_z3(pattern: str, flags: int = 0):
    """Language of `fullmatch` (anchors at the ends are then redundant)."""
    return parse(pattern, flags)[0]


# (method, pattern text) -> handler(symbolic string) -> match-like object or None: capture-group reconstruction for the few
# patterns of the code under test whose groups are used (registered by the harness that knows them)
SPECIAL: dict = {}


class _Match:
    """Truthy stand-in for a match object on a symbolic string."""

    def __init__(self, s):
        self.string = s

    def _no(self, *a, **k):
        raise C.Unsupported('capture groups of a regex match on a symbolic string')

    group = groups = groupdict = start = end = span = __getitem__ = _no


class SymPattern:
    def __init__(self, pattern, flags=0):
        self.pattern, self.flags = pattern, flags
        self._real = _REAL_COMPILE(pattern, flags)
        self._z = None

    def z(self):
        if self._z is None:
            self._z, self._begin, self._end = parse(self.pattern, self.flags)
        return self._z

    def _tail(self):
        self.z()
        nl = z3.Option(z3.Re(z3.StringVal('\n')))
        return {None: _full(), '$': nl, 'Z': z3.Re(z3.StringVal(''))}[self._end]

    def _decide(self, s, lang):
        return _Match(s) if bool(C.B('z3', z3.InRe(s.z, lang))) else None

    def fullmatch(self, s, *a):
        if not isinstance(s, SymStr):
            return self._real.fullmatch(s, *a)
        if ('fullmatch', self.pattern) in SPECIAL and not a:
            return SPECIAL[('fullmatch', self.pattern)](s)
        if getattr(s, 'z', None) is None or a:
            raise C.Unsupported('regex on a derived symbolic string')
        return self._decide(s, self.z())

    def match(self, s, *a):
        if not isinstance(s, SymStr):
            return self._real.match(s, *a)
        if ('match', self.pattern) in SPECIAL and not a:
            return SPECIAL[('match', self.pattern)](s)
        if getattr(s, 'z', None) is None or a:
            raise C.Unsupported('regex on a derived symbolic string')
        return self._decide(s, z3.Concat(self.z(), self._tail()))

    def search(self, s, *a):
        if not isinstance(s, SymStr):
            return self._real.search(s, *a)
        if ('search', self.pattern) in SPECIAL and not a:
            return SPECIAL[('search', self.pattern)](s)
        if getattr(s, 'z', None) is None or a:
            raise C.Unsupported('regex on a derived symbolic string')
        z_ = self.z()
        return self._decide(s, z3.Concat(z_, self._tail()) if self._begin else z3.Concat(_full(), z_, self._tail()))

    def __getattr__(self, name):
        real = getattr(self._real, name)
        if callable(real):
            def f(s, *a, **k):
                if isinstance(s, SymStr):
                    raise C.Unsupported(f'regex method {name} on a symbolic string')
                return real(s, *a, **k)
            return f
        return real


class SymReModule:
    """Stand-in for the `re` module of a module under test."""

    def __init__(self, special=None):
        self._special = special or {}

    def __getattr__(self, name):
        return getattr(re, name)

    def compile(self, pattern, flags=0):
        return SymPattern(pattern, flags)

    def _call(self, which, pattern, string, flags=0):
        if isinstance(string, SymStr) and (which, pattern) in self._special:
            return self._special[(which, pattern)](string)
        if isinstance(pattern, SymPattern):
            return getattr(pattern, which)(string)
        return getattr(SymPattern(pattern, flags), which)(string)

    def fullmatch(self, pattern, string, flags=0):
        return self._call('fullmatch', pattern, string, flags)

    def match(self, pattern, string, flags=0):
        return self._call('match', pattern, string, flags)

    def search(self, pattern, string, flags=0):
        return self._call('search', pattern, string, flags)


def self_test(extra_patterns=()):
    """Translator validation: Python's re and the z3 translation agree on sample patterns x strings. -> (checked, mismatches)."""
    pats = [r'[+-]?(?:\d+\.?\d*|\.\d+)', r'(?:\d+)?([a-zA-Z]+)', r'[+-]?(\d+(\.\d*)?|\.\d+)([eE][+-]?\d+)?', r'\s*\w+\s*', r'a{2,3}b?', r'[^ab]+c', r'^x.y$', r'(?i)data_', *extra_patterns]
    strs = ['', '1', '1.', '.5', '1e5', '2.4e-05', '-3.2', '+', 'abc', '12C', ' ab ', 'aab', 'aaab', 'aaaab', 'ddc', 'ac', 'x1y', 'x\ny', 'x1y\n', 'DATA_', 'data_', '5e', '1.5.2', 'ax1y', '12a']
    bad, n = [], 0
    for p in pats:
        P = SymPattern(p)
        zf = P.z()
        langs = {'fullmatch': zf, 'match': z3.Concat(zf, P._tail()), 'search': z3.Concat(zf, P._tail()) if P._begin else z3.Concat(_full(), zf, P._tail())}
        for s_ in strs:
            for which, lang in langs.items():
                py = getattr(P._real, which)(s_) is not None
                sol = z3.Solver()
                sol.add(z3.InRe(z3.StringVal(s_), lang))
                n += 1
                if (sol.check() == z3.sat) != py:
                    bad.append((p, s_, which))
    return n, bad
