"""Symbolic strings for code that formats text (CIF, prefixes, isotope names).

SymStr is a `str` subclass whose *content* is a unique token; Python-level operations that
depend on the content (`in`, startswith, truthiness, ==) are intercepted and answered by z3's
sequence theory (forking).  Concatenation gives a Template (also a str subclass) that
remembers its parts; f-strings / join degrade to plain str with the tokens embedded, which
`parts_of` splits again.  So the code under test can format freely and the harness recovers
the output as a sequence of literals and symbolic strings."""
from __future__ import annotations

import builtins
import re

import z3

from . import core as C

_TOKEN = re.compile('\x00S([0-9]+)\x00')
_REG: dict[int, 'SymStr'] = {}


def _FULL():
    return z3.Full(z3.ReSort(z3.StringSort()))


def printable_re(extra='\t\n'):
    r = z3.Range(' ', '~')
    for ch in extra:
        r = z3.Union(r, z3.Re(z3.StringVal(ch)))
    return z3.Star(r)


class SymStr(str):
    _n = 0

    def __new__(cls, name, alphabet_extra='\t\n'):
        SymStr._n += 1
        tok = f'\x00S{SymStr._n}\x00'
        self = super().__new__(cls, tok)
        self.z = z3.String(name)
        self.sname = name
        self.idx = SymStr._n
        _REG[self.idx] = self
        self.alphabet = z3.InRe(self.z, printable_re(alphabet_extra))
        return self

    # -- content-dependent queries: all phrased as regular-language membership of one variable,
    #    which z3 decides in milliseconds (Contains/PrefixOf mixes came back `unknown`)
    def _lit(self, x):
        return isinstance(x, str) and not isinstance(x, SymStr | Template) and not _TOKEN.search(x)

    def __contains__(self, sub):
        if self._lit(sub):
            return bool(C.B('z3', z3.InRe(self.z, z3.Concat(_FULL(), z3.Re(z3.StringVal(sub)), _FULL())) if sub else z3.BoolVal(True)))
        return bool(C.B('z3', z3.Contains(self.z, zexpr(sub))))

    def startswith(self, p, *a):
        if isinstance(p, tuple):
            return any(self.startswith(x) for x in p)
        if self._lit(p):
            return bool(C.B('z3', z3.InRe(self.z, z3.Concat(z3.Re(z3.StringVal(p)), _FULL())) if p else z3.BoolVal(True)))
        return bool(C.B('z3', z3.PrefixOf(zexpr(p), self.z)))

    def endswith(self, p, *a):
        if isinstance(p, tuple):
            return any(self.endswith(x) for x in p)
        if self._lit(p):
            return bool(C.B('z3', z3.InRe(self.z, z3.Concat(_FULL(), z3.Re(z3.StringVal(p)))) if p else z3.BoolVal(True)))
        return bool(C.B('z3', z3.SuffixOf(zexpr(p), self.z)))

    def __bool__(self):
        return bool(C.B('z3', z3.InRe(self.z, z3.Concat(z3.AllChar(z3.ReSort(z3.StringSort())), _FULL()))))

    def __eq__(self, o):
        if isinstance(o, str):
            if self._lit(o):
                return bool(C.B('z3', z3.InRe(self.z, z3.Re(z3.StringVal(o)))))
            return bool(C.B('z3', self.z == zexpr(o)))
        return NotImplemented

    def __ne__(self, o):
        r = self.__eq__(o)
        return r if r is NotImplemented else not r

    __hash__ = str.__hash__

    def lower(self):
        return SymLower(self)

    def upper(self):
        raise C.Unsupported('upper() of symbolic string')

    casefold = upper

    def strip(self, *a):
        if a and a[0] is not None:
            raise C.Unsupported('strip(chars) of symbolic string')
        if getattr(self, 'z', None) is None:
            raise C.Unsupported('strip() of a derived symbolic string')
        ws = _WS()
        edge = z3.InRe(self.z, z3.Union(z3.Concat(ws, _FULL()), z3.Concat(_FULL(), ws)))
        if C.reachable(pc=[*C.CTX.pc, C.B('z3', edge)]) == 'unsat':
            return self  # no leading/trailing white space possible on this path: strip() is the identity
        return SymStripped(self)

    def splitlines(self, *a):
        raise C.Unsupported('splitlines() of symbolic string')

    def replace(self, *a):
        raise C.Unsupported('replace() on symbolic string')

    def encode(self, enc='utf-8', errors='strict'):
        return _SymBytes(self)

    def isascii(self):
        return True

    # -- building
    def __add__(self, o):
        return Template([self, o])

    def __radd__(self, o):
        return Template([o, self])

    def __format__(self, spec):
        if spec:
            raise C.Unsupported('format spec on symbolic string')
        return str.__str__(self)

    def __str__(self):
        return self

    def __repr__(self):
        return f'<SymStr {self.sname}>'

    def __getitem__(self, key):
        if isinstance(key, slice) and key.step is None:
            a = 0 if key.start is None else key.start
            if a < 0 or (key.stop is not None):
                raise C.Unsupported('general slicing of symbolic string')
            return SymSub(self, a)
        raise C.Unsupported('indexing of symbolic string')

    def removeprefix(self, p):
        if self.startswith(p):
            return SymSub(self, len(p))
        return self


class SymSub(SymStr):
    """Suffix s[a:] of a symbolic string (enough for prefix stripping)."""

    def __new__(cls, base, a):
        SymStr._n += 1
        tok = f'\x00S{SymStr._n}\x00'
        self = str.__new__(cls, tok)
        self.z = z3.SubString(base.z, a, z3.Length(base.z))
        self.sname = f'{base.sname}[{a}:]'
        self.idx = SymStr._n
        _REG[self.idx] = self
        return self


def _WS():
    return z3.Union(*[z3.Re(z3.StringVal(c)) for c in ' \t\n\r\x0b\x0c'])


class SymStripped(SymStr):
    """s.strip(): a fresh string t with s = ws1 + t + ws2 (path constraint), t without white space at its ends."""

    def __new__(cls, base):
        SymStr._n += 1
        self = str.__new__(cls, f'\x00S{SymStr._n}\x00')
        self.sname = f'{base.sname}.strip()'
        self.idx = SymStr._n
        self.z = z3.String(f'strip!{self.idx}')
        self.root = getattr(base, 'root', base)
        _REG[self.idx] = self
        a, b = z3.String(f'lws!{self.idx}'), z3.String(f'rws!{self.idx}')
        ws, one = _WS(), z3.AllChar(z3.ReSort(z3.StringSort()))
        notws = z3.Intersect(one, z3.Complement(ws))
        inner = z3.Union(z3.Re(z3.StringVal('')), notws, z3.Concat(notws, _FULL(), notws))
        C.CTX.pc.append(C.B('z3', z3.And(base.z == z3.Concat(a, self.z, b), z3.InRe(a, z3.Star(ws)), z3.InRe(b, z3.Star(ws)), z3.InRe(self.z, inner))))
        return self


def _ci(word):
    parts = []
    for c in word:
        if c.isalpha():
            parts.append(z3.Union(z3.Re(z3.StringVal(c.lower())), z3.Re(z3.StringVal(c.upper()))))
        else:
            parts.append(z3.Re(z3.StringVal(c)))
    return parts[0] if len(parts) == 1 else z3.Concat(*parts)


class SymLower(SymStr):
    """s.lower(): only prefix tests and equality with lower-case literals (case-insensitive regex on s)."""

    def __new__(cls, base):
        SymStr._n += 1
        self = str.__new__(cls, f'\x00S{SymStr._n}\x00')
        self.base = base
        self.z = None
        self.sname = f'{base.sname}.lower()'
        self.idx = SymStr._n
        _REG[self.idx] = self
        return self

    def startswith(self, p, *a):
        if isinstance(p, tuple):
            return any(self.startswith(x) for x in p)
        return bool(C.B('z3', z3.InRe(self.base.z, z3.Concat(_ci(p), z3.Full(z3.ReSort(z3.StringSort()))))))

    def __eq__(self, o):
        if isinstance(o, str) and not isinstance(o, SymStr):
            if o != o.lower():
                return False
            return bool(C.B('z3', z3.InRe(self.base.z, _ci(o)) if o else (z3.Length(self.base.z) == 0)))
        return NotImplemented

    __hash__ = str.__hash__

    def __contains__(self, sub):
        raise C.Unsupported('substring test on lower()')


class _SymBytes:
    def __init__(self, s):
        self.s = s

    def decode(self, enc='utf-8', errors='strict'):
        return self.s

    def __len__(self):
        raise C.Unsupported('len of symbolic bytes')


class Template(str):
    def __new__(cls, parts):
        flat = []
        for p in parts:
            if isinstance(p, Template):
                flat.extend(p.parts)
            elif isinstance(p, SymStr):
                flat.append(p)
            else:
                flat.extend(parts_of(builtins.str(p)))
        self = super().__new__(cls, ''.join(str.__str__(p) if isinstance(p, SymStr) else p for p in flat))
        self.parts = flat
        return self

    def __add__(self, o):
        return Template([self, o])

    def __radd__(self, o):
        return Template([o, self])

    def __contains__(self, sub):
        return bool(C.B('z3', z3.Contains(zexpr(self), zexpr(sub))))

    def startswith(self, p, *a):
        first = self.parts[0] if self.parts else ''
        if not isinstance(first, SymStr) and len(first) >= len(p):
            return first.startswith(p)
        return bool(C.B('z3', z3.PrefixOf(zexpr(p), zexpr(self))))

    def __format__(self, spec):
        return str.__str__(self)

    def encode(self, enc='utf-8', errors='strict'):
        return _SymBytes(self)

    def __str__(self):
        return self


def parts_of(s) -> list:
    """Split a (possibly plain) str with embedded tokens into literals and SymStr objects."""
    if isinstance(s, Template):
        return list(s.parts)
    if isinstance(s, SymStr):
        return [s]
    out = []
    pos = 0
    raw = str.__str__(s) if isinstance(s, str) else builtins.str(s)
    for m in _TOKEN.finditer(raw):
        if m.start() > pos:
            out.append(raw[pos:m.start()])
        out.append(_REG[int(m.group(1))])
        pos = m.end()
    if pos < len(raw):
        out.append(raw[pos:])
    return out


def zexpr(s):
    ps = parts_of(s)
    if not ps:
        return z3.StringVal('')
    zs = [p.z if isinstance(p, SymStr) else z3.StringVal(p) for p in ps]
    return zs[0] if len(zs) == 1 else z3.Concat(*zs)


class _StrMeta(type):
    def __instancecheck__(cls, obj):
        return isinstance(obj, builtins.str)

    def __subclasscheck__(cls, sub):
        return issubclass(sub, builtins.str)


class symstr_type(metaclass=_StrMeta):
    """Drop-in for the builtin `str` in a module under test: str(x) keeps symbolic strings."""

    def __new__(cls, v='', *a):
        if isinstance(v, SymStr | Template):
            return v
        return builtins.str(v, *a)

    join = staticmethod(lambda sep, it: builtins.str.join(sep, it))


def reset():
    SymStr._n = 0
    _REG.clear()


# --------------------------------------------------------------------------- single-variable regular queries
def to_regex(e, var):
    """Translate a Boolean combination of InRe(var, R) into one regex, or None."""
    if z3.is_true(e):
        return _FULL()
    if z3.is_false(e):
        return z3.Empty(z3.ReSort(z3.StringSort()))
    k = e.decl().kind()
    if k == z3.Z3_OP_SEQ_IN_RE:
        if not e.arg(0).eq(var):
            return None
        return e.arg(1)
    if k == z3.Z3_OP_NOT:
        r = to_regex(e.arg(0), var)
        return None if r is None else z3.Complement(r)
    if k in (z3.Z3_OP_AND, z3.Z3_OP_OR):
        rs = [to_regex(c, var) for c in e.children()]
        if any(r is None for r in rs):
            return None
        if len(rs) == 1:
            return rs[0]
        return z3.Intersect(*rs) if k == z3.Z3_OP_AND else z3.Union(*rs)
    return None


def prove_regular(name, var, assumptions, goal, timeout_ms=20000):
    """assumptions, goal: z3 Bool expressions over the single string variable `var`.
    Decided as emptiness of one regular language.  Returns core.Obligation (model = witness string)."""
    import time

    rs = [to_regex(a, var) for a in assumptions]
    g = to_regex(goal, var)
    if g is None or any(r is None for r in rs):
        return None
    lang = z3.Intersect(*rs, z3.Complement(g)) if rs else z3.Complement(g)
    s = z3.Solver()
    s.set('timeout', int(timeout_ms))
    s.add(z3.InRe(var, lang))
    t0 = time.time()
    r = str(s.check())
    dt = time.time() - t0
    C.STATS.queries += 1
    C.STATS.solver_time += dt
    C.STATS.by_result[r] = C.STATS.by_result.get(r, 0) + 1
    C.STATS.shapes.add(hash(s.sexpr()))
    sample = f'{name}: emptiness of L(assumptions) & !L(goal)'
    if r == 'unsat':
        return C.Obligation(name, 'discharged', t=dt, sample=sample)
    if r == 'sat':
        w = s.model().eval(var, model_completion=True).as_string()
        return C.Obligation(name, 'violated', detail=f'witness {w!r}', model={'witness': w}, t=dt, sample=sample)
    return C.Obligation(name, 'inconclusive', detail='solver: unknown', t=dt, sample=sample)
