"""Rational normal form for real-valued terms (DESIGN 3.2).

value = sparse polynomial numerator (exact Fraction coefficients) over *atoms*,
divided by a factored denominator.  Atoms are input variables, sqrt(radicand) atoms
(even powers are reduced through atom^2 -> radicand), abs atoms and applications of
uninterpreted functions (sin, cos, atan2, asin, exp, log, ...) with rewrite hooks.

Nothing here talks to a solver; `lower.py` turns these terms into z3.
"""
from __future__ import annotations

from fractions import Fraction
from math import gcd, isqrt

# --------------------------------------------------------------------------- atoms


class Atom:
    __slots__ = ('id', 'name', 'kind', 'sign', 'is_int', 'arg', 'fn', 'meta', 'persistent')

    def __init__(self, id, name, kind, sign=None, is_int=False, arg=None, fn=None):
        self.id = id
        self.name = name
        self.kind = kind  # 'var' | 'sqrt' | 'abs' | 'fn'
        self.sign = sign  # None | '+' | '0+' | '-' | '0-'
        self.is_int = is_int
        self.arg = arg  # sqrt/abs: Poly ; fn: tuple of Rat
        self.fn = fn
        self.meta = {}

    def __repr__(self):
        return self.name


class Universe:
    """All atoms of one check run.  Deterministic: same creation order => same ids."""

    def __init__(self):
        self.atoms: list[Atom] = []
        self.by_name: dict[str, Atom] = {}
        self.sqrt_memo: dict = {}
        self.abs_memo: dict = {}
        self.fn_memo: dict = {}
        self.fresh_counter = 0

    def new(self, name, kind, **kw) -> Atom:
        a = Atom(len(self.atoms), name, kind, **kw)
        a.persistent = PERSIST['on']
        self.atoms.append(a)
        self.by_name[name] = a
        return a


# Atoms created while a module under test is being imported (symbolic module-level constants such as 2*pi or
# sqrt(2 ln 2)) live as long as the module: they keep their ids across universe resets.
PERSIST = {'on': False, 'memo': None}
U = Universe()


def begin_persistent():
    PERSIST['on'] = True
    PERSIST['memo'] = (set(U.sqrt_memo), set(U.abs_memo), set(U.fn_memo))


def end_persistent():
    PERSIST['on'] = False
    # closure: whatever a persistent atom refers to (radicand of a sqrt, arguments of a function) persists too
    work = [a for a in U.atoms if a is not None and a.persistent]
    while work:
        a = work.pop()
        args = a.arg if isinstance(a.arg, tuple | list) else ([a.arg] if a.arg is not None else [])
        for x in args:
            ids = x.atoms() if hasattr(x, 'atoms') else ()
            for i in ids:
                b = U.atoms[i]
                if b is not None and not b.persistent:
                    b.persistent = True
                    work.append(b)
    before = PERSIST['memo'] or (set(), set(), set())
    keep = getattr(U, 'persist_memo', ({}, {}, {}))
    for d, old, dst in zip((U.sqrt_memo, U.abs_memo, U.fn_memo), before, keep, strict=True):
        for k, v in d.items():
            if k not in old:
                dst[k] = v
    U.persist_memo = keep


def reset_universe():
    global U
    old = U
    U = Universe()
    pers = [a for a in old.atoms if a is not None and getattr(a, 'persistent', False)]
    if pers:
        U.atoms = [None] * (max(a.id for a in pers) + 1)
        for a in pers:
            U.atoms[a.id] = a
            U.by_name[a.name] = a
        keep = getattr(old, 'persist_memo', ({}, {}, {}))
        U.sqrt_memo.update(keep[0])
        U.abs_memo.update(keep[1])
        U.fn_memo.update(keep[2])
        U.persist_memo = keep
        U.fresh_counter = old.fresh_counter
    return U


def universe() -> Universe:
    return U


def var(name, sign=None, is_int=False) -> 'Rat':
    a = U.by_name.get(name)
    if a is None:
        a = U.new(name, 'var', sign=sign, is_int=is_int)
    return Rat(Poly({((a.id, 1),): Fraction(1)}))


def fresh(prefix, sign=None, is_int=False) -> 'Rat':
    U.fresh_counter += 1
    return var(f'{prefix}!{U.fresh_counter}', sign=sign, is_int=is_int)


# --------------------------------------------------------------------------- polys

ONE_MONO = ()


def _mono_mul(a, b):
    if not a:
        return b
    if not b:
        return a
    out = []
    i = j = 0
    while i < len(a) and j < len(b):
        ai, ae = a[i]
        bi, be = b[j]
        if ai == bi:
            out.append((ai, ae + be))
            i += 1
            j += 1
        elif ai < bi:
            out.append(a[i])
            i += 1
        else:
            out.append(b[j])
            j += 1
    out.extend(a[i:])
    out.extend(b[j:])
    return tuple(out)


def _mono_div(a, b):
    """a / b or None."""
    d = dict(a)
    for bi, be in b:
        e = d.get(bi, 0) - be
        if e < 0:
            return None
        if e == 0:
            del d[bi]
        else:
            d[bi] = e
    return tuple(sorted(d.items()))


def _mono_key(m):
    # graded lex (admissible order)
    return (sum(e for _, e in m), tuple((-i, e) for i, e in m))


_grlex_key = _mono_key


class Poly:
    __slots__ = ('t', '_key', '_hash')

    def __init__(self, terms=None):
        self.t = terms if terms is not None else {}
        self._key = None
        self._hash = None

    # construction ---------------------------------------------------------
    @staticmethod
    def const(c):
        c = Fraction(c)
        return Poly({ONE_MONO: c}) if c != 0 else Poly({})

    def key(self):
        if self._key is None:
            self._key = frozenset(self.t.items())
        return self._key

    def __hash__(self):
        if self._hash is None:
            self._hash = hash(self.key())
        return self._hash

    def __eq__(self, o):
        return isinstance(o, Poly) and self.t == o.t

    def is_zero(self):
        return not self.t

    def is_const(self):
        return not self.t or (len(self.t) == 1 and ONE_MONO in self.t)

    def const_value(self):
        return self.t.get(ONE_MONO, Fraction(0))

    def atoms(self):
        s = set()
        for m in self.t:
            for i, _ in m:
                s.add(i)
        return s

    # arithmetic -----------------------------------------------------------
    def __neg__(self):
        return Poly({m: -c for m, c in self.t.items()})

    def __add__(self, o):
        if not o.t:
            return self
        if not self.t:
            return o
        d = dict(self.t)
        for m, c in o.t.items():
            v = d.get(m, 0) + c
            if v == 0:
                d.pop(m, None)
            else:
                d[m] = v
        return Poly(d)

    def __sub__(self, o):
        return self + (-o)

    def scale(self, c):
        c = Fraction(c)
        if c == 0:
            return Poly({})
        if c == 1:
            return self
        return Poly({m: v * c for m, v in self.t.items()})

    def raw_mul(self, o):
        """Product in the free polynomial ring (no sqrt reduction)."""
        d = {}
        for m1, c1 in self.t.items():
            for m2, c2 in o.t.items():
                m = _mono_mul(m1, m2)
                v = d.get(m, 0) + c1 * c2
                if v == 0:
                    d.pop(m, None)
                else:
                    d[m] = v
        return Poly(d)

    def __mul__(self, o):
        return self.raw_mul(o).reduce()

    def pow(self, n):
        assert n >= 0
        r = Poly.const(1)
        b = self
        while n:
            if n & 1:
                r = r * b
            b = b * b if n > 1 else b
            n >>= 1
        return r

    def reduce(self):
        """Apply atom^2 -> radicand for sqrt/abs atoms and fn power rules."""
        todo = None
        for m in self.t:
            for i, e in m:
                if e >= 2 and U.atoms[i].kind in ('sqrt', 'abs') or (
                    e >= 2 and U.atoms[i].meta.get('square') is not None
                ):
                    todo = True
                    break
            if todo:
                break
        if not todo:
            return self
        out = Poly({})
        for m, c in self.t.items():
            rest = []
            factor = None
            for i, e in m:
                a = U.atoms[i]
                sq = None
                if e >= 2:
                    if a.kind in ('sqrt', 'abs'):
                        sq = a.arg if a.kind == 'sqrt' else a.arg.raw_mul(a.arg)
                    elif a.meta.get('square') is not None:
                        sq = a.meta['square']
                if sq is not None:
                    f = sq.pow(e // 2) if e // 2 > 1 else sq
                    factor = f if factor is None else factor.raw_mul(f)
                    if e % 2:
                        rest.append((i, 1))
                else:
                    rest.append((i, e))
            base = Poly({tuple(rest): c})
            if factor is not None:
                base = base.raw_mul(factor).reduce()
            out = out + base
        return out

    # exact division -------------------------------------------------------
    def lead(self):
        m = max(self.t, key=_grlex_key)
        return m, self.t[m]

    def divexact(self, d):
        """Return q with q*d == self (free ring, then checked under reduction) or None."""
        if d.is_zero():
            return None
        if self.is_zero():
            return self
        if len(d.t) == 1:
            (dm, dc), = d.t.items()
            out = {}
            for m, c in self.t.items():
                q = _mono_div(m, dm)
                if q is None:
                    return None
                out[q] = c / dc
            return Poly(out)
        if len(self.t) < len(d.t) and not _has_reducible(d):
            return None
        dm, dc = d.lead()
        r = self
        q = {}
        steps = 0
        while r.t:
            rm, rc = r.lead()
            qm = _mono_div(rm, dm)
            if qm is None:
                return None
            qc = rc / dc
            q[qm] = q.get(qm, 0) + qc
            r = r - Poly({qm: qc}).raw_mul(d)
            steps += 1
            if steps > 4000:
                return None
        return Poly({m: c for m, c in q.items() if c != 0})

    # content --------------------------------------------------------------
    def content(self):
        """Positive rational c and primitive poly p with self = c*p, lead coeff of p > 0
        is NOT enforced (sign kept in p)."""
        if not self.t:
            return Fraction(0), self
        num = 0
        den = 1
        for c in self.t.values():
            num = gcd(num, abs(c.numerator))
            den = den * c.denominator // gcd(den, c.denominator)
        c = Fraction(num, den)
        return c, self.scale(1 / c)

    def monomial_content(self):
        """Largest monomial dividing every term."""
        it = iter(self.t)
        first = dict(next(it))
        for m in it:
            dm = dict(m)
            for k in list(first):
                e = min(first[k], dm.get(k, 0))
                if e == 0:
                    del first[k]
                else:
                    first[k] = e
            if not first:
                break
        return tuple(sorted(first.items()))

    # sign -----------------------------------------------------------------
    def sign(self):
        """'+', '0+', '-', '0-', '0' or None (unknown), from atom sign declarations."""
        if not self.t:
            return '0'
        overall = None
        strict = False
        for m, c in self.t.items():
            s = 1 if c > 0 else -1
            st = True
            for i, e in m:
                a = U.atoms[i]
                asg = a.sign
                if e % 2 == 0:
                    if asg in ('+', '-'):
                        pass
                    else:
                        st = False
                else:
                    if asg == '+':
                        pass
                    elif asg == '0+':
                        st = False
                    elif asg == '-':
                        s = -s
                    elif asg == '0-':
                        s = -s
                        st = False
                    else:
                        return None
            if overall is None:
                overall = s
            elif overall != s:
                return None
            strict = strict or st
        if overall > 0:
            return '+' if strict else '0+'
        return '-' if strict else '0-'

    # evaluation -----------------------------------------------------------
    def eval(self, env, ctx):
        tot = ctx.zero
        for m, c in self.t.items():
            v = ctx.frac(c)
            for i, e in m:
                v = v * ctx.atom_value(i, env) ** e
            tot = tot + v
        return tot

    def __repr__(self):
        if not self.t:
            return '0'
        parts = []
        for m, c in sorted(self.t.items(), key=lambda mc: _grlex_key(mc[0]), reverse=True):
            ms = '*'.join(
                (U.atoms[i].name if e == 1 else f'{U.atoms[i].name}^{e}') for i, e in m
            )
            if not ms:
                parts.append(str(c))
            elif c == 1:
                parts.append(ms)
            elif c == -1:
                parts.append('-' + ms)
            else:
                parts.append(f'{c}*{ms}')
        return ' + '.join(parts).replace('+ -', '- ')


def _has_reducible(p):
    for i in p.atoms():
        if U.atoms[i].kind in ('sqrt', 'abs'):
            return True
    return False


P0 = Poly({})
P1 = Poly.const(1)


def atom_poly(a: Atom) -> Poly:
    return Poly({((a.id, 1),): Fraction(1)})


# --------------------------------------------------------------------------- rationals


def _norm_factor(p: Poly):
    """Normalise a denominator factor: returns (constant, [(poly, exp)...])."""
    c, prim = p.content()
    m, lc = prim.lead()
    if lc < 0:
        c = -c
        prim = -prim
    if len(prim.t) == 1:
        (mm, cc), = prim.t.items()
        return c * cc, [(Poly({((i, 1),): Fraction(1)}), e) for i, e in mm]
    return c, [(prim, 1)]


class Rat:
    """num / prod(f^e).  Immutable."""

    __slots__ = ('num', 'den', '_key')

    def __init__(self, num: Poly, den: dict | None = None):
        self.num = num
        self.den = den or {}
        self._key = None

    # -- constructors
    @staticmethod
    def const(c):
        return Rat(Poly.const(c))

    @staticmethod
    def lift(x):
        if isinstance(x, Rat):
            return x
        if isinstance(x, bool):
            return Rat.const(int(x))
        if isinstance(x, int | Fraction):
            return Rat.const(x)
        if isinstance(x, float):
            if x != x or x in (float('inf'), float('-inf')):
                raise ValueError('non-finite constant')
            return Rat.const(Fraction(x))
        raise TypeError(f'cannot lift {type(x)}')

    def key(self):
        if self._key is None:
            self._key = (self.num.key(), frozenset((p.key(), e) for p, e in self.den.items()))
        return self._key

    def __hash__(self):
        return hash(self.key())

    def __eq__(self, o):
        return isinstance(o, Rat) and self.key() == o.key()

    def is_const(self):
        return not self.den and self.num.is_const()

    def const_value(self):
        return self.num.const_value()

    def is_zero(self):
        return self.num.is_zero()

    def den_poly(self) -> Poly:
        d = P1
        for p, e in self.den.items():
            d = d * p.pow(e)
        return d

    def atoms(self):
        s = self.num.atoms()
        for p in self.den:
            s |= p.atoms()
        return s

    # -- normalisation
    @staticmethod
    def make(num: Poly, den_items) -> 'Rat':
        """den_items: iterable of (Poly, exp) (not normalised)."""
        den: dict[Poly, int] = {}
        c = Fraction(1)
        stack = list(den_items)
        while stack:
            p, e = stack.pop()
            if e == 0:
                continue
            if p.is_const():
                c *= p.const_value() ** e
                continue
            cc, facs = _norm_factor(p)
            c *= cc**e
            for f, fe in facs:
                den[f] = den.get(f, 0) + fe * e
        if c == 0:
            raise ZeroDivisionError('division by zero term')
        if c != 1:
            num = num.scale(1 / c)
        # rationalise sqrt/abs atoms in the denominator: 1/s -> s/rad
        changed = True
        while changed:
            changed = False
            for f, e in list(den.items()):
                if len(f.t) == 1:
                    (m, _), = f.t.items()
                    if len(m) == 1:
                        a = U.atoms[m[0][0]]
                        if a.kind in ('sqrt', 'abs'):
                            sq = a.arg if a.kind == 'sqrt' else a.arg * a.arg
                            del den[f]
                            if e % 2:
                                num = num * f
                            k = (e + 1) // 2
                            cc, facs = _norm_factor(sq)
                            num = num.scale(1 / cc**k)
                            for g, ge in facs:
                                den[g] = den.get(g, 0) + ge * k
                            changed = True
                            break
        if num.is_zero():
            return Rat(P0)
        # cancel
        for f in sorted(den, key=lambda p: (len(p.t), hash(p))):
            e = den[f]
            while e > 0:
                q = num.divexact(f)
                if q is None:
                    break
                q = q.reduce()
                if _has_reducible(f) and (q * f) != num:
                    break
                num = q
                e -= 1
            if e == 0:
                del den[f]
            else:
                den[f] = e
        return Rat(num, den)

    # -- arithmetic
    def __neg__(self):
        return Rat(-self.num, self.den)

    def __add__(self, o):
        o = Rat.lift(o)
        if o.num.is_zero():
            return self
        if self.num.is_zero():
            return o
        if self.den == o.den:
            return Rat.make(self.num + o.num, self.den.items())
        L = dict(self.den)
        for p, e in o.den.items():
            if L.get(p, 0) < e:
                L[p] = e
        ma = P1
        mb = P1
        for p, e in L.items():
            ea = e - self.den.get(p, 0)
            eb = e - o.den.get(p, 0)
            if ea:
                ma = ma * p.pow(ea)
            if eb:
                mb = mb * p.pow(eb)
        return Rat.make(self.num * ma + o.num * mb, L.items())

    __radd__ = __add__

    def __sub__(self, o):
        return self + (-Rat.lift(o))

    def __rsub__(self, o):
        return Rat.lift(o) - self

    def __mul__(self, o):
        o = Rat.lift(o)
        if self.num.is_zero() or o.num.is_zero():
            return Rat(P0)
        items = list(self.den.items()) + list(o.den.items())
        return Rat.make(self.num * o.num, items)

    __rmul__ = __mul__

    def inv(self):
        if self.num.is_zero():
            raise ZeroDivisionError('1/0 term')
        num = P1
        for p, e in self.den.items():
            num = num * p.pow(e)
        return Rat.make(num, [(self.num, 1)])

    def __truediv__(self, o):
        o = Rat.lift(o)
        return self * o.inv()

    def __rtruediv__(self, o):
        return Rat.lift(o) * self.inv()

    def __pow__(self, n):
        if isinstance(n, Rat):
            assert n.is_const()
            n = n.const_value()
        n = Fraction(n)
        if n.denominator == 1:
            n = int(n)
            if n >= 0:
                r = Rat.const(1)
                for _ in range(n):
                    r = r * self
                return r
            return (self**(-n)).inv()
        if n.denominator == 2:
            return sqrt(self) ** int(n.numerator)
        raise NotImplementedError(f'power {n}')

    def sign(self):
        sn = self.num.sign()
        if sn is None:
            return None
        if sn == '0':
            return '0'
        flip = False
        for p, e in self.den.items():
            if e % 2 == 0:
                continue
            sp = p.sign()
            if sp == '+':
                continue
            if sp == '-':
                flip = not flip
                continue
            return None
        if flip:
            return {'+': '-', '-': '+', '0+': '0-', '0-': '0+'}[sn]
        return sn

    def eval(self, env, ctx):
        v = self.num.eval(env, ctx)
        for p, e in self.den.items():
            v = v / p.eval(env, ctx) ** e
        return v

    def __repr__(self):
        if not self.den:
            return repr(self.num)
        d = '*'.join((f'({p})' if e == 1 else f'({p})^{e}') for p, e in self.den.items())
        return f'({self.num})/[{d}]'


ZERO = Rat(P0)
ONE = Rat.const(1)

# --------------------------------------------------------------------------- sqrt / abs


def _int_sqrt_frac(c: Fraction):
    if c < 0:
        return None
    n, d = c.numerator, c.denominator
    rn, rd = isqrt(n), isqrt(d)
    if rn * rn == n and rd * rd == d:
        return Fraction(rn, rd)
    return None


def _square_free_split(c: Fraction):
    """c = s^2 * r with r squarefree-ish (trial division by small primes)."""
    assert c > 0
    n, d = c.numerator, c.denominator
    # make denominator a square: c = n*d / d^2
    n = n * d
    out = Fraction(1, d)
    s = 1
    r = 1
    p = 2
    m = n
    while p * p <= m and p < 2000:
        cnt = 0
        while m % p == 0:
            m //= p
            cnt += 1
        s *= p ** (cnt // 2)
        if cnt % 2:
            r *= p
        p += 1
    rm = isqrt(m)
    if rm * rm == m:
        s *= rm
    else:
        r *= m
    return out * s, Fraction(r)


def abs_poly(p: Poly) -> Rat:
    s = p.sign()
    if s in ('+', '0+', '0'):
        return Rat(p)
    if s in ('-', '0-'):
        return Rat(-p)
    # single term: product of abs of atoms
    c, prim = p.content()
    if len(prim.t) == 1:
        (m, cc), = prim.t.items()
        r = Rat.const(c * abs(cc))
        for i, e in m:
            a = U.atoms[i]
            if e % 2 == 0:
                r = r * Rat(Poly({((i, e),): Fraction(1)}))
            else:
                r = r * _abs_atom(atom_poly(a)) * Rat(Poly({((i, e - 1),): Fraction(1)}) if e > 1 else P1)
        return r
    m, lc = prim.lead()
    if lc < 0:
        prim = -prim
    return Rat.const(c) * _abs_atom(prim)


def _abs_atom(p: Poly) -> Rat:
    s = p.sign()
    if s in ('+', '0+'):
        return Rat(p)
    if s in ('-', '0-'):
        return Rat(-p)
    a = U.abs_memo.get(p)
    if a is None:
        a = U.new(f'|{p}|', 'abs', sign='0+', arg=p)
        U.abs_memo[p] = a
    return Rat(atom_poly(a))


def rabs(x: Rat) -> Rat:
    r = abs_poly(x.num)
    for p, e in x.den.items():
        if e % 2 == 0:
            r = r / Rat(p.pow(e))
        else:
            r = r / (abs_poly(p) ** e)
    return r


def sqrt_poly(p: Poly) -> Rat:
    """sqrt of a polynomial (assumed >= 0; the domain condition is recorded by the caller)."""
    if p.is_zero():
        return ZERO
    c, prim = p.content()
    m, lc = prim.lead()
    if p.is_const():
        v = p.const_value()
        if v < 0:
            raise ValueError('sqrt of negative constant')
        s, r = _square_free_split(v)
        if r == 1:
            return Rat.const(s)
        return Rat.const(s) * _sqrt_atom(Poly.const(r))
    # c may be negative only if prim sign flips; keep c>0 by construction of content()
    s, r = _square_free_split(c)
    out = Rat.const(s)
    prim = prim.scale(r)
    # pull out even monomial content
    mc = prim.monomial_content()
    pulled = []
    keep = []
    for i, e in mc:
        if e >= 2:
            pulled.append((i, e // 2))
            keep.append((i, e - 2 * (e // 2)))
    if pulled:
        div = Poly({tuple((i, 2 * h) for i, h in pulled): Fraction(1)})
        prim = prim.divexact(div)
        for i, h in pulled:
            out = out * (_abs_atom(atom_poly(U.atoms[i])) ** h)
    if prim.is_const():
        v = prim.const_value()
        s2, r2 = _square_free_split(v)
        return out * Rat.const(s2) * (_sqrt_atom(Poly.const(r2)) if r2 != 1 else ONE)
    # perfect square of a known registered square?
    sq = U.sqrt_memo.get(('square_of', prim))
    if sq is not None:
        return out * rabs(sq)
    return out * _sqrt_atom(prim)


def register_square(root: Rat):
    """Tell the term layer that sqrt(root^2) = |root| (used by harness lemmas)."""
    sq = root * root
    if not sq.den:
        c, prim = sq.num.content()
        U.sqrt_memo[('square_of', prim)] = root / sqrt(Rat.const(c)) if c != 1 else root


def _sqrt_atom(p: Poly) -> Rat:
    a = U.sqrt_memo.get(p)
    if a is None:
        s = p.sign()
        a = U.new(f'sqrt({p})', 'sqrt', sign='+' if s == '+' else '0+', arg=p)
        U.sqrt_memo[p] = a
    return Rat(atom_poly(a))


def sqrt(x) -> Rat:
    x = Rat.lift(x)
    if x.is_zero():
        return ZERO
    r = sqrt_poly(x.num)
    for p, e in x.den.items():
        if e % 2 == 0:
            r = r / (abs_poly(p) ** (e // 2))
        else:
            # sqrt(1/p^e) = sqrt(p)/|p|^((e+1)/2)
            r = r * sqrt_poly(p) / (abs_poly(p) ** ((e + 1) // 2))
    return r


# --------------------------------------------------------------------------- functions

_FN_HOOKS: dict = {}


def fn_hook(name):
    def deco(f):
        _FN_HOOKS[name] = f
        return f

    return deco


def fn(name, *args, sign=None) -> Rat:
    args = tuple(Rat.lift(a) for a in args)
    h = _FN_HOOKS.get(name)
    if h is not None:
        r = h(*args)
        if r is not None:
            return r
    key = (name, tuple(a.key() for a in args))
    a = U.fn_memo.get(key)
    if a is None:
        a = U.new(f'{name}({", ".join(map(repr, args))})', 'fn', sign=sign, arg=args, fn=name)
        U.fn_memo[key] = a
    return Rat(atom_poly(a))


def fn_atom_of(r: Rat):
    """If r is exactly one fn atom return it."""
    if r.den or len(r.num.t) != 1:
        return None
    (m, c), = r.num.t.items()
    if c != 1 or len(m) != 1 or m[0][1] != 1:
        return None
    a = U.atoms[m[0][0]]
    return a if a.kind == 'fn' else None


def PI() -> Rat:
    r = var('pi', sign='+')
    return r


@fn_hook('sin')
def _sin(x):
    if x.is_zero():
        return ZERO
    a = fn_atom_of(x)
    if a is not None and a.fn == 'asin':
        return a.arg[0]
    if a is not None and a.fn == 'atan2':
        # sin(atan2(y, x)) = y / sqrt(x^2 + y^2)   ((y, x) != (0, 0))
        y_, x_ = a.arg
        return y_ / sqrt(x_ * x_ + y_ * y_)
    # odd symmetry: canonical sign of leading coefficient
    if x.num.t:
        m, lc = x.num.lead()
        if lc < 0:
            return -fn('sin', -x)
    return None


@fn_hook('cos')
def _cos(x):
    if x.is_zero():
        return ONE
    a = fn_atom_of(x)
    if a is not None and a.fn == 'asin':
        u = a.arg[0]
        return sqrt(ONE - u * u)
    if a is not None and a.fn == 'atan2':
        y_, x_ = a.arg
        return x_ / sqrt(x_ * x_ + y_ * y_)
    if x.num.t:
        m, lc = x.num.lead()
        if lc < 0:
            return fn('cos', -x)
    # cos^2 -> 1 - sin^2 registered on creation
    key = ('cos', (x.key(),))
    at = U.fn_memo.get(key)
    if at is None:
        at = U.new(f'cos({x!r})', 'fn', arg=(x,), fn='cos')
        U.fn_memo[key] = at
        s = fn('sin', x)
        if not s.den:
            at.meta['square'] = (ONE - s * s).num
    return Rat(atom_poly(at))


@fn_hook('exp')
def _exp(x):
    if x.is_zero():
        return ONE
    return None


@fn_hook('log')
def _log(x):
    if x.is_const() and x.const_value() == 1:
        return ZERO
    return None


# --------------------------------------------------------------------------- evaluation


class EvalCtx:
    """Numeric evaluation of terms (mpmath) for validation and replay."""

    def __init__(self, mp):
        self.mp = mp
        self.zero = mp.mpf(0)
        self.cache = {}

    def frac(self, c: Fraction):
        return self.mp.mpf(c.numerator) / self.mp.mpf(c.denominator)

    def atom_value(self, i, env):
        k = i
        if k in self.cache:
            return self.cache[k]
        a = U.atoms[i]
        mp = self.mp
        if a.kind == 'var':
            if a.name == 'pi':
                v = mp.pi
            else:
                v = env[a.name]
                if isinstance(v, Fraction):
                    v = self.frac(v)
                else:
                    v = mp.mpf(v)
        elif a.kind == 'sqrt':
            v = mp.sqrt(a.arg.eval(env, self))
        elif a.kind == 'abs':
            v = abs(a.arg.eval(env, self))
        else:
            args = [x.eval(env, self) for x in a.arg]
            f = a.fn
            if f in env.get('__fns__', {}):
                v = env['__fns__'][f](*args)
            elif f == 'sin':
                v = mp.sin(*args)
            elif f == 'cos':
                v = mp.cos(*args)
            elif f == 'tan':
                v = mp.tan(*args)
            elif f == 'asin':
                v = mp.asin(*args)
            elif f == 'acos':
                v = mp.acos(*args)
            elif f == 'atan':
                v = mp.atan(*args)
            elif f == 'atan2':
                v = mp.atan2(*args)
            elif f == 'exp':
                v = mp.exp(*args)
            elif f == 'log':
                v = mp.log(*args)
            else:
                raise KeyError(f'no numeric model for fn {f}')
        self.cache[k] = v
        return v


def evaluate(r: Rat, env: dict, dps=50):
    import mpmath

    mpmath.mp.dps = dps
    return r.eval(env, EvalCtx(mpmath))
