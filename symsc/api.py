"""The fake `scipp` module namespace built on symsc.variable."""
from __future__ import annotations

import builtins as _b
import sys
import types
from fractions import Fraction

import numpy as np

from symex import core as C
from symex import terms as T
from symex.core import R, B

from . import variable as V
from .units import DEFAULT, SAME, Unit, UnitError, parse_unit, units as _units
from .variable import (BinEdgeError, CoordError, DimensionError, DType, DTypeError, Variable, VariableError,
                       VariancesError, binary, reduce_, to_unit, unary)

# ------------------------------------------------------------------ creation


def scalar(value, *, variance=None, unit=DEFAULT, dtype=None):
    if isinstance(value, str):
        return Variable(dims=(), values=value, dtype=DType.string, unit=None if unit is DEFAULT else unit)
    if isinstance(value, Variable):
        raise C.Unsupported('scalar(Variable)')
    if dtype is None and isinstance(value, float | np.floating):
        dtype = DType.float64
    if dtype is None and hasattr(value, '__symscalar__'):
        dtype = DType.float64
    if dtype is None and not isinstance(value, R | B | int | bool | Fraction | np.generic):
        return Variable(dims=(), values=_pyobj(value), dtype=DType.PyObject, unit=None)
    return Variable(dims=(), values=value, variances=variance, unit=unit, dtype=dtype)


def _pyobj(v):
    a = np.empty((), dtype=object)
    a[()] = v
    return a


def index(value, *, dtype=None):
    return Variable(dims=(), values=value, unit=None, dtype=dtype or DType.int64)


def array(*, dims, values, variances=None, unit=DEFAULT, dtype=None):
    return Variable(dims=dims, values=values, variances=variances, unit=unit, dtype=dtype)


def vector(value, *, unit=DEFAULT):
    a = np.empty((3,), dtype=object)
    for i in range(3):
        a[i] = R.lift(value[i])
    return Variable(_arr=a, dims=(), unit=Unit() if unit is DEFAULT else parse_unit(unit), dtype=DType.vector3)


def vectors(*, dims, values, unit=DEFAULT):
    vals = np.asarray(values, dtype=object)
    a = np.empty(vals.shape, dtype=object)
    for idx in np.ndindex(vals.shape):
        a[idx] = R.lift(vals[idx])
    return Variable(_arr=a, dims=tuple(dims), unit=Unit() if unit is DEFAULT else parse_unit(unit), dtype=DType.vector3)


def _filled(val, dims, shape, sizes, unit, dtype, with_variances=False):
    if sizes is not None:
        dims, shape = tuple(sizes), tuple(sizes.values())
    dims = tuple(dims or ())
    shape = tuple(int(s) for s in (shape or ()))
    dt = V.as_dtype(dtype) or DType.float64
    a = np.empty(shape + dt.elem, dtype=object)
    a[...] = R.lift(val) if dt.name != 'bool' else C.B.const(bool(val))
    var = None
    if with_variances:
        var = np.empty(shape, dtype=object)
        var[...] = R.lift(val)
    u = (Unit() if dt.name != 'bool' else None) if unit is DEFAULT else (parse_unit(unit) if unit is not None else None)
    return Variable(_arr=a, _var=var, dims=dims, unit=u, dtype=dt)


def zeros(*, dims=None, shape=None, sizes=None, unit=DEFAULT, dtype=None, with_variances=False):
    return _filled(0, dims, shape, sizes, unit, dtype, with_variances)


def ones(*, dims=None, shape=None, sizes=None, unit=DEFAULT, dtype=None, with_variances=False):
    return _filled(1, dims, shape, sizes, unit, dtype, with_variances)


def empty(*, dims=None, shape=None, sizes=None, unit=DEFAULT, dtype=None, with_variances=False):
    return _filled(0, dims, shape, sizes, unit, dtype, with_variances)


def full(*, value, dims=None, shape=None, sizes=None, unit=DEFAULT, dtype=None, variance=None):
    if dtype is None:
        dtype = DType.int64 if isinstance(value, int) and not isinstance(value, bool) else DType.float64
    return _filled(value, dims, shape, sizes, unit, dtype)


def zeros_like(v):
    return _filled(0, v.dims, v.shape, None, v.unit, v.dtype, v._v is not None)


def ones_like(v):
    return _filled(1, v.dims, v.shape, None, v.unit, v.dtype, v._v is not None)


def empty_like(v):
    return zeros_like(v)


def full_like(v, value):
    return _filled(value, v.dims, v.shape, None, v.unit, v.dtype)


def arange(dim, start, stop=None, step=None, *, unit=DEFAULT, dtype=None):
    if stop is None:
        start, stop = 0, start
    if isinstance(start, Variable):
        raise C.Unsupported('arange with variables')
    step = 1 if step is None else step
    vals = []
    x = start
    n = 0
    isint = _b.all(isinstance(t, int | np.integer) for t in (start, stop, step))
    while (x < stop) if step > 0 else (x > stop):
        vals.append(x)
        n += 1
        x = start + n * step
    dt = dtype or (DType.int64 if isint else DType.float64)
    a = np.empty((len(vals),), dtype=object)
    for i, t in enumerate(vals):
        a[i] = R.lift(t)
    u = Unit() if unit is DEFAULT else (parse_unit(unit) if unit is not None else None)
    return Variable(_arr=a, dims=(dim,), unit=u, dtype=V.as_dtype(dt))


def linspace(dim, start, stop, num, *, endpoint=True, unit=DEFAULT, dtype=None):
    num = int(num)
    start, stop = Fraction(start), Fraction(stop)
    d = (stop - start) / ((num - 1) if endpoint else num) if num > 1 else 0
    vals = [start + i * d for i in range(num)]
    return array(dims=[dim], values=vals, unit=unit, dtype=dtype or DType.float64)


# ------------------------------------------------------------------ math


def _u(name):
    def f(x, *, out=None):
        if not isinstance(x, Variable):
            x = V._as_var(x)
        return unary(x, name, out=out)

    f.__name__ = name
    return f


sqrt_ = _u('sqrt')


def sqrt(x, *, out=None):
    if isinstance(x, Unit):
        return x.sqrt_checked()
    return sqrt_(x, out=out)


def reciprocal(x, *, out=None):
    if isinstance(x, Unit):
        return Unit() / x
    return unary(x, 'reciprocal', out=out)


def abs(x, *, out=None):  # noqa: A001
    if isinstance(x, Unit):
        return x
    return unary(x, 'abs', out=out)


sin = _u('sin')
cos = _u('cos')
tan = _u('tan')
asin = _u('asin')
acos = _u('acos')
atan = _u('atan')
exp = _u('exp')
log = _u('log')
round = _u('round')  # noqa: A001
floor = _u('floor')
ceil = _u('ceil')
isnan = _u('isnan')
isfinite = _u('isfinite')


def atan2(*, y, x, out=None):
    if y._bins is not None or x._bins is not None:
        from .bins import binned_binary_fn

        return binned_binary_fn(y, x, lambda a, b: atan2(y=a, x=b))
    if y.unit != x.unit:
        raise UnitError(f'atan2: units differ: {y.unit} vs {x.unit}')
    if y.dtype != x.dtype:
        raise DTypeError(f'atan2: dtypes differ: {y.dtype} vs {x.dtype}')
    V._need_float(y, 'atan2')
    dims, shape = V._merge_dims(y, x)
    def _at(a, b):
        sg = a.t.sign() if getattr(a, 'special', None) is None and hasattr(a, 't') else None
        return C.rfn('atan2', a, b, sign='0+' if sg in ('+', '0+', '0') else None)

    res = V._apply2(_at, V._expand(y, dims), V._expand(x, dims))
    res = np.broadcast_to(res, shape).copy()
    r = Variable(_arr=res, dims=dims, unit=parse_unit('rad'), dtype=y.dtype,
                 _rnd=V._rnd_add((y._rnd[0] + x._rnd[0], y._rnd[1] + x._rnd[1]), y.dtype))
    return V._into(out, r)


def pow(base, exponent):  # noqa: A001
    return V.power(base, exponent)


def norm(x):
    if x.dtype != DType.vector3:
        raise DTypeError(f"'norm' does not support dtype {x.dtype}")
    a = x._a
    out = np.empty(a.shape[:-1], dtype=object)
    for idx in np.ndindex(out.shape):
        out[idx] = C.rsqrt(a[idx + (0,)] * a[idx + (0,)] + a[idx + (1,)] * a[idx + (1,)] + a[idx + (2,)] * a[idx + (2,)], nonneg=True)
    return Variable(_arr=out, dims=x.dims, unit=x.unit, dtype=DType.float64, _rnd=V._rnd_add(x._rnd, DType.float64))


def dot(a, b):
    if a.dtype != DType.vector3 or b.dtype != DType.vector3:
        raise DTypeError("'dot' needs vectors")
    dims, shape = V._merge_dims(a, b)
    xa = np.broadcast_to(V._expand(a, dims), shape + (3,))
    xb = np.broadcast_to(V._expand(b, dims), shape + (3,))
    out = np.empty(shape, dtype=object)
    for idx in np.ndindex(shape):
        out[idx] = xa[idx + (0,)] * xb[idx + (0,)] + xa[idx + (1,)] * xb[idx + (1,)] + xa[idx + (2,)] * xb[idx + (2,)]
    return Variable(_arr=out, dims=dims, unit=a.unit * b.unit, dtype=DType.float64,
                    _rnd=V._rnd_add((a._rnd[0] + b._rnd[0], a._rnd[1] + b._rnd[1]), DType.float64))


def cross(a, b):
    if a.dtype != DType.vector3 or b.dtype != DType.vector3:
        raise DTypeError("'cross' needs vectors")
    dims, shape = V._merge_dims(a, b)
    xa = np.broadcast_to(V._expand(a, dims), shape + (3,))
    xb = np.broadcast_to(V._expand(b, dims), shape + (3,))
    out = np.empty(shape + (3,), dtype=object)
    for idx in np.ndindex(shape):
        a0, a1, a2 = (xa[idx + (k,)] for k in range(3))
        b0, b1, b2 = (xb[idx + (k,)] for k in range(3))
        out[idx + (0,)] = a1 * b2 - a2 * b1
        out[idx + (1,)] = a2 * b0 - a0 * b2
        out[idx + (2,)] = a0 * b1 - a1 * b0
    return Variable(_arr=out, dims=dims, unit=a.unit * b.unit, dtype=DType.vector3,
                    _rnd=V._rnd_add((a._rnd[0] + b._rnd[0], a._rnd[1] + b._rnd[1]), DType.float64))


def where(condition, x, y):
    if x._bins is not None or y._bins is not None or condition._bins is not None:
        from .bins import binned_where

        if x.unit != y.unit:
            raise UnitError(f'where: units differ {x.unit} vs {y.unit}')
        return binned_where(condition, x, y)
    if condition.dtype != DType.bool:
        raise DTypeError('where: condition must be bool')
    if x.unit != y.unit:
        raise UnitError(f'where: units differ {x.unit} vs {y.unit}')
    if x.dtype != y.dtype:
        raise DTypeError(f'where: dtypes differ {x.dtype} vs {y.dtype}')
    if x._bins is not None or y._bins is not None or condition._bins is not None:
        from .bins import binned_where

        return binned_where(condition, x, y)
    dims, shape = V._merge_dims(V._merge_dims_var(condition, x), y)
    c = np.broadcast_to(V._expand(condition, dims), shape)
    xa = np.broadcast_to(V._expand(x, dims), shape + x.elem)
    ya = np.broadcast_to(V._expand(y, dims), shape + x.elem)
    out = np.empty(shape + x.elem, dtype=object)
    for idx in np.ndindex(shape):
        out[idx] = xa[idx] if bool(c[idx]) else ya[idx]
    return Variable(_arr=out, dims=dims, unit=x.unit, dtype=x.dtype, _rnd=(_b.max(x._rnd[0], y._rnd[0]), _b.max(x._rnd[1], y._rnd[1])))


def _merge_dims_var(a, b):
    dims, shape = V._merge_dims(a, b)
    return V._broadcast_to(a, dims, shape) if a.dims != dims else a


V._merge_dims_var = _merge_dims_var


def nan_to_num(x, *, nan=None, posinf=None, neginf=None, out=None):
    def f(e):
        if e.special == 'nan' and nan is not None:
            return nan.value
        if e.special == 'inf' and posinf is not None:
            return posinf.value
        if e.special == '-inf' and neginf is not None:
            return neginf.value
        return e

    return V._into(out, x._new(V._map1(f, x._a)))


def min(x, dim=None):  # noqa: A001
    return reduce_(x, 'min', dim)


def max(x, dim=None):  # noqa: A001
    return reduce_(x, 'max', dim)


def sum(x, dim=None):  # noqa: A001
    return reduce_(x, 'sum', dim)


def mean(x, dim=None):
    return reduce_(x, 'mean', dim)


def all(x, dim=None):  # noqa: A001
    return reduce_(x, 'all', dim)


def any(x, dim=None):  # noqa: A001
    return reduce_(x, 'any', dim)


def cumsum(a, dim=None, mode='inclusive'):
    if dim is None:
        dim = a.dim
    ax = a.dims.index(dim)
    out = a._a.copy()
    n = a.shape[ax]
    acc = None
    for i in range(n):
        sel = (slice(None),) * ax + (i,)
        cur = a._a[sel]
        if mode == 'inclusive':
            acc = cur if acc is None else acc + cur
            out[sel] = acc
        else:
            out[sel] = (cur * 0) if acc is None else acc
            acc = cur if acc is None else acc + cur
    return a._new(out)


def values(x):
    if isinstance(x, DataArray):
        return DataArray(values(x.data), coords=dict(x.coords), masks=dict(x.masks))
    return x._new(x._a.copy(), var=None)


def variances(x):
    if isinstance(x, DataArray):
        return DataArray(variances(x.data), coords=dict(x.coords), masks=dict(x.masks))
    return x._new(x._v.copy(), unit=x.unit ** 2, var=None)


def stddevs(x):
    return x._new(V._map1(C.rsqrt, x._v), var=None)


class _Reducer:
    """sc.reduce(items): lazy reduction over a sequence of variables of equal dims, unit and dtype (scipp refuses otherwise)."""

    _DIM = 'reduce!'

    def __init__(self, items):
        self._items = list(items)
        if not self._items:
            raise ValueError('reduce: empty sequence')

    def _red(self, kind):
        return getattr(concat(self._items, self._DIM), kind)(self._DIM)

    def min(self):
        return self._red('min')

    def max(self):
        return self._red('max')

    def sum(self):
        return self._red('sum')

    def all(self):
        return self._red('all')

    def any(self):
        return self._red('any')


def reduce(x):
    return _Reducer(x)


def concat(x, dim):
    x = list(x)
    if isinstance(x[0], DataArray):
        data = concat([d.data for d in x], dim)
        coords = {}
        for k, c in x[0].coords.items():
            if dim in c.dims:
                coords[k] = concat([d.coords[k] for d in x], dim)
            else:
                coords[k] = c
        masks = {k: concat([d.masks[k] for d in x], dim) for k in x[0].masks}
        return DataArray(data, coords=coords, masks=masks, name=x[0].name)
    u = x[0].unit
    for v in x:
        if v.unit != u:
            raise UnitError(f'concat: units differ: {u} vs {v.unit}')
    dt = x[0].dtype
    for v in x:
        if v.dtype != dt:
            raise DTypeError(f'concat: dtypes differ: {dt} vs {v.dtype}')
    ref = next((v for v in x if dim in v.dims), None)
    if ref is not None:
        dims = ref.dims
        ax = dims.index(dim)
        parts = []
        vparts = []
        for v in x:
            if dim in v.dims:
                vv = v.transpose(dims) if v.dims != dims else v
                parts.append(vv._a)
                vparts.append(vv._v)
            else:
                other = tuple(d for d in dims if d != dim)
                vv = V._broadcast_to(v, other, tuple(ref.sizes[d] for d in other)) if other else v
                parts.append(np.expand_dims(vv._a, ax))
                vparts.append(None if vv._v is None else np.expand_dims(vv._v, ax))
        arr = np.concatenate(parts, axis=ax)
        var = np.concatenate(vparts, axis=ax) if x[0]._v is not None else None
    else:
        dims = (dim, *x[0].dims)
        arr = np.stack([v._a for v in x], axis=0)
        var = np.stack([v._v for v in x], axis=0) if x[0]._v is not None else None
    return Variable(_arr=arr, _var=var, dims=dims, unit=u, dtype=dt, _rnd=x[0]._rnd)


def identical(a, b, *, equal_nan=False):
    if isinstance(a, DataArray) or isinstance(b, DataArray):
        raise C.Unsupported('identical DataArray')
    if a.dims != b.dims or a.shape != b.shape or a.unit != b.unit or a.dtype != b.dtype:
        return False
    if (a._v is None) != (b._v is None):
        return False
    conds = [x == y for x, y in zip(a._a.flat, b._a.flat, strict=True)]
    return bool(C.all_of(conds))


def allclose(x, y, rtol=None, atol=None, equal_nan=False):
    """scipp semantics: all(|x - y| <= atol + rtol*|y|); rtol defaults to 1e-5, atol to 1e-8 in the unit of y."""
    from fractions import Fraction as _F

    if x.unit != y.unit:
        raise UnitError(f'allclose: units differ {x.unit} vs {y.unit}')
    if rtol is None:
        rtol = scalar(1e-5)
    if atol is None:
        atol = scalar(1e-8, unit=y.unit)  # real scipp (measured, 25.x): the default takes the unit of y, as in isclose
    if atol.unit != y.unit and not (atol.unit in (None, Unit()) and y.unit in (None, Unit())):
        raise UnitError(f'allclose: atol unit {atol.unit} vs {y.unit}')
    dims, shape = V._merge_dims(x, y)
    xa = np.broadcast_to(V._expand(x, dims), shape)
    ya = np.broadcast_to(V._expand(y, dims), shape)
    conds = []
    for idx in np.ndindex(shape):
        p, q = xa[idx], ya[idx]
        if getattr(p, 'special', None) or getattr(q, 'special', None):
            conds.append(C.B.const(p.special == q.special and (p.special != 'nan' or equal_nan)))
            continue
        conds.append(_b.abs(p - q) <= atol.value + rtol.value * _b.abs(q))
    return bool(C.all_of(conds))


def issorted(x, dim, order='ascending'):
    ax = x.dims.index(dim)
    n = x.shape[ax]
    conds = []
    for i in range(n - 1):
        a = x._a[(slice(None),) * ax + (i,)]
        b = x._a[(slice(None),) * ax + (i + 1,)]
        for p, q in zip(np.asarray(a, dtype=object).flat, np.asarray(b, dtype=object).flat, strict=True):
            conds.append(p <= q if order == 'ascending' else p >= q)
    return Variable(dims=(), values=C.all_of(conds))


def sort(x, key, order='ascending'):
    if isinstance(x, DataArray):
        raise C.Unsupported('sort DataArray')
    if isinstance(key, str):
        dim = key
        if len(x.dims) != 1:
            raise C.Unsupported('sort of n-d variable by dim')
        keyvals = list(x._a)
    else:
        if len(key.dims) != 1:
            raise DimensionError('sort key must be 1-d')
        dim = key.dims[0]
        keyvals = list(key._a)
    # insertion sort of indices with forking comparisons (stable)
    perm = []
    for i, kv in enumerate(keyvals):
        k = 0
        while k < len(perm) and bool(keyvals[perm[k]] <= kv if order == 'ascending' else keyvals[perm[k]] >= kv):
            k += 1
        perm.insert(k, i)
    ax = x.dims.index(dim)
    a = np.take(x._a, perm, axis=ax)
    var = None if x._v is None else np.take(x._v, perm, axis=ax)
    return x._new(a, var=var)


def midpoints(x, dim=None):
    dim = dim or x.dim
    return (x[dim, 1:] + x[dim, :-1]) * Fraction(1, 2) if x.dtype.name in ('float64', 'float32') else (x[dim, 1:] + x[dim, :-1]) / 2


def isclose(x, y, rtol=None, atol=None, equal_nan=False):
    """Element-wise |x - y| <= atol + rtol*|y| (scipp defaults rtol 1e-5, atol 1e-8 in the unit of y)."""
    x, y = V._as_var(x), V._as_var(y)
    if x.unit != y.unit:
        raise UnitError(f'isclose: units differ {x.unit} vs {y.unit}')
    if rtol is None:
        rtol = scalar(1e-5)
    if atol is None:
        atol = scalar(1e-8, unit=y.unit)  # real scipp: the default takes the unit of y
    if atol.unit != y.unit and not (atol.unit in (None, Unit()) and y.unit in (None, Unit())):
        raise UnitError(f'isclose: atol unit {atol.unit} vs {y.unit}')
    dims, shape = V._merge_dims(x, y)
    xa = np.broadcast_to(V._expand(x, dims), shape)
    ya = np.broadcast_to(V._expand(y, dims), shape)
    out = np.empty(shape, dtype=object)
    for idx in np.ndindex(shape):
        p, q = R.lift(xa[idx]), R.lift(ya[idx])
        if p.special or q.special:
            out[idx] = C.B.const(p.special == q.special and (p.special != 'nan' or equal_nan))
        else:
            out[idx] = _b.abs(p - q) <= atol.value + rtol.value * _b.abs(q)
    return Variable(_arr=out, dims=dims, unit=None, dtype=DType.bool)


def transpose(x, dims=None):
    return x.transpose(dims)


def squeeze(x, dim=None):
    return x.squeeze(dim)


def flatten(x, dims=None, to=None):
    return x.flatten(dims=dims, to=to)


def fold(x, dim, sizes=None, dims=None, shape=None):
    return x.fold(dim, sizes=sizes, dims=dims, shape=shape)


def broadcast(x, dims=None, shape=None, sizes=None):
    return x.broadcast(dims=dims, shape=shape, sizes=sizes)


def add(a, b):
    return a + b


def subtract(a, b):
    return a - b


def multiply(a, b):
    return a * b


def divide(a, b):
    return a / b


def negative(a):
    return -a


def less(a, b):
    return a < b


def greater(a, b):
    return a > b


def less_equal(a, b):
    return a <= b


def greater_equal(a, b):
    return a >= b


def equal(a, b):
    return a == b


def not_equal(a, b):
    return a != b


def logical_and(a, b):
    return a & b


def logical_or(a, b):
    return a | b


def logical_not(a):
    return ~a


def bins(*, data, dim, begin=None, end=None, validate_indices=True):
    """scipp.bins: begin defaults to one event per bin, end defaults to the next begin (the buffer length for the last bin)."""
    from .bins import make_binned_layout, _data_of

    n = len(_data_of(data))
    if begin is None:
        if end is not None:
            raise ValueError('`end` given but not `begin`')
        raise C.Unsupported('scipp.bins without begin')
    b = [int(R.lift(x).const_value()) for x in begin._a.reshape(-1)]
    if end is None:
        flat_sorted = b == sorted(b)
        if not flat_sorted:
            raise C.Unsupported('scipp.bins with unsorted begin and no end')
        e = [*b[1:], n]
    else:
        e = [int(R.lift(x).const_value()) for x in end._a.reshape(-1)]
    if validate_indices:
        for bi, ei in zip(b, e, strict=True):
            if not (0 <= bi <= ei <= n):
                raise IndexError('Bin indices out of range')
    return make_binned_layout(data, b, e, begin.dims, begin.shape, dim=dim)


# ------------------------------------------------------------------ containers


class Coords(dict):
    def __init__(self, *a, **k):
        super().__init__(*a, **k)
        self._aligned = {}

    def set_aligned(self, name, flag):
        self._aligned[name] = flag

    def is_edges(self, name, dim=None):
        return False


class _DABins:
    """`.bins` of a DataArray with binned data."""

    def __init__(self, da):
        self._da = da
        self._b = da.data.bins

    unit = property(lambda s: s._b.unit)
    constituents = property(lambda s: s._b.constituents)
    coords = property(lambda s: s._b.coords)

    def _wrap(self, v):
        return DataArray(v, coords=dict(self._da.coords), masks=dict(self._da.masks), name=self._da.name)

    def size(self):
        return self._wrap(self._b.size())

    def sum(self):
        return self._wrap(self._b.sum())

    def mean(self):
        return self._wrap(self._b.mean())

    def min(self):
        return self._wrap(self._b.min())

    def max(self):
        return self._wrap(self._b.max())


class DataArray:
    def __init__(self, data, *, coords=None, masks=None, name=''):
        self.data = data
        self.coords = Coords(coords or {})
        self.masks = dict(masks or {})
        self.name = name

    dims = property(lambda s: s.data.dims)
    shape = property(lambda s: s.data.shape)
    sizes = property(lambda s: s.data.sizes)
    ndim = property(lambda s: s.data.ndim)
    dim = property(lambda s: s.data.dim)
    unit = property(lambda s: s.data.unit)
    dtype = property(lambda s: s.data.dtype)
    values = property(lambda s: s.data.values)
    variances = property(lambda s: s.data.variances)
    value = property(lambda s: s.data.value)

    @property
    def bins(self):
        return None if self.data.bins is None else _DABins(self)

    def copy(self, deep=True):
        if not deep:
            return DataArray(self.data, coords=dict(self.coords), masks=dict(self.masks), name=self.name)
        return DataArray(self.data.copy(), coords={k: v.copy() for k, v in self.coords.items()},
                         masks={k: v.copy() for k, v in self.masks.items()}, name=self.name)

    def __getitem__(self, key):
        if isinstance(key, Variable) and key.dtype == DType.bool:
            dim, idx = key.dims[0], key
        elif isinstance(key, tuple):
            dim, idx = key
        else:
            dim, idx = self.data.dim, key
        if isinstance(idx, slice) and (isinstance(idx.start, Variable) or isinstance(idx.stop, Variable)):
            idx = self._label_slice(dim, idx)
        coords = {}
        for k, c in self.coords.items():
            if dim in c.dims:
                if isinstance(idx, slice) and c.sizes[dim] == self.data.sizes[dim] + 1:
                    stop = None if idx.stop is None else idx.stop + 1
                    coords[k] = c[dim, slice(idx.start, stop, idx.step)]
                else:
                    coords[k] = c[dim, idx]
            else:
                coords[k] = c
        masks = {k: (m[dim, idx] if dim in m.dims else m) for k, m in self.masks.items()}
        return DataArray(self.data[dim, idx], coords=coords, masks=masks, name=self.name)

    def __len__(self):
        return len(self.data)

    def _label_slice(self, dim, sl):
        """Value-based slice [start, stop) on an ascending point coordinate -> positional slice (a view)."""
        if sl.step is not None:
            raise C.Unsupported('label slice with step')
        coord = self.coords[dim]
        if coord.ndim != 1:
            raise DimensionError('label-based slicing needs a 1-d coordinate')
        n = coord.shape[0]
        xs = list(coord._a)

        def first_ge(bound):
            if bound is None:
                return None
            if bound.unit != coord.unit:
                raise UnitError(f'label slice: {bound.unit} vs {coord.unit}')
            b = bound.value
            i = 0
            while i < n and not bool(xs[i] >= b):
                i += 1
            return i

        lo = first_ge(sl.start)
        hi = first_ge(sl.stop)
        return slice(0 if lo is None else lo, n if hi is None else hi)

    def __iter__(self):
        for i in range(len(self.data)):
            yield self[self.data.dims[0], i]

    def rename_dims(self, d=None, **kw):
        m = {**(d or {}), **kw}
        return DataArray(self.data.rename_dims(m), coords={k: v.rename_dims(m) for k, v in self.coords.items()},
                         masks={k: v.rename_dims(m) for k, v in self.masks.items()}, name=self.name)

    def group(self, *labels):
        from .bins import make_binned

        if len(labels) != 1 or not isinstance(labels[0], str) or self.data.ndim != 1:
            raise C.Unsupported('group: only one label on 1-d data')
        label = labels[0]
        key = self.coords[label]
        dim = self.data.dims[0]
        ids = []
        for e in key._a.flat:
            if not (isinstance(e, R) and e.is_const()):
                raise C.Unsupported('group key must be concrete on each path')
            ids.append(int(e.const_value()))
        uniq = sorted(set(ids))
        contents = []
        for u in uniq:
            keep = [i for i, x in enumerate(ids) if x == u]
            mask = Variable(dims=(dim,), values=[i in keep for i in range(len(ids))])
            sub = self[mask]
            del sub.coords[label]
            contents.append(sub)
        data = make_binned(contents, (label,), (len(uniq),))
        return DataArray(data, coords={label: Variable(dims=(label,), values=uniq, dtype=key.dtype, unit=key.unit)}, name=self.name)

    def __sub__(self, o):
        return DataArray(self.data - (o.data if isinstance(o, DataArray) else o), coords=dict(self.coords), masks=dict(self.masks))

    def __pow__(self, n):
        return DataArray(self.data ** n, coords=dict(self.coords), masks=dict(self.masks))

    def __itruediv__(self, o):
        self.data /= (o.data if isinstance(o, DataArray) else o)
        return self

    def __truediv__(self, o):
        return DataArray(self.data / (o.data if isinstance(o, DataArray) else o), coords=dict(self.coords), masks=dict(self.masks))

    def __isub__(self, o):
        self.data -= (o.data if isinstance(o, DataArray) else o)
        return self


class DataGroup(dict):
    pass


class Dataset(dict):
    pass


# ------------------------------------------------------------------ sub-modules


def _mk_constants():
    m = types.ModuleType('scipp.constants')
    h = R(T.var('h_planck', sign='+'))
    mn = R(T.var('m_neutron', sign='+'))
    m.h = Variable(dims=(), values=h, unit='J*s', dtype=DType.float64)
    m.m_n = Variable(dims=(), values=mn, unit='kg', dtype=DType.float64)
    m.pi = Variable(dims=(), values=R(T.PI()), unit=Unit(), dtype=DType.float64)
    m.g = Variable(dims=(), values=R(T.var('g_std', sign='+')), unit='m/s**2', dtype=DType.float64)
    return m


def _mk_spatial():
    m = types.ModuleType('scipp.spatial')

    def as_vectors(x, y, z):
        for t in (y, z):
            if t.unit != x.unit:
                raise UnitError('as_vectors: units differ')
        dims, shape = V._merge_dims(V._merge_dims_var(x, y), z)
        out = np.empty(shape + (3,), dtype=object)
        for k, t in enumerate((x, y, z)):
            out[..., k] = np.broadcast_to(V._expand(t, dims), shape)
        return Variable(_arr=out, dims=dims, unit=x.unit, dtype=DType.vector3)

    def inv(var):
        if var.elem != (3, 3):
            raise DTypeError('inv needs matrix')
        hook = INV_HOOK[0]
        if hook is not None:
            return hook(var)
        a = var._a
        out = np.empty(a.shape, dtype=object)
        for idx in np.ndindex(a.shape[:-2]):
            mtx = a[idx]
            cof = np.empty((3, 3), dtype=object)
            for i in range(3):
                for j in range(3):
                    r = [k for k in range(3) if k != i]
                    c = [k for k in range(3) if k != j]
                    minor = mtx[r[0], c[0]] * mtx[r[1], c[1]] - mtx[r[0], c[1]] * mtx[r[1], c[0]]
                    cof[i, j] = minor if (i + j) % 2 == 0 else -minor
            det = mtx[0, 0] * cof[0, 0] + mtx[0, 1] * cof[0, 1] + mtx[0, 2] * cof[0, 2]
            for i in range(3):
                for j in range(3):
                    out[idx + (i, j)] = cof[j, i] / det
        return Variable(_arr=out, dims=var.dims, unit=Unit() / var.unit, dtype=var.dtype)

    def linear_transform(*, value, unit=DEFAULT):
        a = np.empty((3, 3), dtype=object)
        for i in range(3):
            for j in range(3):
                a[i, j] = R.lift(value[i][j])
        return Variable(_arr=a, dims=(), unit=Unit() if unit is DEFAULT else parse_unit(unit), dtype=DType.linear_transform3)

    def linear_transforms(*, dims, values, unit=DEFAULT):
        vals = np.asarray(values, dtype=object)
        a = V._vlift(vals)
        return Variable(_arr=a, dims=tuple(dims), unit=Unit() if unit is DEFAULT else parse_unit(unit), dtype=DType.linear_transform3)

    def rotations_from_rotvecs(rv):
        """Rodrigues formula; angle = |rv| in rad."""
        f = rv.unit.factor_to(parse_unit('rad'))
        a = rv._a
        out = np.empty(a.shape[:-1] + (3, 3), dtype=object)
        for idx in np.ndindex(a.shape[:-1]):
            v = [a[idx + (k,)] * R(f) for k in range(3)]
            th = C.rsqrt(v[0] * v[0] + v[1] * v[1] + v[2] * v[2])
            if not bool(th != 0):
                k = [R.lift(0)] * 3
                s, c = R.lift(0), R.lift(1)
            else:
                k = [x / th for x in v]
                s, c = C.rfn('sin', th), C.rfn('cos', th)
            K = [[0, -k[2], k[1]], [k[2], 0, -k[0]], [-k[1], k[0], 0]]
            for i in range(3):
                for j in range(3):
                    kk = k[i] * k[j]
                    out[idx + (i, j)] = (1 if i == j else 0) * c + K[i][j] * s + kk * (1 - c)
        return Variable(_arr=out, dims=rv.dims, unit=Unit(), dtype=DType.rotation3)

    m.as_vectors = as_vectors
    m.inv = inv
    m.linear_transform = linear_transform
    m.linear_transforms = linear_transforms
    m.rotations_from_rotvecs = rotations_from_rotvecs
    return m


INV_HOOK = [None]


def _mk_typing():
    m = types.ModuleType('scipp.typing')
    m.Variable = Variable
    m.VariableLike = Variable
    m.VariableLikeType = Variable
    m.DataArray = DataArray
    m.MetaDataMap = dict
    return m


class _Stub(types.ModuleType):
    def __getattr__(self, name):
        if name.startswith('__'):
            raise AttributeError(name)

        def f(*a, **k):
            raise C.Unsupported(f'scipp.{self.__name__}.{name} is not modelled')

        return f


def build_module():
    m = _Stub('scipp')
    g = globals()
    for k in ('scalar index array vector vectors zeros ones empty full zeros_like ones_like empty_like full_like arange linspace '
              'sqrt reciprocal abs sin cos tan asin acos atan exp log round floor ceil isnan isfinite atan2 pow norm dot '
              'cross where nan_to_num min max sum mean all any cumsum values variances stddevs concat reduce identical allclose '
              'issorted sort midpoints isclose transpose squeeze flatten fold broadcast add subtract multiply divide negative '
              'less greater less_equal greater_equal equal not_equal logical_and logical_or logical_not to_unit bins '
              'DataArray DataGroup Dataset Coords Variable DType Unit UnitError DTypeError DimensionError VariancesError '
              'VariableError CoordError BinEdgeError').split():
        setattr(m, k, g[k])
    m.units = _units
    m.constants = _mk_constants()
    m.spatial = _mk_spatial()
    m.typing = _mk_typing()
    m.__version__ = '25.4.0-symsc'
    m.__path__ = []
    return m


def install():
    """Pre-seed sys.modules with the shim (symbolic processes never import real scipp)."""
    m = build_module()
    sys.modules['scipp'] = m
    sys.modules['scipp.constants'] = m.constants
    sys.modules['scipp.spatial'] = m.spatial
    sys.modules['scipp.typing'] = m.typing
    units_mod = types.ModuleType('scipp.units')
    units_mod.__getattr__ = lambda name: getattr(_units, name)
    sys.modules['scipp.units'] = units_mod
    return m
