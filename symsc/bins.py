"""Binned (event) data for the symbolic scipp shim: a binned Variable is a Variable whose
elements are content objects (Variable or DataArray with one event dimension)."""
from __future__ import annotations

import numpy as np

from symex import core as C
from symex.core import R

from . import variable as V
from .units import Unit
from .variable import DType, Variable


def make_binned(contents, dims, shape=None):
    """contents: flat list (C order) of Variables or DataArrays (each 1-d along the event dim)."""
    from .api import DataArray

    shape = tuple(shape) if shape is not None else (len(contents),)
    a = np.empty(shape, dtype=object)
    for idx, c in zip(np.ndindex(shape), contents, strict=True):
        a[idx] = c
    kind = 'da' if contents and isinstance(contents[0], DataArray) else 'var'
    v = Variable(_arr=a, dims=tuple(dims), unit=None, dtype=DType.DataArrayView if kind == 'da' else DType.VariableView)
    v._bins = Bins(v)
    return v


def make_binned_layout(buffer, begin, end, dims, shape=None, dim=None):
    """Binned variable given as scipp stores it: an event buffer (Variable or DataArray, 1-d) and per-bin [begin, end)
    index ranges, which need not tile the buffer (gaps, unused events at the end, slices of a larger object)."""
    begin, end = [int(b) for b in begin], [int(e) for e in end]
    dim = dim or _data_of(buffer).dims[0]
    contents = [buffer[dim, b:e] for b, e in zip(begin, end, strict=True)]
    v = make_binned(contents, dims, shape)
    v._bins._layout = {'begin': begin, 'end': end, 'data': buffer, 'dim': dim}
    return v


def _data_of(c):
    return c.data if hasattr(c, 'coords') else c


def _with_data(c, data):
    from .api import DataArray

    if hasattr(c, 'coords'):
        return DataArray(data, coords=dict(c.coords), masks=dict(c.masks), name=c.name)
    return data


class _BinCoords:
    def __init__(self, var):
        self._v = var

    def __getitem__(self, name):
        conts = [c.coords[name] for c in self._v._a.flat]
        return make_binned(conts, self._v.dims, self._v.shape)

    def __contains__(self, name):
        return all(name in c.coords for c in self._v._a.flat)

    def __setitem__(self, name, value):
        self._v._write()
        for c, val in zip(self._v._a.flat, value._a.flat, strict=True):
            c.coords[name] = val

    def keys(self):
        first = next(iter(self._v._a.flat), None)
        return list(first.coords.keys()) if first is not None else []


class Bins:
    _layout = None

    def __init__(self, var):
        self._v = var

    def copy(self):
        return self

    def _contents(self):
        return list(self._v._a.flat)

    @property
    def unit(self):
        cs = self._contents()
        return _data_of(cs[0]).unit if cs else Unit()

    @property
    def dtype(self):
        cs = self._contents()
        return _data_of(cs[0]).dtype if cs else DType.float64

    @property
    def constituents(self):
        from .api import concat

        cs = self._contents()

        def idx(vals):
            a = np.empty(self._v.shape, dtype=object)
            for i, x in zip(np.ndindex(self._v.shape), vals, strict=True):
                a[i] = R.lift(x)
            return Variable(_arr=a, dims=self._v.dims, unit=None, dtype=DType.int64)

        if self._layout is not None:
            lay = self._layout
            return {'data': lay['data'], 'begin': idx(lay['begin']), 'end': idx(lay['end']), 'dim': lay['dim']}
        datas = [_data_of(c) for c in cs]
        if datas:
            dim = datas[0].dims[0]
            buf = concat(cs, dim) if len(cs) > 1 else cs[0]
        else:
            buf = Variable(dims=('event',), values=[], dtype='float64')
            dim = 'event'
        sizes = [len(d) for d in datas]
        begin = [sum(sizes[:i]) for i in range(len(sizes))]
        return {'data': buf, 'begin': idx(begin), 'end': idx([b + n for b, n in zip(begin, sizes, strict=True)]), 'dim': dim}

    @property
    def coords(self):
        return _BinCoords(self._v)

    @property
    def data(self):
        return make_binned([_data_of(c) for c in self._contents()], self._v.dims, self._v.shape)

    def getitem(self, var, key):
        nd, sel, _ = Variable._slice(var, key)
        sub = var._a[sel]
        if not isinstance(sub, np.ndarray):
            a = np.empty((), dtype=object)
            a[()] = sub
            sub = a
        out = Variable(_arr=sub, dims=nd, unit=None, dtype=var._dtype, _buf=var._buf)
        out._bins = Bins(out)
        return out

    def astype(self, dt):
        v = map_contents(self._v, lambda d: d.astype(dt, copy=False))
        return v._bins

    def _reduce(self, kind):
        from .variable import reduce_

        out = np.empty(self._v.shape, dtype=object)
        ovar = None
        unit = self.unit
        dt = self.dtype
        for idx in np.ndindex(self._v.shape):
            d = _data_of(self._v._a[idx])
            if kind == 'size':
                out[idx] = R.lift(len(d))
                continue
            if len(d) == 0:
                if kind == 'sum':
                    out[idx] = R.lift(0)
                elif kind == 'mean':
                    out[idx] = C.NAN
                else:
                    import sys
                    from fractions import Fraction
                    big = R.lift(Fraction(sys.float_info.max))
                    out[idx] = big if kind == 'min' else -big
                continue
            r = reduce_(d, kind)
            out[idx] = r.value
            if r.variances is not None:
                if ovar is None:
                    ovar = np.empty(self._v.shape, dtype=object)
                ovar[idx] = r.variance
        if kind == 'size':
            return Variable(_arr=out, dims=self._v.dims, unit=None, dtype=DType.int64)
        if kind == 'mean' and dt.name in ('int64', 'int32'):
            dt = DType.float64
        return Variable(_arr=out, _var=ovar, dims=self._v.dims, unit=unit, dtype=dt)

    def size(self):
        return self._reduce('size')

    def sum(self):
        return self._reduce('sum')

    def mean(self):
        return self._reduce('mean')

    def min(self):
        return self._reduce('min')

    def max(self):
        return self._reduce('max')


def map_contents(v: Variable, f):
    out = np.empty(v.shape, dtype=object)
    for idx in np.ndindex(v.shape):
        c = v._a[idx]
        out[idx] = _with_data(c, f(_data_of(c)))
    r = Variable(_arr=out, dims=v.dims, unit=None, dtype=v._dtype)
    r._bins = Bins(r)
    return r


def binned_unary(v: Variable, f):
    return map_contents(v, f)


def _elem_var(dense: Variable, arr_view, idx):
    """0-d Variable holding dense element idx (shares unit/dtype)."""
    a = np.empty(dense.elem, dtype=object) if dense.elem else np.empty((), dtype=object)
    a[...] = arr_view[idx]
    r = Variable(_arr=a, dims=(), unit=dense.unit, dtype=dense._dtype, _rnd=dense._rnd)
    if hasattr(dense, '_pyscalar'):
        r._pyscalar = dense._pyscalar
    return r


def binned_binary(a: Variable, b: Variable, op):
    dims, shape = V._merge_dims(a, b)
    out = np.empty(shape, dtype=object)
    xa = np.broadcast_to(V._expand(a, dims), shape + (a.elem if a._bins is None else ()))
    xb = np.broadcast_to(V._expand(b, dims), shape + (b.elem if b._bins is None else ()))
    for idx in np.ndindex(shape):
        ca = xa[idx] if a._bins is not None else None
        cb = xb[idx] if b._bins is not None else None
        left = _data_of(ca) if ca is not None else _elem_var(a, xa, idx)
        right = _data_of(cb) if cb is not None else _elem_var(b, xb, idx)
        res = V.binary(left, right, op)
        proto = ca if ca is not None else cb
        out[idx] = _with_data(proto, res)
    r = Variable(_arr=out, dims=dims, unit=None, dtype=(a if a._bins is not None else b)._dtype)
    r._bins = Bins(r)
    return r


def binned_binary_fn(a, b, f):
    dims, shape = V._merge_dims(a, b)
    out = np.empty(shape, dtype=object)
    xa = np.broadcast_to(V._expand(a, dims), shape + (a.elem if a._bins is None else ()))
    xb = np.broadcast_to(V._expand(b, dims), shape + (b.elem if b._bins is None else ()))
    for idx in np.ndindex(shape):
        ca = xa[idx] if a._bins is not None else None
        cb = xb[idx] if b._bins is not None else None
        left = _data_of(ca) if ca is not None else _elem_var(a, xa, idx)
        right = _data_of(cb) if cb is not None else _elem_var(b, xb, idx)
        if ca is not None and cb is None:
            right = V._broadcast_to(right, left.dims, left.shape).copy()
        if cb is not None and ca is None:
            left = V._broadcast_to(left, right.dims, right.shape).copy()
        out[idx] = _with_data(ca if ca is not None else cb, f(left, right))
    r = Variable(_arr=out, dims=dims, unit=None, dtype=(a if a._bins is not None else b)._dtype)
    r._bins = Bins(r)
    return r


def binned_inplace(a: Variable, b, op):
    b = V._as_var(b)
    res = binned_binary(a, b, op)
    if res.dims != a.dims or res.shape != a.shape:
        raise V.DimensionError('in-place op on binned data would change shape')
    a._write()
    for idx in np.ndindex(a.shape):
        c = a._a[idx]
        d = _data_of(c)
        d._write()
        new = _data_of(res._a[idx])
        d._a[...] = new._a
        d._unit = new.unit
    return a


def binned_where(cond, x, y):
    from .api import where

    def pick(v, dims, shape, idx, like):
        if v._bins is not None:
            return _data_of(np.broadcast_to(V._expand(v, dims), shape)[idx])
        e = _elem_var(v, np.broadcast_to(V._expand(v, dims), shape + v.elem), idx)
        return e

    dims, shape = V._merge_dims(V._merge_dims_var(cond, x) if cond._bins is None and x._bins is None else cond, x)
    dims, shape = V._merge_dims(Variable(_arr=np.empty(shape, dtype=object), dims=dims, unit=None, dtype=DType.bool), y)
    out = np.empty(shape, dtype=object)
    proto_v = next(v for v in (x, y, cond) if v._bins is not None)
    for idx in np.ndindex(shape):
        c = pick(cond, dims, shape, idx, None)
        a = pick(x, dims, shape, idx, None)
        b = pick(y, dims, shape, idx, None)
        proto = np.broadcast_to(V._expand(proto_v, dims), shape)[idx]
        n = len(_data_of(proto))
        ed = _data_of(proto).dims
        def ev(v):
            return v if v.dims else V._broadcast_to(v, ed, (n,)).copy()
        out[idx] = _with_data(proto, where(ev(c), ev(a), ev(b)))
    r = Variable(_arr=out, dims=dims, unit=None, dtype=proto_v._dtype)
    r._bins = Bins(r)
    return r
