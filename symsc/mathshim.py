"""math stand-in for modules under test: pi, sqrt and log(2) are symbolic, the rest is the real math module."""
from __future__ import annotations


class SymMath:
    """math stand-in: pi, sqrt and log(2) as symbolic constants with their defining equations."""

    def __getattr__(self, name):
        import math

        return getattr(math, name)

    @property
    def pi(self):
        from symex import core as C
        from symex import terms as T

        return C.R(T.PI())

    def sqrt(self, x):
        from symex import core as C

        return C.rsqrt(C.R.lift(x), nonneg=True)

    def log(self, x):
        from symex import core as C

        x = C.R.lift(x)
        if x.is_const() and x.const_value() == 2:
            r = C.sym_var('ln2', sign='+')
            return r
        raise C.Unsupported('log of other values')
