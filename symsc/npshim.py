"""numpy stand-in injected into a module under test as its global `np`: symbolic pi,
everything else falls through to the real numpy unless overridden by a harness."""
from __future__ import annotations

import numpy as _np

from symex import core as C
from symex import terms as T


class NPShim:
    def __init__(self, **overrides):
        self._over = dict(overrides)

    @property
    def pi(self):
        return C.R(T.PI())

    def __getattr__(self, name):
        if name.startswith('__'):
            raise AttributeError(name)
        if name in self._over:
            return self._over[name]
        return getattr(_np, name)
