"""Units for the symbolic scipp shim: dimension vector x scale monomial (DESIGN 3.2).

scale = q * prod(sym_i ** e_i), q a positive rational, sym_i named positive symbols
('pi' or harness-declared scale factors), e_i rational.  Equality is syntactic.
"""
from __future__ import annotations

import re
from fractions import Fraction

from symex import terms as T

class _Sentinel:
    def __init__(self, n):
        self.n = n

    def __repr__(self):
        return self.n


DEFAULT = _Sentinel('DEFAULT')
SAME = _Sentinel('SAME')

BASE = ('m', 'kg', 's', 'A', 'K', 'mol', 'cd', 'rad', 'counts')
NB = len(BASE)


class UnitError(RuntimeError):
    pass


def _dim(**kw):
    return tuple(Fraction(kw.get(b, 0)) for b in BASE)


ZERO_DIM = _dim()


class Unit:
    __slots__ = ('dim', 'q', 'syms', '_h')

    def __init__(self, dim=ZERO_DIM, q=Fraction(1), syms=None):
        if isinstance(dim, str):
            u = parse_unit(dim)
            dim, q, syms = u.dim, u.q, u.syms
        self.dim = tuple(dim)
        self.q = Fraction(q)
        if isinstance(syms, tuple):
            self.syms = syms
        else:
            d = {k: Fraction(v) for k, v in (syms or {}).items() if v != 0}
            # '#p' stands for the prime p (irrational scale factors such as sqrt(10) of sqrt(mm*m)): keep only the
            # fractional part of its exponent, integer powers are folded into q (keeps equality syntactic)
            for k in [k for k in d if k.startswith('#')]:
                e = d[k]
                whole = e.numerator // e.denominator
                if whole:
                    self.q *= Fraction(int(k[1:])) ** whole
                    e -= whole
                if e:
                    d[k] = e
                else:
                    del d[k]
            self.syms = tuple(sorted(d.items()))
        self._h = None

    # -- algebra
    def _symd(self):
        return dict(self.syms)

    def __mul__(self, o):
        if not isinstance(o, Unit):
            return NotImplemented
        d = self._symd()
        for k, v in o.syms:
            d[k] = d.get(k, 0) + v
        return Unit(tuple(a + b for a, b in zip(self.dim, o.dim, strict=True)), self.q * o.q, d)

    def __truediv__(self, o):
        if not isinstance(o, Unit):
            return NotImplemented
        return self * o ** -1

    def __rtruediv__(self, o):
        if o == 1:
            return self ** -1
        return NotImplemented

    def __rmul__(self, o):
        # number * Unit -> scalar Variable (scipp semantics)
        from .variable import Variable
        if isinstance(o, Variable):
            return NotImplemented
        dt = 'int64' if isinstance(o, int) and not isinstance(o, bool) else 'float64'
        return Variable(dims=(), values=o, unit=self, dtype=dt)

    def __pow__(self, n):
        n = Fraction(n)
        d = {k: v * n for k, v in self.syms}
        if n.denominator == 1:
            q = self.q ** int(n)
        else:
            q, primes = _frac_root(self.q, n)
            for p_, e_ in primes.items():
                d[f'#{p_}'] = d.get(f'#{p_}', 0) + e_
        return Unit(tuple(a * n for a in self.dim), q, d)

    def __eq__(self, o):
        if isinstance(o, str):
            try:
                o = parse_unit(o)
            except UnitError:
                return False
        if o is None or isinstance(o, _Sentinel):
            return False
        if not isinstance(o, Unit):
            return NotImplemented
        return self.dim == o.dim and self.q == o.q and self.syms == o.syms

    def __ne__(self, o):
        r = self.__eq__(o)
        return r if r is NotImplemented else not r

    def __hash__(self):
        if self._h is None:
            self._h = hash((self.dim, self.q, self.syms))
        return self._h

    def same_dim(self, o):
        return self.dim == o.dim

    def scale_rat(self) -> T.Rat:
        r = T.Rat.const(self.q)
        for k, e in self.syms:
            s = T.Rat.const(Fraction(int(k[1:]))) if k.startswith('#') else T.var(k, sign='+')
            if e.denominator == 1:
                r = r * s ** int(e)
            elif e.denominator == 2:
                r = r * T.sqrt(s) ** int(e.numerator)
            else:
                raise NotImplementedError('scale exponent')
        return r

    def factor_to(self, target: 'Unit') -> T.Rat:
        """Multiplier converting a value in self to a value in target."""
        if self.dim != target.dim:
            raise UnitError(f'Conversion from `{self}` to `{target}` is not valid.')
        return (self / target).scale_rat()

    def to_dict(self):
        """scipp.Unit.to_dict: multiplier and the powers of the base units (key absent for a pure scale factor)."""
        d = {'__version__': 2, 'multiplier': self.scale_rat()}
        powers = {b: (int(e) if e.denominator == 1 else float(e)) for b, e in zip(BASE, self.dim, strict=True) if e}
        if powers:
            d['powers'] = powers
        return d

    def sqrt_checked(self):
        for a in self.dim:
            if (a / 2).denominator != 1:
                raise UnitError(f'Unsupported unit as result of sqrt: sqrt({self}).')
        return self ** Fraction(1, 2)

    def __repr__(self):
        parts = []
        for b, e in zip(BASE, self.dim, strict=True):
            if e:
                parts.append(b if e == 1 else f'{b}^{e}')
        sc = '' if self.q == 1 and not self.syms else f'[{self.q}' + ''.join(f'*{k}^{v}' for k, v in self.syms) + ']'
        return f"Unit({sc}{'*'.join(parts) or 'dimensionless'})"

    __str__ = __repr__

    @staticmethod
    def symbolic(name, like):
        """A unit of the dimension of `like` with a symbolic positive scale factor."""
        like = parse_unit(like) if isinstance(like, str) else like
        return Unit(like.dim, 1, {name: 1})


def _factor(n: int) -> dict:
    out = {}
    p = 2
    while p * p <= n and p < 2_000_000:
        while n % p == 0:
            out[p] = out.get(p, 0) + 1
            n //= p
        p += 1 if p == 2 else 2
    if n > 1:
        out[n] = out.get(n, 0) + 1
    return out


def _frac_root(q: Fraction, n: Fraction):
    """q ** n for n = a/2 -> (rational part, {prime: fractional exponent}); real scipp keeps irrational scales."""
    if n.denominator != 2:
        raise NotImplementedError
    rat = Fraction(1)
    primes = {}
    for base, sgn in ((q.numerator, 1), (q.denominator, -1)):
        for p_, e_ in _factor(base).items():
            ex = Fraction(e_ * sgn) * n
            whole = ex.numerator // ex.denominator
            rat *= Fraction(p_) ** whole
            if ex - whole:
                primes[p_] = primes.get(p_, 0) + (ex - whole)
    return rat, {p_: e_ for p_, e_ in primes.items() if e_}


# ---- table -----------------------------------------------------------------
_E = Fraction(1602176634, 10**9) * Fraction(1, 10**19)  # elementary charge, exact SI

_NAMED = {
    'm': (_dim(m=1), 1, {}),
    'g': (_dim(kg=1), Fraction(1, 1000), {}),
    's': (_dim(s=1), 1, {}),
    'A': (_dim(A=1), 1, {}),
    'K': (_dim(K=1), 1, {}),
    'mol': (_dim(mol=1), 1, {}),
    'rad': (_dim(rad=1), 1, {}),
    'deg': (_dim(rad=1), Fraction(1, 180), {'pi': 1}),
    'counts': (_dim(counts=1), 1, {}),
    'count': (_dim(counts=1), 1, {}),
    'dimensionless': (ZERO_DIM, 1, {}),
    'one': (ZERO_DIM, 1, {}),
    '': (ZERO_DIM, 1, {}),
    '1': (ZERO_DIM, 1, {}),
    'angstrom': (_dim(m=1), Fraction(1, 10**10), {}),
    'Å': (_dim(m=1), Fraction(1, 10**10), {}),
    'Å': (_dim(m=1), Fraction(1, 10**10), {}),
    'Hz': (_dim(s=-1), 1, {}),
    'J': (_dim(kg=1, m=2, s=-2), 1, {}),
    'eV': (_dim(kg=1, m=2, s=-2), _E, {}),
    'N': (_dim(kg=1, m=1, s=-2), 1, {}),
    'min': (_dim(s=1), 60, {}),
    'h': (_dim(s=1), 3600, {}),
    'hour': (_dim(s=1), 3600, {}),
    'barn': (_dim(m=2), Fraction(1, 10**28), {}),
    'b': (_dim(m=2), Fraction(1, 10**28), {}),
    'u': (_dim(kg=1), Fraction(166053906660, 10**11) * Fraction(1, 10**27), {}),
    'Da': (_dim(kg=1), Fraction(166053906660, 10**11) * Fraction(1, 10**27), {}),
    'percent': (ZERO_DIM, Fraction(1, 100), {}),
    '%': (ZERO_DIM, Fraction(1, 100), {}),
    'T': (_dim(kg=1, s=-2, A=-1), 1, {}),
    'V': (_dim(kg=1, m=2, s=-3, A=-1), 1, {}),
    'C': (_dim(A=1, s=1), 1, {}),
    'kg': (_dim(kg=1), 1, {}),
}
_PREFIX = {
    'f': Fraction(1, 10**15), 'p': Fraction(1, 10**12), 'n': Fraction(1, 10**9),
    'u': Fraction(1, 10**6), 'µ': Fraction(1, 10**6), 'μ': Fraction(1, 10**6),
    'm': Fraction(1, 10**3), 'c': Fraction(1, 10**2), 'd': Fraction(1, 10), 'k': Fraction(10**3),
    'M': Fraction(10**6), 'G': Fraction(10**9), 'T': Fraction(10**12),
}
_PREFIXABLE = {'m', 'g', 's', 'A', 'K', 'Hz', 'J', 'eV', 'rad', 'N', 'barn', 'b', 'V', 'T', 'mol'}

_cache: dict[str, Unit] = {}


def _name_unit(name: str) -> Unit:
    if name in _NAMED:
        d, q, s = _NAMED[name]
        return Unit(d, q, s)
    for p, f in _PREFIX.items():
        if name.startswith(p) and name[len(p):] in _PREFIXABLE:
            d, q, s = _NAMED[name[len(p):]]
            return Unit(d, q * f, s)
    raise UnitError(f'Failed to convert string `{name}` to a valid unit.')


_TOK = re.compile(r'\s*(\*\*|\^|[*/()]|[-+]?\d+(?:\.\d+)?(?:[eE][-+]?\d+)?|[A-Za-zµμÅÅ%_]+)')


def parse_unit(s) -> Unit:
    if isinstance(s, Unit):
        return s
    if s is None:
        return None
    if s in _cache:
        return _cache[s]
    toks = []
    pos = 0
    st = s.strip()
    while pos < len(st):
        m = _TOK.match(st, pos)
        if not m:
            raise UnitError(f'Failed to convert string `{s}` to a valid unit.')
        toks.append(m.group(1))
        pos = m.end()
    toks.append(None)
    i = [0]

    def peek():
        return toks[i[0]]

    def take():
        t = toks[i[0]]
        i[0] += 1
        return t

    def atom():
        t = take()
        if t == '(':
            u = expr()
            if take() != ')':
                raise UnitError(f'bad unit {s}')
            return u
        if t is None:
            raise UnitError(f'bad unit {s}')
        if re.fullmatch(r'[-+]?\d+(?:\.\d+)?(?:[eE][-+]?\d+)?', t):
            return Unit(ZERO_DIM, Fraction(t), {})
        return _name_unit(t)

    def power():
        u = atom()
        if peek() in ('**', '^'):
            take()
            t = take()
            neg = False
            if t == '(':
                t = take()
                u2 = Fraction(t)
                if take() != ')':
                    raise UnitError(f'bad unit {s}')
                return u ** u2
            return u ** Fraction(t)
        return u

    def expr():
        u = power()
        while peek() in ('*', '/') or (peek() not in (None, ')')):
            if peek() == '*':
                take()
                u = u * power()
            elif peek() == '/':
                take()
                u = u / power()
            else:
                u = u * power()
        return u

    u = expr() if st else Unit()
    if peek() is not None:
        raise UnitError(f'Failed to convert string `{s}` to a valid unit.')
    _cache[s] = u
    return u


class _Units:
    def __getattr__(self, name):
        if name == 'one' or name == 'dimensionless':
            return Unit()
        return parse_unit(name)


units = _Units()
