"""Symbolic scipp Variable (DESIGN 4.2): object arrays of symex.core.R + unit + dtype +
buffer identity with a write log."""
from __future__ import annotations

import itertools
from fractions import Fraction

import numpy as np

from symex import core as C
from symex import terms as T
from symex.core import R, B

from .units import DEFAULT, SAME, Unit, UnitError, parse_unit


class DTypeError(TypeError):
    pass


class DimensionError(RuntimeError):
    pass


class VariancesError(RuntimeError):
    pass


class VariableError(RuntimeError):
    pass


class CoordError(RuntimeError):
    pass


class BinEdgeError(RuntimeError):
    pass


class _DT:
    def __init__(self, name, elem=()):
        self.name = name
        self.elem = elem

    def __eq__(self, o):
        if isinstance(o, str):
            return self.name == o
        if o is float:
            return self.name == 'float64'
        if o is int:
            return self.name == 'int64'
        if o is bool:
            return self.name == 'bool'
        return isinstance(o, _DT) and o.name == self.name

    def __ne__(self, o):
        return not self.__eq__(o)

    def __hash__(self):
        return hash(self.name)

    def __repr__(self):
        return f'DType({self.name!r})'

    __str__ = lambda self: self.name  # noqa: E731


class DType:
    float64 = _DT('float64')
    float32 = _DT('float32')
    int64 = _DT('int64')
    int32 = _DT('int32')
    bool = _DT('bool')
    string = _DT('string')
    datetime64 = _DT('datetime64')
    vector3 = _DT('vector3', (3,))
    linear_transform3 = _DT('linear_transform3', (3, 3))
    rotation3 = _DT('rotation3', (3, 3))
    PyObject = _DT('PyObject')
    DataArray = _DT('DataArray')
    DataArrayView = _DT('DataArrayView')
    VariableView = _DT('VariableView')

    def __new__(cls, x):
        return as_dtype(x)


_FLOATS = ('float64', 'float32')
_INTS = ('int64', 'int32')


def as_dtype(x):
    if x is None:
        return None
    if isinstance(x, _DT):
        return x
    if x is float:
        return DType.float64
    if x is int:
        return DType.int64
    if x is bool:
        return DType.bool
    if x is str:
        return DType.string
    if isinstance(x, str):
        return getattr(DType, x)
    if isinstance(x, np.dtype) or (isinstance(x, type) and issubclass(x, np.generic)):
        return getattr(DType, np.dtype(x).name)
    raise DTypeError(f'bad dtype {x!r}')


class Buffer:
    _ids = itertools.count()

    def __init__(self, origin=None):
        self.id = next(Buffer._ids)
        self.origin = origin
        self.writes = 0


WRITE_LOG: list = []
CONV_LOG: list = []  # (buffer, target unit | None, target dtype | None) of every to/astype/to_unit(copy=False)
ALIAS_LOG: list = []  # (kind, var) for to/astype(copy=False) that returned the operand


def _promote(a: _DT, b: _DT, op):
    an, bn = a.name, b.name
    if 'datetime64' in (an, bn):
        # time points: differences are integers in the unit of the time points; an integer offset gives a time point
        if an == bn == 'datetime64' and op == 'sub':
            return DType.int64
        if an == 'datetime64' and bn in _INTS and op in ('add', 'sub'):
            return DType.datetime64
        if bn == 'datetime64' and an in _INTS and op == 'add':
            return DType.datetime64
        raise DTypeError(f'no {op} between {an} and {bn}')
    if op == 'div' and an in _INTS + ('bool',) and bn in _INTS + ('bool',):
        return DType.float64
    if an == bn:
        return a
    if an in _FLOATS and bn in _FLOATS:
        return DType.float64
    if an in _FLOATS and bn in _INTS + ('bool',):
        return a
    if bn in _FLOATS and an in _INTS + ('bool',):
        return b
    if an in _INTS + ('bool',) and bn in _INTS + ('bool',):
        if 'int64' in (an, bn):
            return DType.int64
        if 'int32' in (an, bn):
            return DType.int32
    raise DTypeError(f'no arithmetic between {an} and {bn}')


def _objarr(x, shape=None):
    a = np.empty(shape if shape is not None else np.shape(x), dtype=object)
    if shape is not None and not isinstance(x, np.ndarray | list | tuple):
        a[...] = x
        return a
    src = np.asarray(x, dtype=object) if not isinstance(x, np.ndarray) else x
    for idx in np.ndindex(a.shape):
        a[idx] = src[idx]
    return a


def _lift_elem(v):
    if isinstance(v, R | B | str) or hasattr(v, '__symscalar__'):
        return v
    if isinstance(v, bool | np.bool_):
        return C.B.const(bool(v))
    return R.lift(v)


def _vlift(a):
    return _map1(_lift_elem, np.asarray(a, dtype=object))


class ObjArray(np.ndarray):
    """Object array of symbolic scalars: astype(float) is the identity (values stay terms).
    Carries the dtype and the rounding-operation count of the Variable it is a view of."""

    _src_rnd = None
    _src_dtype = None

    def __array_finalize__(self, obj):
        if obj is not None:
            self._src_rnd = getattr(obj, '_src_rnd', None)
            self._src_dtype = getattr(obj, '_src_dtype', None)

    def astype(self, dtype, *a, **k):
        try:
            kind = np.dtype(dtype).kind
        except TypeError:
            kind = '?'
        if kind == 'f':
            # values stay terms; the element type the real array would now have is recorded (a view, the source keeps its own)
            out = self.view(ObjArray)
            out._src_dtype = np.dtype(dtype).name
            return out
        return np.asarray(self).astype(dtype, *a, **k)


class Variable:
    __array_priority__ = 2000

    def __init__(self, *, dims=(), values=None, variances=None, unit=DEFAULT, dtype=None, value=None, variance=None,
                 _arr=None, _var=None, _buf=None, _rnd=(0, 0), with_variances=False):
        if _arr is not None:
            self._a = _arr
            self._v = _var
            self.dims = tuple(dims)
            self._unit = unit
            self._dtype = dtype
            self._buf = _buf or Buffer()
            self._rnd = _rnd
            self._bins = None
            return
        if value is not None and values is None:
            values = value
            variances = variance
        dims = tuple(dims) if dims is not None else ()
        dt = as_dtype(dtype)
        arr, inferred = _to_array(values, len(dims), dt)
        if dt is None:
            dt = inferred
        if unit is DEFAULT:
            unit = Unit() if dt.name in _FLOATS + _INTS + ('vector3', 'linear_transform3', 'rotation3') else None
        elif unit is not None:
            unit = parse_unit(unit)
        self._a = arr
        self._v = None
        if variances is not None:
            self._v, _ = _to_array(variances, len(dims), dt)
        self.dims = dims
        if arr.ndim - len(dt.elem) != len(dims):
            raise DimensionError(f'dims {dims} do not match shape {arr.shape}')
        self._unit = unit
        self._dtype = dt
        self._buf = Buffer()
        self._rnd = (0, 0)
        self._bins = None

    # ---------------------------------------------------------------- basic props
    @property
    def unit(self):
        if self._bins is not None:
            return self._bins.unit
        return self._unit

    @unit.setter
    def unit(self, u):
        self._write()
        self._unit = parse_unit(u) if u is not None else None

    @property
    def dtype(self):
        # scipp 25.4 (measured): the dtype of a binned variable is the dtype of its event (data) buffer
        if self._bins is not None:
            return self._bins.dtype
        return self._dtype

    @property
    def elem(self):
        return self._dtype.elem

    @property
    def shape(self):
        return self._a.shape[: len(self.dims)]

    @property
    def sizes(self):
        return dict(zip(self.dims, self.shape, strict=True))

    @property
    def ndim(self):
        return len(self.dims)

    @property
    def dim(self):
        if len(self.dims) != 1:
            raise DimensionError(f'Expected 1 dimension, got {len(self.dims)}')
        return self.dims[0]

    @property
    def size(self):
        return int(np.prod(self.shape)) if self.dims else 1

    @property
    def bins(self):
        return self._bins

    @property
    def aligned(self):
        a = getattr(self, '_aligned', True)
        return a if isinstance(a, bool) else bool(a)

    def __len__(self):
        if not self.dims:
            raise TypeError('len() of scalar variable')
        return self.shape[0]

    def _write(self):
        self._buf.writes += 1
        WRITE_LOG.append(self._buf)

    def _new(self, arr, dims=None, unit=SAME, dtype=None, var=None, rnd=None, buf=None):
        out = self._new0(arr, dims, unit, dtype, var, rnd, buf)
        if self._bins is not None and out._dtype == self._dtype:
            from .bins import Bins
            out._bins = Bins(out)
        return out

    def _new0(self, arr, dims=None, unit=SAME, dtype=None, var=None, rnd=None, buf=None):
        return Variable(
            _arr=arr,
            _var=var,
            dims=self.dims if dims is None else dims,
            unit=self._unit if unit is SAME else unit,
            dtype=dtype or self._dtype,
            _buf=buf,
            _rnd=rnd if rnd is not None else self._rnd,
        )

    # ---------------------------------------------------------------- values
    @property
    def values(self):
        out = self._a.view(ObjArray)
        out._src_rnd = self._rnd
        out._src_dtype = self._dtype.name if self._dtype is not None else None
        return out

    @values.setter
    def values(self, v):
        self._write()
        arr, _ = _to_array(v, len(self.dims), self._dtype)
        self._a[...] = arr

    @property
    def value(self):
        if self.dims:
            raise DimensionError('Expected 0 dimensions')
        return self._a[()] if not self.elem else self._a

    @value.setter
    def value(self, v):
        self._write()
        if self.elem:
            self._a[...] = _to_array(v, 0, self._dtype)[0]
        else:
            self._a[()] = _lift_elem(v)

    @property
    def variances(self):
        return self._v

    @variances.setter
    def variances(self, v):
        self._write()
        self._v = None if v is None else _to_array(v, len(self.dims), self._dtype)[0]

    @property
    def variance(self):
        return None if self._v is None else self._v[()]

    @variance.setter
    def variance(self, v):
        self.variances = v

    def copy(self, deep=True):
        if not deep:
            return self
        if self._bins is not None:
            from .bins import map_contents
            return map_contents(self, lambda d: d.copy())
        out = self._new(self._a.copy(), var=None if self._v is None else self._v.copy())
        return out

    def __copy__(self):
        return self.copy(deep=False)

    def __deepcopy__(self, memo):
        return self.copy()

    # ---------------------------------------------------------------- conversion
    def astype(self, dtype, *, copy=True):
        dt = as_dtype(dtype)
        if self._bins is not None:
            from .bins import map_contents
            if self._bins.dtype == dt and not copy:
                ALIAS_LOG.append(('astype', self))
                return self
            return map_contents(self, lambda d: d.astype(dt, copy=True))
        if not copy:
            CONV_LOG.append((self._buf, None, dt))
        if dt == self._dtype:
            if not copy:
                ALIAS_LOG.append(('astype', self))
                return self
            return self.copy()
        if dt.elem != self.elem:
            raise DTypeError(f'cannot convert {self._dtype} to {dt}')
        if self._bins is not None:
            out = self._new(self._a, dtype=self._dtype)
            out._bins = self._bins.astype(dt)
            return out
        a = self._a
        if self._dtype.name == 'bool' and dt.name in _INTS + _FLOATS:
            return self._new(_map1(lambda b: R.lift(1) if bool(b) else R.lift(0), a), dtype=dt, unit=self._unit)
        if dt.name in _INTS and self._dtype.name in _FLOATS:
            # numpy/scipp truncate towards zero: an integer k with |k - x| < 1 (and k = x when x is an integer constant)
            def trunc(x):
                x = R.lift(x)
                if x.is_const():
                    import math
                    return R.lift(math.trunc(x.const_value()))
                k = R(T.fresh('trunc', is_int=True))
                C.CTX.definitions.append((k - x < 1) & (x - k < 1))
                return k
            return self._new(_map1(trunc, a), dtype=dt, unit=self._unit)
        rnd = self._rnd
        if dt.name in _FLOATS:
            rnd = _rnd_add(rnd, dt)
        if dt.name == 'float32' and self._dtype.name != 'float32':
            # a wider value is materialised in single precision: its magnitude must fit the float32 range (harness obligation)
            for idx_ in np.ndindex(a.shape):
                F32_LOG.append(a[idx_])
        return self._new(a.copy(), dtype=dt, var=None if self._v is None else self._v.copy(), rnd=rnd)

    def to(self, *, unit=None, dtype=None, copy=True):
        if unit is None and dtype is None:
            raise ValueError('Must provide dtype or unit or both')
        out = self
        if dtype is not None:
            out = out.astype(dtype, copy=False) if unit is not None or not copy else out.astype(dtype, copy=True)
        if unit is not None:
            out = to_unit(out, unit, copy=copy if out is self else False)
        elif out is self and not copy:
            pass
        return out

    # ---------------------------------------------------------------- indexing
    def _slice(self, key):
        if isinstance(key, tuple) and len(key) == 2 and isinstance(key[0], str):
            dim, idx = key
        elif isinstance(key, int | slice | R | np.integer) or (isinstance(key, Variable)):
            if isinstance(key, Variable) and key.dtype == DType.bool and key.dims:
                dim, idx = key.dims[0], key
            else:
                if len(self.dims) != 1:
                    raise DimensionError('positional index needs 1-d')
                dim, idx = self.dims[0], key
        elif key is Ellipsis:
            return self.dims, (Ellipsis,), self.dims
        else:
            raise C.Unsupported(f'index {key!r}')
        if dim not in self.dims:
            raise DimensionError(f'Expected dimension to be in {self.dims}, got {dim}.')
        ax = self.dims.index(dim)
        if isinstance(idx, Variable):
            if idx.dtype == DType.bool:
                keep = [i for i, b in enumerate(idx._a.flat) if bool(b)]
                return self.dims, (slice(None),) * ax + (keep,), dim
            raise C.Unsupported('label-based indexing')
        if isinstance(idx, R):
            idx = idx.__index__()
        if isinstance(idx, slice):
            idx = slice(*[None if x is None else int(x) for x in (idx.start, idx.stop, idx.step)])
            nd = self.dims
        else:
            idx = int(idx)
            n = self.shape[ax]
            if idx >= n or idx < -n:
                raise IndexError(f'The requested index {idx} is out of range. Dimension size is {n}')
            nd = self.dims[:ax] + self.dims[ax + 1:]
        sel = (slice(None),) * ax + (idx,)
        return nd, sel, dim

    def __getitem__(self, key):
        if self._bins is not None:
            return self._bins.getitem(self, key)
        nd, sel, _ = self._slice(key)
        out = self._new(_as_arr(self._a[sel]), dims=nd, var=None if self._v is None else _as_arr(self._v[sel]), buf=self._buf)
        return out

    def __setitem__(self, key, val):
        nd, sel, _ = self._slice(key)
        self._write()
        if isinstance(val, Variable):
            if val.unit != self.unit:
                raise UnitError(f'Expected {self.unit}, got {val.unit}')
            tgt = self._new(self._a[sel], dims=nd)
            v = _broadcast_to(val, tgt.dims, tgt.shape)
            self._a[sel] = v._a
            if self._v is not None and v._v is not None:
                self._v[sel] = v._v
        elif isinstance(val, np.ndarray | list):
            arr = _vlift(np.asarray(val, dtype=object))
            self._a[sel] = arr
        else:
            raise C.Unsupported('setitem with non-variable')

    def __iter__(self):
        if not self.dims:
            raise TypeError('iteration over a 0-D variable')
        for i in range(self.shape[0]):
            yield self[self.dims[0], i]

    # ---------------------------------------------------------------- fields
    @property
    def fields(self):
        if self._dtype != DType.vector3:
            return None
        return _Fields(self)

    # ---------------------------------------------------------------- shape ops
    def transpose(self, dims=None):
        dims = tuple(reversed(self.dims)) if dims is None else tuple(dims)
        perm = [self.dims.index(d) for d in dims] + list(range(len(self.dims), self._a.ndim))
        return self._new(self._a.transpose(perm), dims=dims,
                         var=None if self._v is None else self._v.transpose(perm), buf=self._buf)

    def broadcast(self, dims=None, shape=None, sizes=None):
        if sizes is not None:
            dims, shape = tuple(sizes), tuple(sizes.values())
        return _broadcast_to(self, tuple(dims), tuple(shape)).copy()

    def flatten(self, dims=None, to=None):
        dims = self.dims if dims is None else tuple(dims)
        if tuple(dims) != self.dims:
            raise C.Unsupported('partial flatten')
        n = self.size
        return self._new(self._a.reshape((n, *self.elem)), dims=(to,),
                         var=None if self._v is None else self._v.reshape((n, *self.elem)))

    def fold(self, dim, sizes=None, dims=None, shape=None):
        if sizes is not None:
            dims, shape = tuple(sizes), tuple(sizes.values())
        ax = self.dims.index(dim)
        shape = list(shape)
        if -1 in shape:
            k = shape.index(-1)
            shape[k] = self.shape[ax] // int(-np.prod(shape))
        ns = self.shape[:ax] + tuple(shape) + self.shape[ax + 1:] + self.elem
        nd = self.dims[:ax] + tuple(dims) + self.dims[ax + 1:]
        return self._new(self._a.reshape(ns), dims=nd, var=None if self._v is None else self._v.reshape(ns))

    def squeeze(self, dim=None):
        ds = [d for d, s in zip(self.dims, self.shape, strict=True) if s == 1] if dim is None else ([dim] if isinstance(dim, str) else list(dim))
        axes = tuple(self.dims.index(d) for d in ds)
        nd = tuple(d for d in self.dims if d not in ds)
        return self._new(np.squeeze(self._a, axis=axes), dims=nd,
                         var=None if self._v is None else np.squeeze(self._v, axis=axes), buf=self._buf)

    def rename_dims(self, d=None, **kw):
        m = {**(d or {}), **kw}
        return self._new(self._a, dims=tuple(m.get(x, x) for x in self.dims), var=self._v, buf=self._buf)

    rename = rename_dims

    # ---------------------------------------------------------------- arithmetic
    def __add__(self, o):
        return binary(self, o, 'add')

    def __radd__(self, o):
        return binary(o, self, 'add')

    def __sub__(self, o):
        return binary(self, o, 'sub')

    def __rsub__(self, o):
        return binary(o, self, 'sub')

    def __mul__(self, o):
        if isinstance(o, Unit):
            return self._new(self._a.copy(), unit=self._unit * o)
        return binary(self, o, 'mul')

    def __rmul__(self, o):
        return binary(o, self, 'mul')

    def __truediv__(self, o):
        if isinstance(o, Unit):
            return self._new(self._a.copy(), unit=self._unit / o)
        return binary(self, o, 'div')

    def __rtruediv__(self, o):
        return binary(o, self, 'div')

    def __floordiv__(self, o):
        return binary(self, o, 'floordiv')

    def __mod__(self, o):
        return binary(self, o, 'mod')

    def __pow__(self, o):
        return power(self, o)

    def __neg__(self):
        return self._new(_map1(lambda x: -x, self._a), var=None if self._v is None else self._v.copy())

    def __abs__(self):
        return unary(self, 'abs')

    def __iadd__(self, o):
        return inplace(self, o, 'add')

    def __isub__(self, o):
        return inplace(self, o, 'sub')

    def __imul__(self, o):
        return inplace(self, o, 'mul')

    def __itruediv__(self, o):
        return inplace(self, o, 'div')

    # comparisons (element-wise, bool variable)
    def __lt__(self, o):
        return compare(self, o, '<')

    def __le__(self, o):
        return compare(self, o, '<=')

    def __gt__(self, o):
        return compare(self, o, '>')

    def __ge__(self, o):
        return compare(self, o, '>=')

    def __eq__(self, o):
        return compare(self, o, '==')

    def __ne__(self, o):
        return compare(self, o, '!=')

    __hash__ = object.__hash__

    def __and__(self, o):
        return logical(self, o, 'and')

    def __or__(self, o):
        return logical(self, o, 'or')

    def __xor__(self, o):
        return logical(self, o, 'xor')

    def __invert__(self):
        if self._dtype != DType.bool:
            raise DTypeError('~ on non-bool')
        return self._new(_map1(lambda b: ~b, self._a))

    def __bool__(self):
        if self.dims:
            raise RuntimeError('The truth value of a variable with dims is ambiguous.')
        if self._dtype != DType.bool:
            raise RuntimeError('The truth value of a non-bool variable')
        return bool(self._a[()])

    def __float__(self):
        return float(self.value)

    def __int__(self):
        return int(self.value)

    def __index__(self):
        return self.value.__index__()

    # reductions as methods
    def sum(self, dim=None):
        return reduce_(self, 'sum', dim)

    def mean(self, dim=None):
        return reduce_(self, 'mean', dim)

    def min(self, dim=None):
        return reduce_(self, 'min', dim)

    def max(self, dim=None):
        return reduce_(self, 'max', dim)

    def all(self, dim=None):
        return reduce_(self, 'all', dim)

    def any(self, dim=None):
        return reduce_(self, 'any', dim)

    def __format__(self, spec):
        return f'<Variable {self.dims} {self._unit}>'

    def __repr__(self):
        return f'<symsc.Variable dims={self.dims} shape={self.shape} unit={self._unit} dtype={self._dtype.name} values={self._a.tolist() if self._a.size <= 9 else "..."}>'


class _Fields:
    def __init__(self, v):
        self._v = v

    def _get(self, k):
        v = self._v
        return v._new(v._a[..., k], dtype=DType.float64, buf=v._buf)

    x = property(lambda s: s._get(0))
    y = property(lambda s: s._get(1))
    z = property(lambda s: s._get(2))


def _as_arr(x):
    if isinstance(x, np.ndarray):
        return x
    a = np.empty((), dtype=object)
    a[()] = x
    return a


F32_LOG: list = []
F32_OPS_LOG: list = []
# every product / quotient / power whose RESULT is a float32 scalar element (out-of-place arithmetic in single precision)
F32_RES_LOG: list = []


def _rnd_add(rnd, dt):
    if dt.name == 'float32':
        return (rnd[0], rnd[1] + 1)
    return (rnd[0] + 1, rnd[1])


def _map1(f, a):
    if not a.size:
        return a.copy()
    r = np.frompyfunc(f, 1, 1)(a)
    if not isinstance(r, np.ndarray):
        x = np.empty((), dtype=object)
        x[()] = r
        r = x
    return r


def _to_array(values, ndim, dt):
    """-> (object ndarray, inferred dtype)."""
    if isinstance(values, Variable):
        raise C.Unsupported('variable as values')
    inferred = dt
    if isinstance(values, np.ndarray) and values.dtype != object:
        if inferred is None:
            inferred = as_dtype(values.dtype) if values.dtype.kind in 'fib' else DType.string
        arr = _vlift(values.astype(object)) if values.size else np.empty(values.shape, dtype=object)
        if not isinstance(arr, np.ndarray):
            arr = _objarr(arr, ())
        return arr.astype(object), inferred
    if isinstance(values, R | B | int | float | Fraction | bool | str | np.generic) or hasattr(values, '__symscalar__'):
        if inferred is None:
            if isinstance(values, B | bool | np.bool_):
                inferred = DType.bool
            elif isinstance(values, int | np.integer):
                inferred = DType.int64
            elif isinstance(values, str):
                inferred = DType.string
            elif isinstance(values, R) and values.t is not None and _is_int_term(values):
                inferred = DType.int64
            else:
                inferred = DType.float64
        a = np.empty((), dtype=object)
        a[()] = _lift_elem(values) if inferred.name != 'string' else values
        return a, inferred
    # nested sequence
    elem = dt.elem if dt is not None else ()
    a = np.array(values, dtype=object)
    if a.ndim != ndim + len(elem):
        # sequences of R may be mangled by numpy; rebuild
        a = _objarr(values)
    if inferred is None:
        flat = [x for x in a.flat]
        if flat and all(isinstance(x, bool | np.bool_ | B) for x in flat):
            inferred = DType.bool
        elif flat and all(isinstance(x, int | np.integer) and not isinstance(x, bool) for x in flat):
            inferred = DType.int64
        elif flat and all(isinstance(x, str) for x in flat):
            inferred = DType.string
        else:
            inferred = DType.float64
    if inferred.name != 'string' and a.size:
        a = _vlift(a)
    return a, inferred


def _is_int_term(r: R):
    t = r.t
    if t.den:
        return False
    U = T.universe()
    for m, c in t.num.t.items():
        if c.denominator != 1:
            return False
        for i, _ in m:
            if not U.atoms[i].is_int:
                return False
    return True


# ---------------------------------------------------------------- broadcasting


def _as_var(x, like=None):
    if isinstance(x, Variable):
        return x
    if isinstance(x, float | np.floating):
        v = Variable(dims=(), values=R.lift(x), dtype=DType.float64)
        v._pyscalar = 'float'
        return v
    if isinstance(x, int | np.integer) and not isinstance(x, bool):
        v = Variable(dims=(), values=R.lift(int(x)), dtype=DType.int64)
        v._pyscalar = 'int'
        return v
    if isinstance(x, R):
        v = Variable(dims=(), values=x, dtype=DType.float64)
        v._pyscalar = 'float'
        return v
    if isinstance(x, Fraction):
        v = Variable(dims=(), values=R.lift(x), dtype=DType.float64)
        v._pyscalar = 'float'
        return v
    return None


def _merge_dims(a: Variable, b: Variable):
    dims = list(a.dims)
    sizes = dict(a.sizes)
    for d, s in b.sizes.items():
        if d in sizes:
            if sizes[d] != s:
                raise DimensionError(f'Mismatch in dimension {d}: {sizes[d]} vs {s}')
        else:
            dims.append(d)
            sizes[d] = s
    # scipp puts the dims of the operand with more dims first if a's dims are a subset
    if set(a.dims) < set(b.dims) and all(d in b.dims for d in a.dims):
        dims = list(b.dims)
    return tuple(dims), tuple(sizes[d] for d in dims)


def _expand(v: Variable, dims, arr=None):
    """View of v's array aligned to dims (size-1 axes for missing dims)."""
    a = v._a if arr is None else arr
    perm = [v.dims.index(d) for d in dims if d in v.dims]
    ne = len(v.elem)
    a = a.transpose(perm + list(range(len(v.dims), len(v.dims) + ne)))
    shape = []
    k = 0
    for d in dims:
        if d in v.dims:
            shape.append(a.shape[k])
            k += 1
        else:
            shape.append(1)
    return a.reshape(tuple(shape) + a.shape[k:])


def _broadcast_to(v: Variable, dims, shape):
    for d in v.dims:
        if d not in dims:
            raise DimensionError(f'cannot broadcast {v.dims} to {dims}')
    a = np.broadcast_to(_expand(v, dims), tuple(shape) + v.elem)
    var = None if v._v is None else np.broadcast_to(_expand(v, dims, v._v), tuple(shape) + v.elem)
    return v._new(a, dims=dims, var=var, buf=v._buf)


def _elem_op(op):
    if op == 'add':
        return lambda x, y: x + y
    if op == 'sub':
        return lambda x, y: x - y
    if op == 'mul':
        return lambda x, y: x * y
    if op == 'div':
        return lambda x, y: x / y
    if op == 'floordiv':
        return lambda x, y: C.floordiv(x, y)
    if op == 'mod':
        return lambda x, y: x % y
    raise AssertionError(op)


def _apply2(f, a, b):
    if a.size == 0 or b.size == 0:
        return np.empty(np.broadcast_shapes(a.shape, b.shape), dtype=object)
    r = np.frompyfunc(f, 2, 1)(a, b)
    if not isinstance(r, np.ndarray):
        x = np.empty((), dtype=object)
        x[()] = r
        r = x
    return r


def _result_dtype(a: Variable, b: Variable, op):
    da, db = a._dtype, b._dtype
    pa, pb = getattr(a, '_pyscalar', None), getattr(b, '_pyscalar', None)
    if pa == 'int' and db.name in _FLOATS + _INTS:
        return db if op != 'div' or db.name in _FLOATS else DType.float64
    if pb == 'int' and da.name in _FLOATS + _INTS:
        return da if op != 'div' or da.name in _FLOATS else DType.float64
    return _promote(da, db, op)


def binary(a, b, op, out=None):
    a0, b0 = a, b
    a = _as_var(a)
    b = _as_var(b)
    if a is None or b is None:
        return NotImplemented
    if a._bins is not None or b._bins is not None:
        from .bins import binned_binary

        return binned_binary(a, b, op)
    ea, eb = a.elem, b.elem
    # units
    if op in ('add', 'sub'):
        if a.unit != b.unit:
            raise UnitError(f'Cannot {op} {a.unit} and {b.unit}.')
        unit = a.unit
    elif op == 'mul':
        unit = None if a.unit is None and b.unit is None else (a.unit or Unit()) * (b.unit or Unit())
    elif op == 'div':
        unit = None if a.unit is None and b.unit is None else (a.unit or Unit()) / (b.unit or Unit())
    elif op in ('floordiv',):
        unit = (a.unit or Unit()) / (b.unit or Unit())
    elif op == 'mod':
        if a.unit != b.unit:
            raise UnitError('mod units')
        unit = a.unit
    dims, shape = _merge_dims(a, b)
    xa = _expand(a, dims)
    xb = _expand(b, dims)
    # dtype + element kind
    if not ea and not eb:
        dt = _result_dtype(a, b, op)
        if dt.name in ('string', 'bool') and op != 'mul':
            raise DTypeError(f'{op} on {dt}')
        res = _apply2(_elem_op(op), xa, xb)
    elif ea == (3,) and eb == (3,):
        if op not in ('add', 'sub'):
            raise DTypeError(f'vector {op} vector')
        dt = DType.vector3
        res = _apply2(_elem_op(op), xa, xb)
    elif ea == (3,) and not eb:
        if op not in ('mul', 'div'):
            raise DTypeError(f'vector {op} scalar')
        dt = DType.vector3
        res = _apply2(_elem_op(op), xa, xb[..., None])
    elif not ea and eb == (3,):
        if op != 'mul':
            raise DTypeError(f'scalar {op} vector')
        dt = DType.vector3
        res = _apply2(_elem_op(op), xa[..., None], xb)
    elif ea == (3, 3) and eb == (3,):
        if op != 'mul':
            raise DTypeError('matrix op vector')
        dt = DType.vector3
        res = _matvec(xa, xb)
    elif ea == (3, 3) and eb == (3, 3):
        if op != 'mul':
            raise DTypeError('matrix op matrix')
        dt = DType.linear_transform3 if 'linear_transform3' in (a._dtype.name, b._dtype.name) else DType.rotation3
        res = _matmat(xa, xb)
    elif ea == (3, 3) and not eb:
        if op not in ('mul', 'div') or a._dtype == DType.rotation3:
            raise DTypeError('matrix op scalar')
        dt = a._dtype
        res = _apply2(_elem_op(op), xa, xb[..., None, None])
    elif not ea and eb == (3, 3):
        if op != 'mul' or b._dtype == DType.rotation3:
            raise DTypeError('scalar op matrix')
        dt = b._dtype
        res = _apply2(_elem_op(op), xa[..., None, None], xb)
    else:
        raise DTypeError(f'{a._dtype} {op} {b._dtype}')
    if res.shape != tuple(shape) + dt.elem:
        res = np.broadcast_to(res, tuple(shape) + dt.elem).copy()
    var = _prop_var(a, b, xa, xb, op, res)
    rnd = (a._rnd[0] + b._rnd[0], a._rnd[1] + b._rnd[1])
    if dt.name in _FLOATS or dt.elem:
        rnd = _rnd_add(rnd, dt if dt.name in _FLOATS else DType.float64)
    if dt.name == 'float32' and op in ('mul', 'div') and res.size <= 64:
        for idx_ in np.ndindex(res.shape):
            F32_RES_LOG.append(res[idx_])
    return Variable(_arr=res, _var=var, dims=dims, unit=unit, dtype=dt, _rnd=rnd)


def _prop_var(a, b, xa, xb, op, res):
    if a._v is None and b._v is None:
        return None
    if a.elem or b.elem:
        raise VariancesError('variances on vectors')
    if a._v is not None and b._v is not None and (a.dims != b.dims) and op in ('mul', 'div', 'add', 'sub'):
        if set(a.dims) != set(b.dims):
            raise VariancesError('Cannot broadcast object with variances as that would introduce unwanted correlations.')
    zero = R.lift(0)
    va = _expand(a, _merge_dims(a, b)[0], a._v) if a._v is not None else None
    vb = _expand(b, _merge_dims(a, b)[0], b._v) if b._v is not None else None
    if (va is None and a.shape != res.shape and b._v is not None and False):
        pass
    if a._v is None and b._v is not None and tuple(res.shape) != tuple(xb.shape):
        raise VariancesError('Cannot broadcast object with variances as that would introduce unwanted correlations.')
    if b._v is None and a._v is not None and tuple(res.shape) != tuple(xa.shape):
        raise VariancesError('Cannot broadcast object with variances as that would introduce unwanted correlations.')
    za = va if va is not None else np.full(xa.shape, zero, dtype=object)
    zb = vb if vb is not None else np.full(xb.shape, zero, dtype=object)
    if op in ('add', 'sub'):
        return _apply2(lambda p, q: p + q, za, zb)
    if op == 'mul':
        f = np.frompyfunc(lambda x, y, p, q: p * y * y + q * x * x, 4, 1)
        return f(xa, xb, za, zb)
    if op == 'div':
        f = np.frompyfunc(lambda x, y, p, q: (p + q * x * x / (y * y)) / (y * y), 4, 1)
        return f(xa, xb, za, zb)
    raise VariancesError(op)


def _matvec(m, v):
    shape = np.broadcast_shapes(m.shape[:-2], v.shape[:-1])
    m = np.broadcast_to(m, shape + (3, 3))
    v = np.broadcast_to(v, shape + (3,))
    out = np.empty(shape + (3,), dtype=object)
    for idx in np.ndindex(shape):
        for i in range(3):
            out[idx + (i,)] = m[idx + (i, 0)] * v[idx + (0,)] + m[idx + (i, 1)] * v[idx + (1,)] + m[idx + (i, 2)] * v[idx + (2,)]
    return out


def _matmat(a, b):
    shape = np.broadcast_shapes(a.shape[:-2], b.shape[:-2])
    a = np.broadcast_to(a, shape + (3, 3))
    b = np.broadcast_to(b, shape + (3, 3))
    out = np.empty(shape + (3, 3), dtype=object)
    for idx in np.ndindex(shape):
        for i in range(3):
            for j in range(3):
                out[idx + (i, j)] = a[idx + (i, 0)] * b[idx + (0, j)] + a[idx + (i, 1)] * b[idx + (1, j)] + a[idx + (i, 2)] * b[idx + (2, j)]
    return out


def inplace(a: Variable, b, op):
    if a._bins is not None:
        from .bins import binned_inplace

        return binned_inplace(a, b, op)
    r = binary(a, b, op)
    if r is NotImplemented:
        return r
    if r.dims != a.dims or r.shape != a.shape:
        if set(r.dims) == set(a.dims) and r.size == a.size:
            r = r.transpose(a.dims)
        else:
            raise DimensionError(f'in-place {op}: result dims {r.dims} do not fit {a.dims}')
    if r._dtype != a._dtype:
        if a._dtype.name in _INTS and r._dtype.name in _FLOATS:
            raise DTypeError(f'in-place {op} would change dtype {a._dtype} -> {r._dtype}')
        # float32 op= float64 keeps float32 storage
    if (r.unit != a.unit) and not (a.unit is None and r.unit is None):
        # scipp allows unit change in place only for non-slices; modelled as allowed
        a._unit = r.unit
    a._write()
    a._a[...] = r._a
    if a._dtype.name == 'float32' and op in ('mul', 'div'):
        # the product / quotient is stored in single precision whatever the other operand was: its magnitude matters
        for idx_ in np.ndindex(r._a.shape):
            F32_OPS_LOG.append(r._a[idx_])
    if r._v is not None:
        if a._v is None:
            raise VariancesError('in-place op would add variances')
        a._v[...] = r._v
    rn = r._rnd
    if a._dtype.name == 'float32' and r._dtype.name == 'float64':
        rn = (rn[0] - 1, rn[1] + 1)
    a._rnd = rn
    return a


def power(a: Variable, n):
    if isinstance(n, Variable):
        if n.dims:
            raise C.Unsupported('array exponent')
        if n.unit not in (None, Unit()):
            raise UnitError('exponent must be dimensionless')
        ndt = n._dtype
        nv = n.value
        if not isinstance(nv, R) or not nv.is_const():
            raise C.Unsupported('symbolic exponent')
        nv = nv.const_value()
        if a._dtype.name in _INTS and ndt.name in _INTS and (a._dtype != ndt or a._dtype.name == 'int32'):
            # measured (scipp 25.4): pow supports (int64, int64) only among integer pairs
            raise DTypeError(f"'pow' does not support dtypes '{a._dtype.name}', '{ndt.name}'")
        # scipp 25.4 (measured): a float base keeps its dtype whatever the exponent's dtype; int ** float -> float64
        dt = (a._dtype if a._dtype.name in _FLOATS else _promote(a._dtype, ndt, 'pow')) if a._bins is None else None
    else:
        nv = Fraction(n)
        if a._dtype.name == 'int32' and isinstance(n, int) and a._bins is None:
            raise DTypeError("'pow' does not support dtypes 'int32', 'int64'")
        dt = a._dtype if isinstance(n, int) or a._dtype.name in _FLOATS else DType.float64
    if a._bins is not None:
        from .bins import binned_unary

        return binned_unary(a, lambda v: power(v, n))
    if nv.denominator != 1 and a.unit is not None and a.unit != Unit():
        unit = a.unit ** nv
    else:
        unit = None if a.unit is None else a.unit ** nv
    if a._dtype.name in _INTS and nv < 0:
        raise C.Unsupported('negative integer power of integer variable')
    res = _map1(lambda x: x ** nv, a._a)
    if dt is not None and dt.name == 'float32' and res.size <= 64:
        for idx_ in np.ndindex(res.shape):
            F32_RES_LOG.append(res[idx_])
    var = None
    if a._v is not None:
        var = np.frompyfunc(lambda x, v: v * (nv * x ** (nv - 1)) ** 2, 2, 1)(a._a, a._v)
    return Variable(_arr=res, _var=var, dims=a.dims, unit=unit, dtype=dt, _rnd=_rnd_add(a._rnd, dt) if dt.name in _FLOATS else a._rnd)


def compare(a, b, op):
    a = _as_var(a)
    b = _as_var(b)
    if a is None or b is None:
        return NotImplemented
    if a._bins is not None or b._bins is not None:
        from .bins import binned_binary_fn

        return binned_binary_fn(a, b, lambda x, y: compare(x, y, op))
    if a.elem or b.elem:
        if op not in ('==', '!='):
            raise DTypeError('ordering of vectors')
    if a.unit != b.unit:
        raise UnitError(f'Cannot compare {a.unit} and {b.unit}.')
    dims, shape = _merge_dims(a, b)
    xa, xb = _expand(a, dims), _expand(b, dims)
    if a._dtype.name == 'string' or b._dtype.name == 'string':
        f = {'==': lambda x, y: C.B.const(x == y), '!=': lambda x, y: C.B.const(x != y)}[op]
    else:
        f = {'<': lambda x, y: x < y, '<=': lambda x, y: x <= y, '>': lambda x, y: x > y,
             '>=': lambda x, y: x >= y, '==': lambda x, y: x == y, '!=': lambda x, y: x != y}[op]
    res = _apply2(f, xa, xb)
    if a.elem:
        red = np.empty(res.shape[: len(dims)], dtype=object)
        for idx in np.ndindex(red.shape):
            items = list(res[idx].flat)
            red[idx] = C.all_of(items) if op == '==' else C.any_of(items)
        res = red
    if res.shape != tuple(shape):
        res = np.broadcast_to(res, shape).copy()
    return Variable(_arr=res, dims=dims, unit=None, dtype=DType.bool)


def logical(a, b, op):
    b = b if isinstance(b, Variable) else Variable(dims=(), values=bool(b))
    if a._dtype != DType.bool or b._dtype != DType.bool:
        raise DTypeError('logical op on non-bool')
    dims, shape = _merge_dims(a, b)
    f = {'and': lambda x, y: x & y, 'or': lambda x, y: x | y, 'xor': lambda x, y: x ^ y}[op]
    res = _apply2(f, _expand(a, dims), _expand(b, dims))
    return Variable(_arr=np.broadcast_to(res, shape).copy(), dims=dims, unit=None, dtype=DType.bool)


# ---------------------------------------------------------------- unary / functions


def _need_float(v, name):
    if v._dtype.name not in _FLOATS:
        raise DTypeError(f"'{name}' does not support dtype {v._dtype.name}")


def _angle_to_rad(v: Variable, name):
    u = v.unit
    if u is None or u.dim != parse_unit('rad').dim:
        raise UnitError(f'{name} expects an angle, got {u}')
    f = u.factor_to(parse_unit('rad'))
    return f


def unary(v: Variable, name, out=None):
    if v._bins is not None:
        from .bins import binned_unary

        return binned_unary(v, lambda x: unary(x, name))
    unit = v.unit
    dt = v._dtype
    if name == 'abs':
        f = abs
    elif name == 'sqrt':
        _need_float(v, name)
        unit = v.unit.sqrt_checked() if v.unit is not None else None
        f = C.rsqrt
    elif name in ('sin', 'cos', 'tan'):
        _need_float(v, name)
        k = R(_angle_to_rad(v, name))
        if name == 'tan':
            f = lambda x: C.rfn('sin', x * k) / C.rfn('cos', x * k)  # noqa: E731
        else:
            f = lambda x: C.rfn(name, x * k)  # noqa: E731
        unit = Unit()
    elif name in ('asin', 'acos', 'atan'):
        _need_float(v, name)
        if v.unit != Unit():
            raise UnitError(f'{name} expects dimensionless')
        unit = parse_unit('rad')
        if name == 'asin':
            def f(x):
                if hasattr(x, 'sym_fn'):
                    return C.rfn('asin', x)
                if not (bool(x >= -1) and bool(x <= 1)):
                    return C.NAN
                sg = x.t.sign() if x.special is None else None
                return C.rfn('asin', x, sign='0+' if sg in ('+', '0+', '0') else ('0-' if sg in ('-', '0-') else None))
        elif name == 'acos':
            def f(x):
                if hasattr(x, 'sym_fn'):
                    return C.rfn('acos', x)
                if not (bool(x >= -1) and bool(x <= 1)):
                    return C.NAN
                return C.rfn('acos', x)
        else:
            f = lambda x: C.rfn('atan', x)  # noqa: E731
    elif name == 'exp':
        _need_float(v, name)
        if v.unit != Unit():
            raise UnitError('exp expects dimensionless')
        f = lambda x: C.rfn('exp', x, sign='+')  # noqa: E731
    elif name == 'log':
        _need_float(v, name)
        if v.unit != Unit():
            raise UnitError('log expects dimensionless')

        def f(x):
            if not bool(x > 0):
                return C.NAN if bool(x < 0) else C.NINF
            return C.rfn('log', x)
    elif name == 'reciprocal':
        _need_float(v, name)
        unit = Unit() / v.unit
        f = lambda x: 1 / x  # noqa: E731
    elif name == 'round':
        _need_float(v, name)
        f = C.sym_round
    elif name == 'floor':
        _need_float(v, name)
        f = lambda x: C.floordiv(x, 1)  # noqa: E731
    elif name == 'ceil':
        _need_float(v, name)
        f = lambda x: -C.floordiv(-x, 1)  # noqa: E731
    elif name == 'isnan':
        res = _map1(lambda x: C.B.const(x.special == 'nan'), v._a)
        return Variable(_arr=res, dims=v.dims, unit=None, dtype=DType.bool)
    elif name == 'isfinite':
        res = _map1(lambda x: C.B.const(x.special is None), v._a)
        return Variable(_arr=res, dims=v.dims, unit=None, dtype=DType.bool)
    else:
        raise C.Unsupported(f'unary {name}')
    res = _map1(f, v._a)
    var = None
    if v._v is not None:
        if name == 'sqrt':
            var = np.frompyfunc(lambda x, s: s / (4 * x), 2, 1)(v._a, v._v)
        elif name == 'abs':
            var = v._v.copy()
        elif name == 'reciprocal':
            var = np.frompyfunc(lambda x, s: s / (x * x * x * x), 2, 1)(v._a, v._v)
        else:
            raise C.Unsupported(f'variances through {name}')
    r = Variable(_arr=res, _var=var, dims=v.dims, unit=unit, dtype=dt, _rnd=_rnd_add(v._rnd, dt) if name != 'abs' else v._rnd)
    return _into(out, r)


def _into(out, r: Variable):
    if out is None:
        return r
    if out.dims != r.dims or out.shape != r.shape:
        raise DimensionError('out= shape mismatch')
    if out._dtype != r._dtype:
        raise DTypeError(f'out= dtype mismatch: {out._dtype} vs {r._dtype}')
    out._write()
    out._a[...] = r._a
    out._unit = r.unit
    out._rnd = r._rnd
    return out


def to_unit(v: Variable, unit, *, copy=True):
    unit = parse_unit(unit)
    if not copy:
        CONV_LOG.append((v._buf, unit, None))
    if v._bins is not None:
        from .bins import binned_unary

        return binned_unary(v, lambda x: to_unit(x, unit, copy=copy))
    if v.unit == unit:
        if not copy:
            ALIAS_LOG.append(('to_unit', v))
            return v
        return v.copy()
    if v.unit is None:
        raise UnitError('to_unit on unitless')
    f = R(v.unit.factor_to(unit))
    if v._dtype.name in _INTS:
        # scipp converts integers in integer arithmetic: the result is an integer near x*f (truncation / rounding of the
        # scaled value; measured: [3,15,20] 1/nm -> [0,1,2] 1/angstrom).  Modelled as an arbitrary integer k with |k - x*f| < 1.
        def conv(x):
            exact = x * f
            if exact.is_const() and exact.const_value().denominator == 1:
                return exact
            k = R(T.fresh('intconv', is_int=True))
            C.CTX.definitions.append((k - exact < 1) & (exact - k < 1))
            return k
        res = _map1(conv, v._a)
        return Variable(_arr=res, dims=v.dims, unit=unit, dtype=v._dtype, _rnd=v._rnd)
    if v.elem == (3, 3):
        raise C.Unsupported('to_unit of matrix')
    res = _map1(lambda x: x * f, v._a)
    var = None if v._v is None else _map1(lambda s: s * f * f, v._v)
    return Variable(_arr=res, _var=var, dims=v.dims, unit=unit, dtype=v._dtype, _rnd=_rnd_add(v._rnd, v._dtype if v._dtype.name in _FLOATS else DType.float64))


def reduce_(v: Variable, kind, dim=None):
    if v._bins is not None:
        raise C.Unsupported('reduction of binned variable')
    if dim is None:
        dims_red = v.dims
    else:
        dims_red = (dim,) if isinstance(dim, str) else tuple(dim)
    for d in dims_red:
        if d not in v.dims:
            raise DimensionError(f'Expected dimension to be in {v.dims}, got {d}.')
    keep = tuple(d for d in v.dims if d not in dims_red)
    perm = [v.dims.index(d) for d in keep] + [v.dims.index(d) for d in dims_red] + list(range(len(v.dims), v._a.ndim))
    a = v._a.transpose(perm)
    kshape = a.shape[: len(keep)]
    out = np.empty(kshape + v.elem, dtype=object)
    ovar = None if v._v is None else np.empty(kshape, dtype=object)
    av = None if v._v is None else v._v.transpose(perm)
    for idx in np.ndindex(kshape):
        sub = np.asarray(a[idx], dtype=object) if not isinstance(a[idx], np.ndarray) else a[idx]
        items = list(sub.reshape((-1, *v.elem))) if v.elem else list(sub.flat)
        n = len(items)
        if kind in ('all', 'any'):
            if v._dtype != DType.bool:
                raise DTypeError(f'{kind} on non-bool')
            out[idx] = C.all_of(items) if kind == 'all' else C.any_of(items)
        elif kind == 'sum':
            s = R.lift(0) if not v.elem else np.array([R.lift(0)] * 3, dtype=object)
            for it in items:
                s = s + it
            out[idx] = s
            if ovar is not None:
                t = R.lift(0)
                for it in np.asarray(av[idx], dtype=object).flat:
                    t = t + it
                ovar[idx] = t
        elif kind == 'mean':
            s = R.lift(0)
            for it in items:
                s = s + it
            out[idx] = s / n if n else C.NAN
            if ovar is not None:
                t = R.lift(0)
                for it in np.asarray(av[idx], dtype=object).flat:
                    t = t + it
                ovar[idx] = t / (n * n)
        elif kind in ('min', 'max'):
            if n == 0:
                # scipp: identity of the reduction (largest / lowest double), no error
                import sys as _sys
                big = R.lift(Fraction(_sys.float_info.max))
                out[idx] = big if kind == 'min' else -big
                continue
            m = items[0]
            for it in items[1:]:
                if kind == 'min':
                    m = it if bool(it < m) else m
                else:
                    m = it if bool(it > m) else m
            out[idx] = m
        else:
            raise AssertionError(kind)
    dt = DType.bool if kind in ('all', 'any') else (DType.float64 if kind == 'mean' and v._dtype.name in _INTS else v._dtype)
    return Variable(_arr=out, _var=ovar, dims=keep, unit=None if kind in ('all', 'any') else v.unit, dtype=dt, _rnd=v._rnd)
