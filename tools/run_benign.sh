#!/bin/sh
# Applies every behaviour-preserving refactoring under benign/ to /repo, runs the matching quick check, undoes it.
# Expected: exit 0 and no VIOLATION line for each.
cd "$(dirname "$0")/.." || exit 2
if ! git -C /repo diff --quiet; then echo "/repo has local changes; refusing"; exit 2; fi
out=benign/RESULTS.txt; : > $out
for d in benign/C*/; do
  id=$(basename $d)
  git -C /repo apply "$PWD/$d/patch.diff" || { echo "$id: patch does not apply" | tee -a $out; continue; }
  log=$(mktemp)
  VERIF_JOB_TIMEOUT=400 bin/check $id > $log 2>&1; rc=$?
  git -C /repo checkout -- .
  echo "$id: check exit=$rc violations=$(grep -c '^VIOLATION' $log) $(grep 'HARNESS-ERROR' $log | head -1 | cut -c1-160)" | tee -a $out
  rm -f $log
done
