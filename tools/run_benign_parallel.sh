#!/bin/sh
# Same question as tools/run_benign.sh (does every behaviour-preserving refactoring leave its check at exit 0?), answered N seeds at a time:
# each refactoring is applied to its own scratch worktree of /repo's HEAD (outside /repo and /verif, removed afterwards) and the
# quick check is pointed at that tree with VERIF_REPO_SRC.  /repo itself is not touched.
# usage: tools/run_seeds_parallel.sh [N=3] [seed-dir ...]
cd "$(dirname "$0")/.." || exit 2
N=${1:-3}; [ $# -gt 0 ] && shift
seeds="$*"; [ -z "$seeds" ] && seeds=$(ls -d benign/C*/ | sed 's|/$||')
T=$(mktemp -d /tmp/benignwt.XXXXXX)
i=0; while [ $i -lt $N ]; do git -C /repo worktree add -q --detach $T/w$i HEAD || exit 2; i=$((i+1)); done
export T V=$PWD
cat > $T/one.sh <<'EOS'
#!/bin/sh
d=$1; id=$(basename $d); prop=$id; W=$T/w$SLOT
git -C $W checkout -q -- . ; git -C $W clean -fdq
git -C $W apply "$V/$d/patch.diff" || { echo "$id: patch does not apply"; exit 0; }
log=$T/$id.log
( cd $V && VERIF_JOB_TIMEOUT=400 VERIF_REPO_SRC=$W/src bin/check $prop > $log 2>&1 ); rc=$?
nv=$(grep -c '^VIOLATION' $log)
sig=$(grep 'signature=' $log | head -2 | sed 's/^ *//' | cut -c1-160 | tr '\n' ';')
echo "$id: check $prop exit=$rc violations=$nv $sig"
EOS
chmod +x $T/one.sh
for d in $seeds; do echo $d; done | xargs -P $N --process-slot-var=SLOT -I{} $T/one.sh {} > $T/results.txt
sort $T/results.txt > benign/RESULTS.txt
cat benign/RESULTS.txt
i=0; while [ $i -lt $N ]; do git -C /repo worktree remove --force $T/w$i; i=$((i+1)); done
git -C /repo worktree prune; rm -rf $T
