#!/bin/sh
# Runs every seeded change the prescribed way: apply to /repo, run the matching quick check, undo.
# usage: tools/run_seeds.sh [seed-dir ...]   (default: all of seeded/*)
cd "$(dirname "$0")/.." || exit 2
if ! git -C /repo diff --quiet; then echo "/repo has local changes; refusing"; exit 2; fi
seeds="$*"; [ -z "$seeds" ] && seeds=$(ls -d seeded/C*/ | sed 's|/$||')
out=seeded/RESULTS.txt; : > $out
for d in $seeds; do
  id=$(basename $d); prop=${id%%-*}
  git -C /repo apply "$PWD/$d/patch.diff" || { echo "$id: patch does not apply" | tee -a $out; continue; }
  log=$(mktemp)
  VERIF_JOB_TIMEOUT=400 bin/check $prop > $log 2>&1; rc=$?
  git -C /repo checkout -- .
  nv=$(grep -c '^VIOLATION' $log)
  sig=$(grep 'signature=' $log | head -2 | sed 's/^ *//' | cut -c1-160 | tr '\n' ';')
  echo "$id: check $prop exit=$rc violations=$nv $sig" | tee -a $out
  rm -f $log
done
git -C /repo status --short | head -3
