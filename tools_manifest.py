"""Regenerates MANIFEST.json from the table below (keeps it valid at all times)."""
import json, os
V = os.path.dirname(os.path.abspath(__file__))
CHECKS = json.load(open(os.path.join(V, 'manifest_checks.json')))
props = [json.loads(l) for l in open(os.path.join(V, 'properties.jsonl'))]
checks, na = [], []
for p in props:
    pid = p['id']
    c = CHECKS.get(pid)
    if c is None or c.get('not_applicable'):
        na.append({'property_id': pid, 'reason': (c or {}).get('not_applicable', 'check not built yet (work in progress)')})
        continue
    checks.append({
        'property_id': pid,
        'quick_cmd': f'bin/check {pid} --tier quick',
        'thorough_cmd': f'bin/check {pid} --tier thorough',
        'evidence_file': f'evidence/{pid}.json',
        'replay_cmd_template': f'bin/check {pid} --replay {{path}}',
        'engine': 'symex',
        'level_claimed': {'category': 'other', 'text': c['text'], 'design_ref': c.get('design_ref', f'DESIGN.md section 5 / {pid}')},
        'level_note': c['note'],
        'technique': c['technique'],
    })
m = {
    'version': 1,
    'setup_cmd': 'bin/bootstrap',
    'hooks': {'guard': 'SCIPPNEUTRON_VERIF', 'enable': 'no source hooks are needed: the real modules are imported unmodified over a symbolic scipp shim',
              'baseline_off_cmd': 'cd /repo && /venv/bin/python -m pytest -ra -q -p no:cacheprovider --timeout=900 --continue-on-collection-errors',
              'source_commits': [], 'add_only': True},
    'engines': [{'name': 'symex', 'path': 'symex/ symsc/ harness/', 'serves_properties': [c['property_id'] for c in checks],
                 'kind_free_text': 'bounded symbolic execution of the real Python source over a symbolic model of scipp/numpy; rational-normal-form term layer; z3 decides every obligation; counterexamples replayed on real scipp'}],
    'checks': checks,
    'not_applicable': na,
    'notes': 'See DESIGN.md. Exit 3 = harness error/inconclusive encoding (never a VIOLATION).',
}
json.dump(m, open(os.path.join(V, 'MANIFEST.json'), 'w'), indent=1)
print(len(checks), 'checks;', len(na), 'not applicable')
